"""Rules shared by the translator properties (C04 C05 C06 C07): the memo table of Translator.from_expr.

 TC ownership: `self._cache` is bound, in __init__, to a freshly constructed container; no class-level or module-level
    object is used (two translator objects of one language but different handlers must not see each other's results)
 TC key: from_expr looks the expression itself up (membership test, read and store use the parameter as key): a
    projection of it (hash, str, size ...) is not injective
 TC dispatch: the handler table maps each expression class to the like-named from_<Class> method and the stored value is
    the handler's result for that same expression
"""
import ast

from sa.astutil import walk_body, dotted, norm, Resolver

TR = "miasm/ir/translators/translator.py"
FRESH = ("BoundedDict", "dict", "OrderedDict", "WeakKeyDictionary")


def translator_cache_rules(ck, rid):
    m = ck.repo.mod(TR)
    cls = m.cls("Translator")
    meths = m.methods("Translator")
    ck.need("from_expr" in meths and "__init__" in meths, "Translator.from_expr / __init__ not found")
    # ---------------------------------------------------------------- ownership
    bad = []
    n_w = 0
    tdir = "miasm/ir/translators"
    for rel in [r for r in ck.repo.pyfiles(tdir)]:
        mm = ck.repo.mod(rel)
        for c in [n for n in mm.tree.body if isinstance(n, ast.ClassDef)]:
            for st in c.body:
                if isinstance(st, ast.Assign) and any(isinstance(t, ast.Name) and t.id in ("_cache", "_caches") for t in st.targets):
                    bad.append((mm.where(st), "class attribute %s.%s is shared by every instance" % (c.name, norm(st.targets[0]))))
        for q, fn in sorted(mm.funcs.items()):
            for n in walk_body(fn):
                if isinstance(n, (ast.Assign, ast.AugAssign)):
                    tgs = n.targets if isinstance(n, ast.Assign) else [n.target]
                    for t in tgs:
                        if isinstance(t, ast.Attribute) and t.attr == "_cache" and norm(t.value) == "self":
                            n_w += 1
                            v = n.value
                            fresh = (isinstance(v, ast.Call) and (dotted(v.func) or "").split(".")[-1] in FRESH) or isinstance(v, ast.Dict)
                            if not fresh or isinstance(n, ast.AugAssign):
                                bad.append((mm.where(n), "%s binds self._cache to `%s`, which is not a container created for this object" % (q, norm(v)[:60])))
    if n_w == 0 and not bad:
        ck.need(False, "no assignment to self._cache found in %s" % tdir)
    ck.ob(rid, "Translator._cache:per-instance", not bad, bad[0][0] if bad else m.where(meths["__init__"]),
          "the translation memo table is not private to the translator object: %s" % "; ".join(b[1] for b in bad))
    # ---------------------------------------------------------------- key
    fn = meths["from_expr"]
    param = fn.args.args[1].arg
    res = Resolver(fn)
    keys = []
    for n in walk_body(fn):
        if isinstance(n, ast.Subscript) and norm(n.value) == "self._cache":
            keys.append(n.slice)
        if isinstance(n, ast.Compare) and len(n.ops) == 1 and isinstance(n.ops[0], (ast.In, ast.NotIn)) and norm(n.comparators[0]) == "self._cache":
            keys.append(n.left)
        if isinstance(n, ast.Call) and isinstance(n.func, ast.Attribute) and norm(n.func.value) == "self._cache" and n.func.attr in ("get", "setdefault", "pop") and n.args:
            keys.append(n.args[0])
    ck.need(len(keys) >= 2, "Translator.from_expr no longer consults self._cache (memoisation removed or moved)")
    lossy = [k for k in keys if norm(res.expand_node(k)) != param]
    ck.ob(rid, "Translator.from_expr:cache-key-is-the-expression", not lossy, m.where(lossy[0] if lossy else fn),
          "the memo table is consulted with key `%s` instead of the expression itself: two different expressions with the same "
          "projection share one translation" % (norm(res.expand_node(lossy[0]))[:60] if lossy else ""))
    # ---------------------------------------------------------------- dispatch
    tabs = [n for n in walk_body(fn) if isinstance(n, ast.Dict) and len(n.keys) >= 5]
    ck.need(tabs, "Translator.from_expr: handler table not found")
    wrong = []
    for k, v in zip(tabs[0].keys, tabs[0].values):
        kc = (dotted(k) or "").split(".")[-1]
        vc = (dotted(v) or "").split(".")[-1]
        if vc != "from_" + kc:
            wrong.append("%s -> %s" % (kc, vc))
    ck.ob(rid, "Translator.from_expr:handler-table", not wrong, m.where(tabs[0]),
          "expression classes are dispatched to another class's handler: %s" % ", ".join(wrong))
    stores = [n for n in walk_body(fn) if isinstance(n, ast.Assign) and isinstance(n.targets[0], ast.Subscript) and norm(n.targets[0].value) == "self._cache"]
    okv = True
    for st in stores:
        v = res.expand_node(st.value)
        okv = okv and isinstance(v, ast.Call) and len(v.args) == 1 and norm(res.expand_node(v.args[0])) == param
    ck.ob(rid, "Translator.from_expr:stores-the-handler-result", bool(stores) and okv, m.where(stores[0] if stores else fn),
          "the value stored in the memo table is not the handler's result for the expression being translated")
    # ---------------------------------------------------------------- the memo container keeps its own tables in step
    _bounded_dict_rules(ck, rid, m, meths)


def _bounded_dict_rules(ck, rid, m, meths):
    """If the memo table is a BoundedDict (miasm/core/utils.py): its value table and its use counter must have the same keys on every
    path of every method; otherwise a later hit (`key in cache` is decided on one table, the read updates the other) raises KeyError
    and no source is produced for a supported expression."""
    from sa import mirror
    from sa.repo import AnalysisError
    init = meths["__init__"]
    uses = [n for n in walk_body(init) if isinstance(n, ast.Call) and (dotted(n.func) or "").split(".")[-1] == "BoundedDict"]
    if not uses:
        return
    U = "miasm/core/utils.py"
    um = ck.repo.mod(U)
    bm = um.methods("BoundedDict")
    ck.need("__init__" in bm and "__setitem__" in bm and "__getitem__" in bm, "BoundedDict.__init__ / __setitem__ / __getitem__ not found")
    # the pair: the table built in __init__ as a key-copy of the other
    pair = None
    for n in walk_body(bm["__init__"]):
        if isinstance(n, ast.Assign) and len(n.targets) == 1 and isinstance(n.targets[0], ast.Attribute) and norm(n.targets[0].value) == "self":
            v = n.value
            src = None
            if isinstance(v, ast.DictComp) and len(v.generators) == 1 and isinstance(v.generators[0].iter, ast.Attribute) and norm(v.generators[0].iter.value) == "self":
                src = v.generators[0].iter.attr
            if isinstance(v, ast.Call) and norm(v.func) == "dict.fromkeys" and v.args and isinstance(v.args[0], ast.Attribute) and norm(v.args[0].value) == "self":
                src = v.args[0].attr
            if src:
                pair = (src, n.targets[0].attr)
    if pair is None:
        # a container with one table has nothing to keep in step
        one = [n for n in walk_body(bm["__getitem__"]) if isinstance(n, ast.AugAssign)]
        ck.need(not one, "BoundedDict: __getitem__ updates a second table but __init__ does not build it from the first")
        return
    try:
        issues, stats = mirror.check(bm, pair[0], pair[1])
    except mirror.NotUnderstood as e:
        raise AnalysisError("BoundedDict: %s" % e)
    ck.need(stats["methods"] >= 3 and stats["stores"] >= 4, "BoundedDict: fewer methods / stores on self.%s, self.%s than reviewed (%s)" % (pair[0], pair[1], stats))
    by = {}
    for mn, node, text in issues:
        by.setdefault(mn, []).append((node, text))
    for mn in sorted(set(list(by) + [k for k in bm if any(norm(x) in ("self." + pair[0], "self." + pair[1]) for x in ast.walk(bm[k]) if isinstance(x, ast.Attribute))])):
        bad = by.get(mn, [])
        ck.ob(rid, "BoundedDict.%s:tables-in-step" % mn, not bad, um.where(bad[0][0] if bad else bm[mn]),
              "BoundedDict.%s: %s: `key in cache` then succeeds while the read raises KeyError (or the reverse), so a supported expression "
              "gets no translation" % (mn, "; ".join(b[1] for b in bad)))
