"""C08 - expressions are canonical values and round-trip through serialization.

Structural clauses decided (fields are parsed from the classes' __slots__/__new__ on every run):
 R1 identity-field completeness of every Expr class: all constructor parameters flow into the
    hash-consing key; __reduce__ returns exactly the fields in constructor order; _exprhash hashes
    a class tag and every field, tags pairwise distinct; _exprrepr prints every field in
    constructor order; copy() passes every field
 R2 printer / parser agreement: each class's _exprrepr template and its pyparsing production have
    the same token shape; sequences are printed element-wise (a tuple's own repr has a trailing
    comma for one element); str fields printed with %r need a Python-literal reader
 R3 the generic rebuilder (ExprVisitorBase.visit, used by copy/replace_expr/visit) rebuilds every
    kind with the same class and every field in constructor order
 R4 hash-consing: get_object looks up and stores under the same (class, args) key and returns the
    stored object; ExprInt reduces its value modulo 2^size before keying; identity equality
"""
import ast
import re

from sa.astutil import walk_body, walk_local, dotted, norm, callee_attr, Resolver, const_value
from sa.exprmodel import ExprModel, KINDS, IS_PRED
from sa.repo import AnalysisError

REL = "miasm/expression/expression.py"
PARSER = "miasm/expression/parser.py"
LEVEL_TEXT = ("Static field-completeness and agreement rules over the nine Expr classes, the generic rebuilder, "
              "the hash-consing table and the repr grammar: every identity field (from __slots__) must reach the "
              "key, the pickle state, the hash, the repr and the rebuilder, in constructor order; repr templates "
              "and pyparsing productions must have the same token shape. Decides these necessary clauses; performs "
              "no construction, pickling or parsing.")
LEVEL_TEXT += ' Also: every constructor that rewrites its arguments reaches a fixed point on what it stored (pickle/copy/repr rebuild through the constructor).'
ASSUMPTIONS = ["CPython ast", "Python's repr of a 1-tuple has a trailing comma; pyparsing.delimitedList accepts none",
               "pyparsing.QuotedString(escChar) removes the escape character only (it is not a Python literal reader)"]


def _field_mentions(node, fields, self_name="self"):
    """Ordered list of fields mentioned as self._f / self.f inside node (first mention order)."""
    hits = []
    for n in walk_local(node):
        if isinstance(n, ast.Attribute) and isinstance(n.value, ast.Name) and n.value.id == self_name:
            f = n.attr.lstrip("_")
            if f in fields:
                hits.append((getattr(n, "lineno", 0), getattr(n, "col_offset", 0), f))
    hits.sort()
    out = []
    for _l, _c, f in hits:
        if f not in out:
            out.append(f)
    return out


def _taint(fn, param):
    t = set([param])
    changed = True
    while changed:
        changed = False
        for n in walk_body(fn):
            if isinstance(n, ast.Assign):
                src = set(x.id for x in walk_local(n.value) if isinstance(x, ast.Name))
                if src & t:
                    for tg in n.targets:
                        for x in walk_local(tg):
                            if isinstance(x, ast.Name) and x.id not in t:
                                t.add(x.id)
                                changed = True
    return t


def _fmt_tokens(template):
    """Token shape of a %-format template after the class-name hole."""
    toks = []
    i = 0
    s = template
    while i < len(s):
        c = s[i]
        if c == "%":
            j = i + 1
            while j < len(s) and s[j] in "0123456789.-+# l":
                j += 1
            toks.append("%" + s[j])
            i = j + 1
        elif c in "(),<>":
            toks.append(c)
            i += 1
        elif c.isspace():
            i += 1
        else:
            j = i
            while j < len(s) and (s[j].isalnum() or s[j] == "_"):
                j += 1
            if j == i:
                j = i + 1
            toks.append(s[i:j])
            i = j
    return toks


def run(ck):
    em = ExprModel(ck.repo)
    m = ck.repo.mod(REL)
    ck.rule("R1", "every identity field reaches the hash-consing key, the pickle state, the hash, the repr and copy(), "
                  "in constructor order; hash tags are pairwise distinct", floor=40)
    ck.rule("R2", "repr template and parser production have the same token shape; element-wise printing of "
                  "sequences; Python-literal reader for %r-printed strings", floor=6)
    ck.rule("R3", "the generic rebuilder rebuilds every kind with its own class and every field in order", floor=9)
    ck.rule("R4", "hash-consing key consistency, modular reduction of ExprInt, identity equality", floor=4)
    ck.rule("R5", "a constructor that rewrites its arguments reaches a fixed point: rebuilding an expression from its stored components "
                  "takes the constructor's identity path (necessary for pickle / copy / repr round trips)", floor=3)

    tags = {}
    for k in KINDS:
        fields = em.fields[k]
        params = getattr(em, "params_" + k)
        new = m.func(k + ".__new__")
        # (a) key
        keyc = [c for c in walk_body(new) if isinstance(c, ast.Call) and dotted(c.func) == "Expr.get_object"]
        ck.need(len(keyc) == 1 and len(keyc[0].args) == 2, "%s.__new__: Expr.get_object(cls, key) not found" % k)
        key = keyc[0].args[1]
        key_names = set(x.id for x in walk_local(key) if isinstance(x, ast.Name))
        for p in params:
            ok = bool(_taint(new, p) & key_names)
            ck.ob("R1", "%s.__new__:key:%s" % (k, p), ok, m.where(new),
                  "constructor parameter `%s` does not reach the hash-consing key `%s`: two expressions differing "
                  "only in it are the same object" % (p, norm(key)))
        if isinstance(key, ast.Tuple):
            ck.ob("R1", "%s.__new__:key-arity" % k, len(key.elts) == len(params), m.where(new),
                  "key `%s` has %d components for %d constructor parameters" % (norm(key), len(key.elts), len(params)))
        # (b) __reduce__
        red = m.func(k + ".__reduce__")
        res = Resolver(red)
        rets = [n for n in walk_body(red) if isinstance(n, ast.Return)]
        ck.need(len(rets) == 1 and isinstance(rets[0].value, ast.Tuple) and len(rets[0].value.elts) == 2,
                "%s.__reduce__: `return cls, state` not recognised" % k)
        state = res.expand_node(rets[0].value.elts[1])
        got = _field_mentions(state, fields)
        ck.ob("R1", "%s.__reduce__" % k, got == fields, m.where(red),
              "pickle state `%s` carries fields %s but the constructor takes %s in that order" % (norm(state), got, fields))
        ck.ob("R1", "%s.__reduce__:class" % k, norm(rets[0].value.elts[0]) in ("self.__class__", k, "type(self)"),
              m.where(red), "__reduce__ rebuilds with `%s`" % norm(rets[0].value.elts[0]))
        # (c) hash
        hf = m.func(k + "._exprhash")
        got = _field_mentions(hf, fields)
        ck.ob("R1", "%s._exprhash:fields" % k, set(got) == set(fields), m.where(hf),
              "hash covers %s, identity fields are %s" % (got, fields))
        tag = None
        for n in walk_body(hf):
            if isinstance(n, ast.Name) and n.id.startswith("EXPR") and n.id in m.assigns:
                okc, v = const_value(m.assigns[n.id])
                if okc:
                    tag = (n.id, v)
        ck.ob("R1", "%s._exprhash:tag" % k, tag is not None and tag[1] not in [t[1] for t in tags.values()], m.where(hf),
              "hash has no class tag, or its tag %s collides with another class's" % (tag,))
        if tag:
            tags[k] = tag
        # (d) repr
        rf = m.func(k + "._exprrepr")
        got = _field_mentions(rf, fields)
        ck.ob("R1", "%s._exprrepr:fields" % k, got == fields, m.where(rf),
              "repr prints fields %s, constructor order is %s" % (got, fields))
        # (e) copy
        cf = m.funcs.get(k + ".copy")
        ck.need(cf is not None, "%s.copy vanished" % k)
        got = _field_mentions(cf, fields)
        cres = Resolver(cf)
        rets = [n for n in walk_body(cf) if isinstance(n, ast.Return)]
        callee = callee_attr(rets[0].value) if rets and isinstance(rets[0].value, ast.Call) else None
        ck.ob("R1", "%s.copy" % k, set(got) == set(fields) and callee == k, m.where(cf),
              "copy() builds `%s` from fields %s; identity fields are %s" % (callee, got, fields))

    # ------------------------------------------------------------------ R4
    go = m.func("Expr.get_object")
    res = Resolver(go)
    # lookups of the table in any idiom: .get(K), table[K] (load), K in table
    look = []
    for c in walk_body(go):
        if isinstance(c, ast.Call) and isinstance(c.func, ast.Attribute) and c.func.attr in ("get", "setdefault") and dotted(c.func.value) == "Expr.args2expr" and c.args:
            look.append(c.args[0])
        if isinstance(c, ast.Subscript) and isinstance(c.ctx, ast.Load) and dotted(c.value) == "Expr.args2expr":
            look.append(c.slice)
        if isinstance(c, ast.Compare) and len(c.ops) == 1 and isinstance(c.ops[0], (ast.In, ast.NotIn)) and dotted(c.comparators[0]) == "Expr.args2expr":
            look.append(c.left)
    sets = [n for n in walk_body(go) if isinstance(n, ast.Assign) and any(
        isinstance(t, ast.Subscript) and dotted(t.value) == "Expr.args2expr" for t in n.targets)]
    setd = [c for c in walk_body(go) if isinstance(c, ast.Call) and isinstance(c.func, ast.Attribute) and c.func.attr == "setdefault" and dotted(c.func.value) == "Expr.args2expr"]
    ck.need(look and (sets or setd), "Expr.get_object: table lookup/store not found")
    kgets = set(res.expand(k) for k in look)
    ksets = set(res.expand([t for t in n.targets if isinstance(t, ast.Subscript)][0].slice) for n in sets) | set(res.expand(c.args[0]) for c in setd)
    pn = [a.arg for a in go.args.args]
    one = len(kgets | ksets) == 1
    kget = sorted(kgets)[0]
    kset = sorted(ksets)[0]
    import re as _re
    ck.ob("R4", "Expr.get_object:key", one and all(_re.search(r"\b%s\b" % p_, kget) for p_ in pn), m.where(go),
          "lookup key(s) %s and store key(s) %s differ or omit a parameter of %s" % (sorted(kgets), sorted(ksets), pn))
    stored = norm(sets[0].value) if sets else (norm(setd[0]) if setd else "?")
    rets = [norm(n.value) for n in walk_body(go) if isinstance(n, ast.Return) and n.value is not None]
    ck.ob("R4", "Expr.get_object:returns-stored", stored in rets or any(res.expand(ast.parse(r_, mode="eval").body) == res.expand(ast.parse(stored, mode="eval").body) for r_ in rets), m.where(go),
          "the object stored in the table (`%s`) is not the one returned (%s)" % (stored, rets))
    newi = m.func("ExprInt.__new__")
    masked = any(isinstance(n, ast.Assign) and isinstance(n.value, ast.BinOp) and isinstance(n.value.op, ast.BitAnd)
                 and re.sub(r"\s", "", norm(n.value)) in ("arg&(1<<size)-1", "arg&((1<<size)-1)", "(1<<size)-1&arg")
                 for n in walk_body(newi)) or any(
        isinstance(n, ast.BinOp) and isinstance(n.op, ast.Mod) and norm(n.left) == "arg" and "1 << size" in norm(n.right)
        for n in walk_body(newi))
    ck.ob("R4", "ExprInt.__new__:modular", masked, m.where(newi),
          "ExprInt does not reduce its value modulo 2^size before hash-consing: equal constants are different objects")
    # the fields a __new__ stores on the interned object are the values the key was built from: a store of a value
    # (re)computed after the lookup gives two objects with equal fields (equal repr/hash/pickle) that are not identical
    from sa.cfg import CFG, node_calls
    from sa.astutil import assigned_targets
    for k in KINDS:
        nf = m.funcs.get("%s.__new__" % k)
        if nf is None:
            continue
        stores = [n for n in walk_body(nf) if isinstance(n, ast.Assign) and any(
            isinstance(t, ast.Attribute) and isinstance(t.value, ast.Name) and t.attr.startswith("_") for t in assigned_targets(n))]
        if not stores:
            continue
        cfg = CFG(nf.body)
        gnodes = [nd for nd in cfg.nodes if any(dotted(c.func) == "Expr.get_object" for c in node_calls(nd))]
        ck.need(gnodes, "%s.__new__: no Expr.get_object call" % k)
        gcall = [c for c in node_calls(gnodes[0]) if dotted(c.func) == "Expr.get_object"][0]
        key = gcall.args[1]
        kel = [norm(e) for e in key.elts] if isinstance(key, ast.Tuple) else None
        fields = em.fields[k]
        for st in stores:
            snode = cfg.node_containing(st)[0]
            tg = st.targets[0]
            pairs = list(zip(tg.elts, st.value.elts)) if isinstance(tg, ast.Tuple) and isinstance(st.value, ast.Tuple) else [(tg, st.value)]
            for t, v in pairs:
                f = t.attr.lstrip("_")
                if f not in fields or kel is None or fields.index(f) >= len(kel):
                    continue
                want = kel[fields.index(f)]
                ok = norm(v) == want
                why = "stores `%s` but the key holds `%s`" % (norm(v), want)
                if ok and isinstance(v, ast.Name):
                    # no redefinition of the name between the lookup and the store
                    for nd in cfg.nodes:
                        if nd.kind == "stmt" and nd.ast is not st and any(isinstance(x, ast.Name) and x.id == v.id for x in assigned_targets(nd.ast)) \
                                and cfg.can_reach(gnodes[0].id, nd.id) and cfg.can_reach(nd.id, snode.id) and nd.id != gnodes[0].id:
                            ok = False
                            why = "`%s` is recomputed (%s) after the key was built from it and before it is stored" % (v.id, m.where(nd.ast))
                ck.ob("R4", "%s.__new__:stored-%s-is-key" % (k, f), ok, m.where(st),
                      "the interned object's field %s %s: structurally equal expressions stop being one object" % (f, why))
    # the same for fields stored by __init__ (which receives the arguments __new__ built the key from): the value stored
    # in `self._f` must be the key component of f, after resolving single-definition locals on both sides
    from sa.astutil import Resolver as _Res
    for k in KINDS:
        nf = m.funcs.get("%s.__new__" % k)
        inf = m.funcs.get("%s.__init__" % k)
        if nf is None or inf is None:
            continue
        gcalls = [c for c in walk_body(nf) if isinstance(c, ast.Call) and dotted(c.func) == "Expr.get_object" and len(c.args) == 2]
        if not gcalls:
            continue
        key = gcalls[0].args[1]
        fields = em.fields[k]
        rn, ri = _Res(nf), _Res(inf)
        pn = [a.arg for a in nf.args.args[1:]] + ([nf.args.vararg.arg] if nf.args.vararg else [])
        pi = [a.arg for a in inf.args.args[1:]] + ([inf.args.vararg.arg] if inf.args.vararg else [])
        ck.ob("R4", "%s:__new__/__init__ signatures" % k, pn == pi, m.where(inf),
              "__new__%s and __init__%s take different parameters: the key and the stored fields are built from different values" % (pn, pi))
        if pn != pi:
            continue
        if isinstance(key, ast.Tuple):
            kel = [norm(rn.expand_node(e)) for e in key.elts]
        elif len(fields) == 1 or (isinstance(key, ast.Name) and "args" in fields and len([f for f in fields if f != "size"]) == 1):
            kel = None
            single = norm(rn.expand_node(key))
        else:
            continue
        for st in [n for n in walk_body(inf) if isinstance(n, ast.Assign)]:
            tg = st.targets[0]
            pairs = list(zip(tg.elts, st.value.elts)) if isinstance(tg, ast.Tuple) and isinstance(st.value, ast.Tuple) and len(tg.elts) == len(st.value.elts) else [(tg, st.value)]
            for t, v in pairs:
                if not (isinstance(t, ast.Attribute) and norm(t.value) == "self" and t.attr.startswith("_")):
                    continue
                f = t.attr.lstrip("_")
                if f not in fields:
                    continue
                if kel is not None:
                    if fields.index(f) >= len(kel):
                        continue
                    want = kel[fields.index(f)]
                else:
                    want = single
                got = norm(ri.expand_node(v))
                ck.ob("R4", "%s.__init__:stored-%s-is-key" % (k, f), got == want, m.where(st),
                      "the interned object's field %s stores `%s` but the interning key holds `%s`: two objects with equal fields "
                      "(equal repr / hash / pickle) that are not identical" % (f, got[:60], want[:60]))
    eq = m.func("Expr.__eq__")
    ok = any(isinstance(n, ast.Compare) and isinstance(n.ops[0], ast.Is) and norm(n.left) == "self" for n in walk_body(eq))
    ck.ob("R4", "Expr.__eq__:identity", ok, m.where(eq), "__eq__ has no identity fast path")
    from rules.c11 import expr_equality_rules
    expr_equality_rules(ck, "R4", m)

    _fixed_point_rules(ck, m)

    # ------------------------------------------------------------------ R3 rebuilder
    vis = m.func("ExprVisitorBase.visit")
    E = vis.args.args[1].arg
    seen_k = set()
    for n in walk_body(vis):
        if not isinstance(n, ast.If):
            continue
        preds = []
        t = n.test
        for c in walk_local(t):
            if isinstance(c, ast.Call) and isinstance(c.func, ast.Attribute) and norm(c.func.value) == E and c.func.attr in IS_PRED:
                preds.append(IS_PRED[c.func.attr])
        if not preds:
            continue
        body = ast.Module(body=n.body, type_ignores=[])
        if len(preds) > 1 or preds[0] in ("ExprInt", "ExprId", "ExprLoc"):
            # leaves: returned unchanged
            ok = any(isinstance(s, ast.Assign) and norm(s.value) == E for s in n.body) or any(
                isinstance(s, ast.Return) and norm(s.value) == E for s in n.body)
            for p in preds:
                seen_k.add(p)
                ck.ob("R3", "ExprVisitorBase.visit:%s" % p, ok, m.where(n), "leaf kind %s is not returned unchanged" % p)
            continue
        k = preds[0]
        seen_k.add(k)
        fields = em.fields[k]
        build = [c for c in walk_local(body) if isinstance(c, ast.Call) and callee_attr(c) in KINDS]
        ok = False
        detail = "no constructor call in the %s branch" % k
        if build:
            c = build[0]
            detail = "rebuilds with %s" % norm(c)
            if callee_attr(c) == k:
                # each positional argument i must derive from field i
                local = {}
                for s in walk_local(body):
                    if isinstance(s, ast.Assign) and len(s.targets) == 1 and isinstance(s.targets[0], ast.Name):
                        local[s.targets[0].id] = s.value
                got = []
                for a in c.args:
                    a2 = a.value if isinstance(a, ast.Starred) else a
                    if isinstance(a2, ast.Name) and a2.id in local:
                        a2 = local[a2.id]
                    fm = [x.attr for x in walk_local(a2) if isinstance(x, ast.Attribute) and norm(x.value) == E and x.attr in fields]
                    got.append(fm[0] if fm else "?")
                for kw in c.keywords:
                    fm = [x.attr for x in walk_local(kw.value) if isinstance(x, ast.Attribute) and norm(x.value) == E and x.attr in fields]
                    got.append(fm[0] if fm else "?")
                ok = got == fields
                detail = "rebuilds %s from fields %s, constructor order is %s" % (k, got, fields)
        ck.ob("R3", "ExprVisitorBase.visit:%s" % k, ok, m.where(n), detail)
    for k in KINDS:
        ck.ob("R3", "ExprVisitorBase.visit:dispatch:%s" % k, k in seen_k, m.where(vis), "kind %s has no branch in the rebuilder" % k)

    # ------------------------------------------------------------------ R2 printer / parser
    pm = ck.repo.mod(PARSER)
    prod_of = {}
    for name, v in pm.assigns.items():
        # productions: expr_x = STR_EXPRX + LPARENTHESIS + ... ; find class through the STR_ token
        names = []
        def flat(n):
            if isinstance(n, ast.BinOp) and isinstance(n.op, ast.Add):
                flat(n.left)
                flat(n.right)
            else:
                names.append(n)
        flat(v)
        if len(names) < 3 or not isinstance(names[0], ast.Name) or not names[0].id.startswith("STR_EXPR"):
            continue
        tokdef = pm.assigns.get(names[0].id)
        if not (isinstance(tokdef, ast.Call) and tokdef.args and isinstance(tokdef.args[0], ast.Constant)):
            continue
        cls = tokdef.args[0].value
        shape = []
        for x in names[1:]:
            if isinstance(x, ast.Name):
                d = pm.assigns.get(x.id)
                if x.id == "expr":
                    shape.append("expr")
                elif x.id in ("str_int", "str_int_pos", "integer", "hex_int"):
                    shape.append("int")
                elif x.id == "string":
                    shape.append("str")
                elif isinstance(d, ast.Call) and callee_attr(d) == "Suppress" and d.args and isinstance(d.args[0], ast.Constant):
                    shape.append(d.args[0].value)
                else:
                    shape.append("?" + x.id)
            elif isinstance(x, ast.Call) and callee_attr(x) == "delimitedList":
                shape.append("exprs")
            else:
                shape.append("?" + norm(x))
        prod_of[cls] = (name, shape)
    # reader of strings
    sdef = pm.assigns.get("string_quote")
    literal_reader = not (isinstance(sdef, ast.Call) and callee_attr(sdef) == "QuotedString")
    if not literal_reader:
        # a QuotedString token that keeps the quoted text raw and hands it to ast.literal_eval reads exactly what %r printed;
        # every alternative of `string` must be such a token
        alts = []
        sv = pm.assigns.get("string")

        def flat(e):
            if isinstance(e, ast.BinOp) and isinstance(e.op, (ast.BitOr, ast.BitXor)):
                flat(e.left)
                flat(e.right)
            elif isinstance(e, ast.Name):
                alts.append(e.id)
            else:
                alts.append(None)
        if sv is not None:
            flat(sv)

        def reads_literal(name):
            d = pm.assigns.get(name) if name else None
            if d is None:
                return False
            raw = act = False
            calls = [c for c in ast.walk(d) if isinstance(c, ast.Call)]
            for st in pm.tree.body:
                if isinstance(st, ast.Expr) and isinstance(st.value, ast.Call) and isinstance(st.value.func, ast.Attribute) \
                        and isinstance(st.value.func.value, ast.Name) and st.value.func.value.id == name:
                    calls.append(st.value)
            for c in calls:
                if callee_attr(c) == "QuotedString":
                    raw = any(k.arg in ("unquoteResults", "unquote_results") and isinstance(k.value, ast.Constant) and k.value.value is False for k in c.keywords)
                if callee_attr(c) in ("setParseAction", "set_parse_action", "addParseAction", "add_parse_action") and c.args and isinstance(c.args[0], ast.Lambda):
                    b = c.args[0].body
                    p0 = c.args[0].args.args[0].arg if c.args[0].args.args else None
                    act = isinstance(b, ast.Call) and dotted(b.func) in ("ast.literal_eval", "literal_eval") and len(b.args) == 1 and norm(b.args[0]) == "%s[0]" % p0
            return raw and act
        literal_reader = bool(alts) and all(reads_literal(a) for a in alts)
    lk = m.func("LocKey.__repr__")
    lk_t = [n.left.value for n in walk_body(lk) if isinstance(n, ast.BinOp) and isinstance(n.op, ast.Mod)
            and isinstance(n.left, ast.Constant) and isinstance(n.left.value, str)]
    for k in KINDS:
        ck.need(k in prod_of, "parser.py: production for %s not found" % k)
        pname, shape = prod_of[k]
        rf = m.func(k + "._exprrepr")
        tpl = None
        argsn = None
        for n in walk_body(rf):
            if isinstance(n, ast.BinOp) and isinstance(n.op, ast.Mod) and isinstance(n.left, ast.Constant) and isinstance(n.left.value, str):
                tpl = n.left.value
                argsn = n.right.elts if isinstance(n.right, ast.Tuple) else [n.right]
        if tpl is None:
            raise AnalysisError("%s._exprrepr: %%-template not recognised" % k)
        toks = _fmt_tokens(tpl)
        holes = [t for t in toks if t.startswith("%")]
        if len(holes) != len(argsn):
            ck.ob("R2", "%s:template-arity" % k, False, m.where(rf), "template %r has %d holes for %d values" % (tpl, len(holes), len(argsn)))
            continue
        # build printed shape
        printed = []
        hi = 0
        seq_by_tuple_repr = False
        str_by_repr = False
        for t in toks:
            if not t.startswith("%"):
                if t == "x" or t == "0x" or t == "0":   # pieces of the 0x%X prefix
                    continue
                printed.append(t)
                continue
            a = argsn[hi]
            hi += 1
            an = norm(a)
            if hi == 1:
                printed.append("CLASS" if "__name__" in an or an == repr(k) else "?" + an)
                continue
            f = None
            for x in walk_local(a):
                if isinstance(x, ast.Attribute) and isinstance(x.value, ast.Name) and x.value.id == "self":
                    f = x.attr.lstrip("_")
            if f in ("size", "start", "stop") or (k == "ExprInt" and f == "arg"):
                printed.append("int")
            elif f in ("name", "op"):
                printed.append("str")
                if t == "%r":
                    str_by_repr = True
            elif f == "loc_key":
                printed.extend(_fmt_tokens(lk_t[0])[:1] + ["LocKey", "int", ">"] if lk_t and _fmt_tokens(lk_t[0]) == ["<", "%s", "%d", ">"] else ["?lockey"])
            elif f == "args":
                if isinstance(a, ast.Call) and isinstance(a.func, ast.Attribute) and a.func.attr == "join":
                    printed.append("exprs")
                else:
                    # %r of the tuple itself: "(a, b)" - the parentheses come from the tuple
                    printed.extend(["(", "exprs", ")"])
                    seq_by_tuple_repr = True
            elif f is not None:
                printed.append("expr")
            else:
                printed.append("?" + an)
        want = ["CLASS"] + [s for s in shape]
        # separators: grammar lists "," tokens explicitly; the element-wise list absorbs its own commas
        ck.ob("R2", "%s:shape" % k, printed == want, m.where(rf),
              "repr prints %s but parser production %s reads %s" % (printed, pname, want))
        if "exprs" in printed:
            ck.ob("R2", "%s:sequence-printing" % k, not seq_by_tuple_repr, m.where(rf),
                  "the argument sequence is printed with the tuple's own repr: a one-element %s prints as `%s(x,)` "
                  "and delimitedList() rejects the trailing comma" % (k, k))
        if str_by_repr:
            ck.ob("R2", "%s:string-reader" % k, literal_reader, pm.where(sdef) if sdef is not None else "",
                  "the str field is printed with %r (Python escapes such as \\x01, \\n, \\\\) but read with "
                  "QuotedString(escChar), which only drops the backslash: names with control characters do not round-trip")


def _fixed_point_rules(ck, m):
    """R5.  pickle (__reduce__), copy() and repr/parse all rebuild an expression by calling the constructor on the STORED components.
    They give back the same object only if the constructor, applied to what it stored, stores the same thing again.  Per path of
    K.__new__ (sa/symval): the interning key's components as expressions of the parameters, and the path condition.  A path that
    stores the parameters themselves is an identity path.  For every other path, the identity path's conditions with the parameters
    replaced by the stored components must follow from that path's own conditions (syntactically: the same atom with the same truth
    value, a false conjunct for a false conjunction, `<constant> is None`)."""
    from sa import symval
    from sa.astutil import clone

    def key_of(p_):
        v = p_.value
        if isinstance(v, ast.Call) and dotted(v.func) == "Expr.get_object" and len(v.args) == 2 and isinstance(v.args[1], ast.Tuple):
            return v.args[1].elts
        return None

    def implied(test, truth, conds):
        if isinstance(test, ast.Compare) and len(test.ops) == 1 and isinstance(test.ops[0], (ast.Is, ast.IsNot)) and isinstance(test.left, ast.Constant) \
                and isinstance(test.comparators[0], ast.Constant):
            val = (test.left.value is test.comparators[0].value) == isinstance(test.ops[0], ast.Is)
            return val == truth
        for t, b in conds:
            if norm(t) == norm(test) and b == truth:
                return True
        if isinstance(test, ast.BoolOp) and isinstance(test.op, ast.And):
            if truth:
                return all(implied(v, True, conds) for v in test.values)
            return any(implied(v, False, conds) for v in test.values)
        if isinstance(test, ast.BoolOp) and isinstance(test.op, ast.Or):
            if truth:
                return any(implied(v, True, conds) for v in test.values)
            return all(implied(v, False, conds) for v in test.values)
        if isinstance(test, ast.UnaryOp) and isinstance(test.op, ast.Not):
            return implied(test.operand, not truth, conds)
        return False

    for k in KINDS:
        new = m.func(k + ".__new__")
        params = [a.arg for a in new.args.args[1:]]
        if new.args.vararg is not None:
            continue                                           # (op, *args) / (*args): stored as given, covered by R1/R4
        ps = [(p_, key_of(p_)) for p_ in symval.paths(new.body) if p_.kind == "return"]
        # a path that hands over to the constructor itself (`return cls(...)`) stores what that call stores: by induction it needs no check
        ps = [(p_, kk) for p_, kk in ps if not (kk is None and isinstance(p_.value, ast.Call) and norm(p_.value.func) in ("cls", k))]
        if not ps or any(kk is None or len(kk) != len(params) for _p, kk in ps):
            continue                                           # ExprInt: the key is built through a masked temporary (R4 modular)
        ident = [(p_, kk) for p_, kk in ps if [norm(x) for x in kk] == params]
        if len(ident) == len(ps):
            ck.ob("R5", "%s.__new__:rebuild-fixed-point" % k, True, m.where(new), "stores its arguments as given")
            continue
        ck.need(ident, "%s.__new__: no path stores the arguments as given" % k)
        bad = []
        for p_, kk in ps:
            if (p_, kk) in ident:
                continue
            sub = dict(zip(params, kk))

            class S(ast.NodeTransformer):
                def visit_Name(self, n):
                    if n.id in sub and isinstance(n.ctx, ast.Load):
                        return clone(sub[n.id])
                    return n
            ok = False
            for ip, _ik in ident:
                if all(implied(S().visit(clone(t)), b, p_.conds) for t, b in ip.conds):
                    ok = True
            if not ok:
                bad.append("under [%s] the constructor stores (%s); built again from these it is not known to take the identity path [%s]"
                           % (", ".join("%s is %s" % (norm(t), b) for t, b in p_.conds), ", ".join(norm(x) for x in kk),
                              ", ".join("%s is %s" % (norm(S().visit(clone(t))), b) for t, b in ident[0][0].conds)))
        ck.ob("R5", "%s.__new__:rebuild-fixed-point" % k, not bad, m.where(new),
              "%s: pickle / copy / repr-parse of such an expression return a different expression" % "; ".join(bad[:2]))
