"""C32 - the assembler lays out programs at their pinned addresses (core/asmblock.py).

 R1 partition around the pinned block: in BlockChain.place and fix_blocks the slice iterated "before" and
    the slice iterated "after" the pinned index partition the chain (decided by evaluating the slice
    expressions of the source over every (length, index) with length <= 6 - slice algebra is finite per
    sign case); the backward loop carries its running offset
 R2 asm_resolve_final tests each emitted instruction against the accumulated output interval before adding
    it, and raises on overlap
 R3 pinned chains are tested against the destination interval and rejected when outside
 R4 fall-through contiguity: the forward loop of fix_blocks advances the offset by each block's size
"""
import ast

from sa.astutil import walk_body, walk_local, dotted, norm, callee_attr, const_value
from sa.cfg import CFG, node_calls
from sa.repo import AnalysisError

REL = "miasm/core/asmblock.py"
LEVEL_TEXT = ("Slice-partition rule (the source's own slice expressions are folded over all small length/index pairs), "
              "loop-carried offset rule, check-before-add rule for overlaps, containment test for pinned chains. Decides "
              "these necessary clauses for every program; assembles nothing.")
ASSUMPTIONS = ["CPython ast; Python slice semantics (slice.indices) used to fold the slice expressions", "chains of up to 6 blocks represent every sign case of the slice bounds"]
IDX = "self.pinned_block_idx"


def _slice_indices(sl, n, i):
    """Indices selected by the ast slice expression over a list of length n with pinned index i."""
    env = {}

    def fold(e):
        if e is None:
            return None
        if norm(e) == IDX:
            return i
        if isinstance(e, ast.Constant) and isinstance(e.value, int):
            return e.value
        if isinstance(e, ast.UnaryOp) and isinstance(e.op, ast.USub):
            return -fold(e.operand)
        if isinstance(e, ast.BinOp) and isinstance(e.op, (ast.Add, ast.Sub)):
            a, b = fold(e.left), fold(e.right)
            return a + b if isinstance(e.op, ast.Add) else a - b
        raise AnalysisError("slice bound `%s` not foldable" % norm(e))
    s = slice(fold(sl.lower), fold(sl.upper), fold(sl.step))
    return list(range(*s.indices(n)))


def _iter_sets(loop_iter, n, i):
    """Index sequence iterated by `for x in <expr over self.blocks>`.  For a pairwise walk `zip(S, S[1:])` (previous, current) the
    sequence of the CURRENT element (the last component)."""
    e = loop_iter
    if isinstance(e, ast.Call) and callee_attr(e) == "zip" and len(e.args) >= 2:
        return _iter_sets(e.args[-1], n, i)
    rev = False
    if isinstance(e, ast.Call) and callee_attr(e) == "reversed" and e.args:
        rev = True
        e = e.args[0]
    seq = None
    if isinstance(e, ast.Subscript) and norm(e.value) == "self.blocks" and isinstance(e.slice, ast.Slice):
        seq = _slice_indices(e.slice, n, i)
    elif isinstance(e, ast.Subscript) and isinstance(e.value, ast.Subscript) and norm(e.value.value) == "self.blocks" \
            and isinstance(e.slice, ast.Slice) and isinstance(e.value.slice, ast.Slice):
        inner = _slice_indices(e.value.slice, n, i)
        s2 = e.slice
        ok1, lo = const_value(s2.lower) if s2.lower else (True, None)
        ok2, up = const_value(s2.upper) if s2.upper else (True, None)
        ok3, st = const_value(s2.step) if s2.step else (True, None)
        seq = inner[slice(lo, up, st)]
    elif norm(e) == "self.blocks":
        seq = list(range(n))
    if seq is None:
        return None
    return list(reversed(seq)) if rev else seq


def run(ck):
    m = ck.repo.mod(REL)
    ck.rule("R1", "the loops before/after the pinned block partition the chain; the backward loop carries its offset", floor=1)
    ck.rule("R2", "each emitted instruction is tested against the accumulated output before being added", floor=1)
    ck.rule("R3", "a pinned chain outside the destination interval is rejected", floor=1)
    ck.rule("R4", "the forward placement loop advances by each block's size", floor=1)
    _rework_rules(ck)

    from sa.prenorm import normalise_function
    for q, include_pinned in (("BlockChain.place", True), ("BlockChain.fix_blocks", False)):
        fn = normalise_function(m.func(q))
        from sa.astutil import Resolver as _Rs
        _rs = _Rs(fn)
        # iteration sources over the chain around the pinned index: for statements and comprehension generators alike, temporaries expanded
        srcs = []
        for n in ast.walk(fn):
            its = [n.iter] if isinstance(n, ast.For) else ([g.iter for g in n.generators] if isinstance(n, (ast.ListComp, ast.GeneratorExp, ast.SetComp)) else [])
            for it in its:
                e = _rs.expand_node(it)
                if "self.blocks" in norm(e) and IDX in norm(e):
                    srcs.append((getattr(it, "lineno", 0), getattr(it, "col_offset", 0), e))
        srcs = [e for _l, _c, e in sorted(srcs, key=lambda x: (x[0], x[1]))]
        if len(srcs) != 2:
            raise AnalysisError("%s: expected two iterations over slices around the pinned index, found %d" % (q, len(srcs)))
        bad = None
        for n in range(1, 7):
            for i in range(0, n):
                a = _iter_sets(srcs[0], n, i)
                b = _iter_sets(srcs[1], n, i)
                if a is None or b is None:
                    raise AnalysisError("%s: loop iterable not understood: %s / %s" % (q, norm(srcs[0]), norm(srcs[1])))
                before = list(range(i - 1, -1, -1))
                after = list(range(i if include_pinned else i + 1, n))
                # BlockChain.place only sums sizes over each side: the visiting order is irrelevant there
                if include_pinned:
                    a, before = sorted(a), sorted(before)
                if a != before or b != after:
                    if bad is None:
                        bad = (n, i, a, b, before, after)
        ck.ob("R1", "%s:partition" % q, bad is None, m.where(fn),
              "" if bad is None else "for a chain of %d blocks pinned at index %d the loops visit %s then %s; the blocks before the "
              "pinned one are %s (nearest first) and those after it %s" % bad)
    # fix_blocks: the two placement loops, stated on the sequential state of one iteration (sa/normal.state_after): whatever the
    # temporaries (new_offset / in-place -=), the offset handed to fix_loc_offset for a block B and the running offset left for the
    # next iteration are, as expressions of the running offset v at the start of the iteration:
    #   backward:  placed = (v - B.size) - (v - B.size) % B.alignment          next v = placed
    #   forward :  placed = v + (-v) % L.alignment   (L the previous block)    next v = placed + B.size
    from sa.normal import state_after
    from sa.astutil import Resolver as _Rs2, clone as _clone
    fn = m.func("BlockChain.fix_blocks")
    rs2 = _Rs2(fn)
    loops = [n for n in walk_body(fn) if isinstance(n, ast.For) and "self.blocks" in norm(rs2.expand_node(n.iter)) and IDX in norm(rs2.expand_node(n.iter))]
    ck.need(len(loops) == 2, "BlockChain.fix_blocks: expected a backward and a forward loop around the pinned index, found %d" % len(loops))

    def iteration(lp):
        """(block variable, previous-block variable or None, placed expression text, {name: final expression text})"""
        tgt = lp.target
        prev = None
        if isinstance(tgt, ast.Tuple) and len(tgt.elts) == 2:
            prev, blk = norm(tgt.elts[0]), norm(tgt.elts[1])
        else:
            blk = norm(tgt)
        placed = None
        upto = []
        for st in lp.body:
            call = st.value if isinstance(st, ast.Expr) and isinstance(st.value, ast.Call) and norm(st.value.func) == "fix_loc_offset" else None
            if call is not None and len(call.args) >= 3:
                env = state_after(upto)

                class T(ast.NodeTransformer):
                    def visit_Name(self, n_):
                        return _clone(env[n_.id]) if (isinstance(n_.ctx, ast.Load) and n_.id in env) else n_
                placed = norm(T().visit(_clone(call.args[2]))).replace(" ", "")
            upto.append(st)
        final = dict((k, norm(v).replace(" ", "")) for k, v in state_after(lp.body).items() if isinstance(v, ast.AST))
        return blk, prev, placed, final
    back, fwd = loops[0], loops[1]
    blk, _prev, placed, final = iteration(back)
    vs = [v for v in final if placed is not None and v in placed.replace(blk, "")] if placed else []
    import re as _re2
    mm = _re2.match(r"^\(?(\w+)-%s\.size\)?-\(\1-%s\.size\)%%%s\.alignment$" % (blk, blk, blk), placed or "")
    okp = mm is not None
    v = mm.group(1) if mm else None
    ck.ob("R4", "BlockChain.fix_blocks:backward-step", okp, m.where(back),
          "a block before the pinned one is placed at `%s`; it must be (v - %s.size) rounded down to %s.alignment, v being the running offset"
          % (placed, blk, blk))
    carried = v is not None and final.get(v) == placed
    ck.ob("R1", "BlockChain.fix_blocks:backward-running-offset", carried, m.where(back),
          "after placing a block the running offset `%s` is left at `%s` instead of the block's own offset `%s`: the next block before it "
          "overlaps" % (v, final.get(v) if v else None, placed))
    blk, prev, placed, final = iteration(fwd)
    if prev is None:
        # the previous block kept in a local updated at the end of the iteration (`last_block = block`)
        prevs = [k for k, val in final.items() if val == blk and k != blk]
        prev = prevs[0] if prevs else None
    mm = _re2.match(r"^(\w+)\+-\1%%%s\.alignment$" % _re2.escape(prev or "?"), (placed or "").replace("(-", "-").replace(")%", "%")) if placed else None
    v = mm.group(1) if mm else None
    ck.ob("R4", "BlockChain.fix_blocks:forward-padding", mm is not None, m.where(fwd),
          "a block after the pinned one is placed at `%s`; it must be v + (-v) %% <previous block>.alignment" % placed)
    adv = v is not None and final.get(v, "").replace("(", "").replace(")", "") == ((placed or "") + "+%s.size" % blk).replace("(", "").replace(")", "")
    ck.ob("R4", "BlockChain.fix_blocks:forward-advance", adv, m.where(fwd),
          "the forward loop leaves the running offset at `%s`; it must be the block's offset plus %s.size" % (final.get(v) if v else None, blk))

    # ---------------------------------------------------------------- R6 placement scans one list sorted by address
    ck.rule("R6", "free chains are placed between neighbours of ONE list - pinned chains and forbidden-interval wedges together - sorted by offset_min", floor=1)
    fn = m.func("resolve_symbol")
    cfg6 = CFG(fn)
    # the scanned list: the one indexed with i - 1 / i in the placement loop
    scanned = None
    for n in walk_body(fn):
        if isinstance(n, ast.Subscript) and isinstance(n.value, ast.Name) and isinstance(n.slice, ast.BinOp) and isinstance(n.slice.op, ast.Sub) and norm(n.slice.right) == "1":
            scanned = n.value.id
    ck.need(scanned is not None, "resolve_symbol: the list scanned by the placement loop was not found")
    binds = [nd for nd in cfg6.nodes if nd.kind == "stmt" and isinstance(nd.ast, ast.Assign) and any(isinstance(t, ast.Name) and t.id == scanned for t in nd.ast.targets)]
    ck.need(binds, "resolve_symbol: binding of `%s` not found" % scanned)
    bnd = binds[0]
    v = bnd.ast.value
    while isinstance(v, ast.Call) and isinstance(v.func, ast.Name) and v.func.id in ("list", "tuple") and len(v.args) == 1:
        v = v.args[0]

    def by_offset_min(call):
        return any(k.arg == "key" and "offset_min" in norm(k.value) for k in call.keywords)
    ok6 = False
    why6 = "`%s` is bound to `%s`" % (scanned, norm(bnd.ast.value)[:70])
    if isinstance(v, ast.Call) and isinstance(v.func, ast.Name) and v.func.id == "sorted" and by_offset_min(v):
        src = v.args[0] if v.args else None
        ok6 = src is not None
        base = src
    elif isinstance(v, ast.Name):
        base = v
        sorts = [nd for nd in cfg6.nodes if any(isinstance(c.func, ast.Attribute) and c.func.attr == "sort" and norm(c.func.value) == v.id and by_offset_min(c)
                                                for c in node_calls(nd))]
        if sorts:
            srt = sorts[-1]
            late = [nd for nd in cfg6.nodes if nd is not srt and cfg6.can_reach(srt.id, nd.id) and cfg6.can_reach(nd.id, bnd.id) and (
                any(isinstance(c.func, ast.Attribute) and c.func.attr in ("append", "extend", "insert") and norm(c.func.value) == v.id for c in node_calls(nd)) or
                (nd.kind == "stmt" and isinstance(nd.ast, (ast.AugAssign,)) and norm(nd.ast.target) == v.id) or
                (nd.kind == "stmt" and isinstance(nd.ast, ast.Assign) and any(norm(t) == v.id for t in nd.ast.targets)))]
            ok6 = cfg6.can_reach(srt.id, bnd.id) and not late
            why6 += "; `%s` is sorted by offset_min%s" % (v.id, " but changed afterwards" if late else "")
        else:
            why6 += "; `%s` is never sorted by offset_min" % v.id
    else:
        base = None
    # the sorted list holds the wedges of the forbidden intervals as well as the pinned chains
    wedge_in = False
    if base is not None and isinstance(base, ast.Name):
        for nd in cfg6.nodes:
            for c in node_calls(nd):
                if isinstance(c.func, ast.Attribute) and c.func.attr in ("append", "extend") and norm(c.func.value) == base.id and cfg6.can_reach(nd.id, bnd.id):
                    wedge_in = True
            if nd.kind == "stmt" and isinstance(nd.ast, ast.AugAssign) and norm(nd.ast.target) == base.id and cfg6.can_reach(nd.id, bnd.id):
                wedge_in = True
    elif base is not None:
        wedge_in = "edge" in norm(base).lower()
    ck.ob("R6", "resolve_symbol:one-sorted-list", ok6 and wedge_in, m.where(bnd.ast),
          "%s%s: the placement loop assumes neighbours in the list are neighbours in the address space; with several forbidden intervals a "
          "chain is laid across a hole of the destination" % (why6, "" if wedge_in else "; the wedges are not part of the sorted list"))

    # ---------------------------------------------------------------- R7 in-block offsets
    ck.rule("R7", "assemble_block advances the in-block offset by the length of EVERY line (instructions and raw data alike) on every path", floor=1)
    fn = m.func("assemble_block")
    cfg7 = CFG(fn)
    from sa.pathob import undischarged as _und7, path_text as _pt7
    lps = [nd for nd in cfg7.nodes if nd.kind == "for" and norm(nd.ast.iter).endswith(".lines")]
    ck.need(lps, "assemble_block: loop over the block's lines not found")
    L7 = lps[0]
    line = norm(L7.ast.target)
    cursors = set(norm(n.target) for n in walk_body(fn) if isinstance(n, ast.AugAssign) and isinstance(n.op, ast.Add) and isinstance(n.target, ast.Name))

    def advances(nd):
        a = nd.ast
        if nd.kind != "stmt" or not isinstance(a, ast.AugAssign) or not isinstance(a.op, ast.Add) or norm(a.target) not in cursors:
            return False
        v = norm(a.value).replace(" ", "")
        return v in ("%s.l" % line, "len(%s.data)" % line, "len(%s.b)" % line) or v.startswith("len(")
    p7 = _und7(cfg7, advances, start=(L7.id, "iter"), targets=[L7.id])
    ck.ob("R7", "assemble_block:every-line-advances-the-offset", p7 is None, m.where(L7.ast),
          "a line of the block can be passed without advancing the in-block offset (path: %s): the lines after it get offsets that are too "
          "small, and pc-relative references in them are encoded against the wrong address" % (_pt7(p7) if p7 else ""))

    # ---------------------------------------------------------------- R2
    fn = m.func("asm_resolve_final")
    cfg = CFG(fn)
    unions = [nd for nd in cfg.nodes if nd.kind == "stmt" and isinstance(nd.ast, ast.Assign) and norm(nd.ast.targets[0]) == "output_interval"
              and "union" in norm(nd.ast.value)] + \
             [nd for nd in cfg.nodes if nd.kind == "stmt" and isinstance(nd.ast, ast.AugAssign) and norm(nd.ast.target) == "output_interval"]
    tests = [nd for nd in cfg.nodes if nd.kind == "test" and "output_interval" in norm(nd.ast) and "&" in norm(nd.ast)]
    ok = False
    if unions and tests:
        t = tests[0]
        # raise on the overlapping outcome, test dominates the union
        raising = any(cfg.nodes[s].kind == "stmt" and isinstance(cfg.nodes[s].ast, ast.Raise) for (s, _l) in cfg.succ[t.id])
        ok = raising and all(t.id in cfg.dominators()[u.id] for u in unions if u.id in cfg.dominators())
        # the tested interval is the instruction's [offset, offset + l - 1]
        ok = ok and any(isinstance(n, ast.Assign) and "interval([(offset, offset + instr.l - 1)])" in norm(n.value) for n in walk_body(fn))
    ck.ob("R2", "asm_resolve_final:overlap-check", ok, m.where(fn),
          "an instruction's byte range is added to the output without first being tested against it (overlapping patches would be produced)")

    # ---------------------------------------------------------------- R3
    fn = m.func("get_blockchains_address_interval")
    ok = False
    for n in walk_body(fn):
        if isinstance(n, ast.If) and "not in dst_interval" in norm(n.test) and any(isinstance(s, ast.Raise) for s in n.body):
            ok = True
    ok = ok and any(isinstance(n, ast.Assign) and norm(n.value) == "interval([(chain.offset_min, chain.offset_max - 1)])" for n in walk_body(fn))
    ck.ob("R3", "get_blockchains_address_interval", ok, m.where(fn), "pinned chains are not tested against the destination interval")


def _rework_rules(ck):
    """R5: "every reference resolved to the label's final address" - the fix-point of asmblock_final re-assembles a block whenever
    its own address changes (its relative branches to numeric addresses change encoding) and whenever a label it uses moves.
    For each modified loc_key, on every path of the propagation loop, the block located at that loc_key is enqueued (directly, or
    because every block was registered under its own loc_key on every path of the table-building loop) and so is every block using
    it; the outer loop stops only on an empty worklist and drains the worklist through assemble_block."""
    from sa.pathob import undischarged, path_text
    ck.rule("R5", "asmblock_final re-assembles a block when it moves and when a label it references moves, until nothing is left", floor=2)
    m = ck.repo.mod(REL)
    fn = m.func("asmblock_final")
    cfg = CFG(fn)
    loops = [nd for nd in cfg.nodes if nd.kind == "for"]
    prop = [nd for nd in loops if norm(nd.ast.iter) == "modified_loc_keys"]
    ck.need(prop, "asmblock_final: propagation loop over modified_loc_keys not found")
    L = prop[0]
    key = norm(L.ast.target)

    # (A) direct: blocks_to_rework.add(asmcfg.loc_key_to_block(key)) unless None
    def adds_moved(nd):
        for c in node_calls(nd):
            if callee_attr(c) in ("add", "update") and "rework" in norm(c.func.value) and c.args:
                a = c.args[0]
                t = norm(a)
                if "loc_key_to_block(%s)" % key in t:
                    return True
                if isinstance(a, ast.Name):
                    for n in walk_body(fn):
                        if isinstance(n, ast.Assign) and norm(n.targets[0]) == a.id and "loc_key_to_block(%s)" % key in norm(n.value):
                            return True
        return False

    def none_edge(nd, label):
        if nd.kind != "test":
            return False
        t = norm(nd.ast)
        return (t.endswith("is not None") and label is False) or (t.endswith("is None") and label is True)
    pA = undischarged(cfg, adds_moved, edge_ok=none_edge, start=(L.id, "iter"), targets=[L.id])
    # (B) through the table: every block registered under its own loc_key on every path of the building loop
    tabB = False
    build = [nd for nd in loops if norm(nd.ast.iter) in ("asmcfg.blocks", "asmcfg.blocks()")]
    for bl in build:
        b = norm(bl.ast.target)

        def registers_self(nd, b=b):
            for c in node_calls(nd):
                if callee_attr(c) == "add" and c.args and norm(c.args[0]) == "%s.loc_key" % b:
                    return True
                if callee_attr(c) == "setdefault" and c.args and norm(c.args[0]) == "%s.loc_key" % b:
                    return True
            return False
        if any(registers_self(nd) for nd in cfg.nodes):
            tabB = undischarged(cfg, registers_self, start=(bl.id, "iter"), targets=[bl.id]) is None
    ck.ob("R5", "asmblock_final:moved-block-reassembled", pA is None or tabB, m.where(L.ast),
          "a block whose own address changed is not re-enqueued on every path (%s): a block that references no label keeps the "
          "encoding of its relative branches computed for its previous address" % (path_text(pA) if pA else ""))

    # users of the label
    def adds_users(nd):
        if nd.kind == "for" and "blocks_using_loc_key" in norm(nd.ast.iter):
            return any(callee_attr(c) == "add" and "rework" in norm(c.func.value) for st in nd.ast.body for c in walk_local(st) if isinstance(c, ast.Call))
        for c in node_calls(nd):
            if callee_attr(c) == "update" and "rework" in norm(c.func.value) and c.args and "blocks_using_loc_key" in norm(c.args[0]):
                return True
        return False

    def absent_edge(nd, label):
        if nd.kind != "test":
            return False
        t = norm(nd.ast)
        return ("%s not in blocks_using_loc_key" % key == t and label is True) or ("%s in blocks_using_loc_key" % key == t and label is False)
    pU = undischarged(cfg, adds_users, edge_ok=absent_edge, start=(L.id, "iter"), targets=[L.id])
    ck.ob("R5", "asmblock_final:users-reassembled", pU is None, m.where(L.ast),
          "the blocks referencing a moved label are not all re-enqueued: %s" % (path_text(pU) if pU else ""))
    # every block is analysed for the labels it uses (no block skipped when building the table)
    for bl in build:
        uses = [nd for nd in cfg.nodes if any(callee_attr(c) == "setdefault" and "blocks_using_loc_key" in norm(c.func.value) for c in node_calls(nd))]
        ck.ob("R5", "asmblock_final:table-covers-every-block", bool(uses), m.where(bl.ast), "the label-use table is not filled from every block")
    # termination test and drain
    drains = any(isinstance(n, ast.Call) and dotted(n.func) == "assemble_block" and len(n.args) >= 2 for n in walk_body(fn))
    brk = [nd for nd in cfg.nodes if nd.kind == "stmt" and isinstance(nd.ast, ast.Break)]
    from sa.facts import guard_facts, falsy
    gf = guard_facts(cfg)
    ok_brk = bool(brk) and all(falsy(gf.get(b.id, frozenset()), "blocks_to_rework") for b in brk)
    ck.ob("R5", "asmblock_final:stops-only-when-idle", drains and ok_brk, m.where(fn),
          "the fix-point loop can stop while blocks are still queued, or queued blocks are not assembled")
