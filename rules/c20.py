"""C20 - all jitter back ends produce the same execution (structural clauses).

 R1 constant agreement: every EXCEPT_*/PAGE_*/BREAKPOINT_* name defined both in jitter/csts.py and in
    vm_mngr.h has the same value
 R2 phase order: the three back ends follow the same evaluate/test/commit order (shared with C49-R1)
 R3 no host exception on a guest fault: a failing VmMngr.get_mem/set_mem (the C entry can raise) reached
    from the Python back end's memory primitives must be caught and turned into the VM fault flag
 R4 permission check on every back end's guest access path
 R5 dispatcher siblings: gcc_exec_block and llvm_exec_block perform the same sequence of abstract events
"""
import ast
import re

from sa import cast
from sa.astutil import walk_body, walk_local, dotted, norm, callee_attr
from sa.csts import py_constants, c_constants
from sa.repo import AnalysisError

LEVEL_TEXT = ("Sibling-agreement rules over the three back ends: constants by value (clang macro table vs csts.py), "
              "phase order (C49-R1 machinery), exception containment and permission tests on the call paths from each "
              "back end's memory primitive to the page bytes (Python call chain + clang call graph), abstract event "
              "sequences of the two C dispatch loops. Equality of final states is not decided.")
LEVEL_TEXT += ' Also: LLVM operator translation decided on the builder term extracted by partial evaluation of add_ir; Python back end byte order shared with C12.'
ASSUMPTIONS = ["CPython ast; clang 14 AST", "Python method -> C function mapping read from the PyMethodDef table of vm_mngr_py.c"]
ES = "miasm/jitter/emulatedsymbexec.py"
VMPY = "miasm/jitter/vm_mngr_py.c"
VMC = "miasm/jitter/vm_mngr.c"


def _closure(tus, roots):
    funcs = {}
    for tu in tus:
        funcs.update(tu.funcs)
    seen = set()
    stack = list(roots)
    while stack:
        f = stack.pop()
        if f in seen or f not in funcs:
            continue
        seen.add(f)
        for cn, _c in funcs[f].calls():
            stack.append(cn)
    return seen, funcs


def _tests_perm(f, bit):
    for n in cast.walk(f.body):
        if n.get("kind") == "BinaryOperator" and n.get("opcode") == "&":
            x, y = cast.strip(n["inner"][0]), cast.strip(n["inner"][1])
            for m, c in ((x, y), (y, x)):
                if m.get("kind") == "MemberExpr" and m.get("name") == "access" and cast.const_int(c) == bit:
                    base = cast.strip(m["inner"][0])
                    if "memory_page_node" in base.get("type", {}).get("qualType", ""):
                        return True
    return False


PRELOAD_C = ['miasm/jitter/vm_mngr_py.c', 'miasm/jitter/vm_mngr.c', 'miasm/jitter/Jitgcc.c', 'miasm/jitter/Jitllvm.c']


def _access_record_rules(ck):
    """R9: the Python back end records a guest access exactly as the C primitives do: the byte range that was read.
    (a) unit: every length handed to a VmMngr range primitive is a byte count (an Expr width must have been divided by 8)
    (b) pairing: the range recorded with add_mem_read is the range fetched with get_mem in the same hook
    (c) the C primitives MEM_LOOKUP_nn / MEM_WRITE_nn record nn/8 bytes (checked under C22-R2; re-stated here as the sibling)"""
    import ast as _ast
    from sa.astutil import walk_body as _wb, dotted as _d, norm as _n, Resolver as _R
    from sa.units import unit as _unit
    ck.rule("R9", "guest accesses are recorded in bytes, over the range actually accessed, on the Python back end as in C", floor=3)
    SINKS = {"get_mem": 1, "add_mem_read": 1, "add_mem_write": 1, "is_mapped": 1, "add_memory_breakpoint": 1}
    files = ["miasm/jitter/emulatedsymbexec.py", "miasm/jitter/jitcore_python.py", "miasm/jitter/jitload.py", "miasm/jitter/jitcore.py"]
    for rel in files:
        m = ck.repo.mod(rel)
        for q, fn in sorted(m.funcs.items()):
            res = None
            calls = [c for c in _wb(fn) if isinstance(c, _ast.Call) and isinstance(c.func, _ast.Attribute) and c.func.attr in SINKS
                     and (_d(c.func.value) or "").split(".")[-1] == "vm" and len(c.args) > SINKS[c.func.attr]]
            for c in calls:
                if res is None:
                    res = _R(fn)
                a = c.args[SINKS[c.func.attr]]
                u = _unit(a, res)
                ck.ob("R9", "%s:%s(%s):bytes" % (q, c.func.attr, _n(a)[:30]), u != "bit", m.where(c),
                      "`%s` passes `%s`, a width in bits, where the memory manager expects a byte count: the recorded / fetched range is "
                      "8 times too long (a read breakpoint next to the accessed bytes fires on this back end only)" % (_n(c)[:60], _n(res.expand_node(a))[:40]))
            recs = [c for c in calls if c.func.attr == "add_mem_read"]
            gets = [c for c in calls if c.func.attr == "get_mem"]
            for rc in recs:
                same = any(_n(res.expand_node(g.args[0])) == _n(res.expand_node(rc.args[0])) and _n(res.expand_node(g.args[1])) == _n(res.expand_node(rc.args[1])) for g in gets)
                ck.ob("R9", "%s:add_mem_read-matches-get_mem" % q, bool(gets) and same, m.where(rc),
                      "the read recorded by `%s` is not the range fetched by %s" % (_n(rc)[:60], [_n(g)[:50] for g in gets]))
    m = ck.repo.mod("miasm/jitter/emulatedsymbexec.py")
    mr = m.func("EmulatedSymbExec.mem_read")
    ok = any(isinstance(c, _ast.Call) and _d(c.func) == "self.vm.add_mem_read" for c in _wb(mr))
    ck.ob("R9", "EmulatedSymbExec.mem_read:records-the-read", ok, m.where(mr), "a concrete read on the Python back end is not recorded for memory breakpoints")


def _inblock_jump_rules(ck):
    """R12: a destination with a known offset continues INSIDE the translated unit (C `goto`, LLVM branch to the basic block, Python
    `continue` on the next IR block) only when it lies strictly after the current instruction; a jump to the instruction itself or
    backwards returns to the dispatcher (breakpoints, per-call instruction limit).  The three back ends must use the same predicate:
    must-fact `<cur>.offset < offset` at every stay-inside action not taken for an offset-less generated label."""
    from sa.cfg import CFG
    from sa.facts import guard_facts, has_cmp
    from sa.astutil import Resolver
    sites = 0

    def strict(f, res):
        for x in f:
            if x[0] == "cmp" and len(x) == 4:
                _c, a, op, b = x
                if op == "<" and a.endswith("instr.offset") and b == "offset":
                    return True
                if op == ">" and b.endswith("instr.offset") and a == "offset":
                    return True
                # membership in the tail of the (ascending) offsets list that starts AFTER the current instruction
                if op == "in" and a == "offset" and b.startswith("instr_offsets["):
                    try:
                        e = ast.parse(b, mode="eval").body
                    except SyntaxError:
                        continue
                    if isinstance(e, ast.Subscript) and isinstance(e.slice, ast.Slice) and e.slice.upper is None and e.slice.lower is not None:
                        lo = res.expand(e.slice.lower)
                        import re as _re
                        mm = _re.match(r"^instr_offsets\.index\((\w+\.)*instr\.offset\) \+ (\d+)$", lo)
                        if mm and int(mm.group(2)) >= 1:
                            return True
        return False

    def generated_label(f):
        return has_cmp(f, "offset", "is", "None")

    def actions(rel, q, pred):
        nonlocal sites
        m = ck.repo.mod(rel)
        fn = m.func(q)
        cfg = CFG(fn)
        F = guard_facts(cfg)
        res = Resolver(fn)
        n = 0
        for nd in cfg.nodes:
            if nd.kind != "stmt" or nd.ast is None or not pred(nd.ast):
                continue
            f = F.get(nd.id, frozenset())
            if generated_label(f):
                continue
            n += 1
            sites += 1
            ck.ob("R12", "%s:stay-inside-only-forward" % q, strict(f, res), m.where(nd.ast),
                  "%s continues inside the translated block for a destination that is not known to lie strictly after the current "
                  "instruction: a jump of an instruction to itself (or backwards) no longer returns to the dispatcher on this back end, "
                  "while the others still do - breakpoint hits and the per-call limit differ" % q)
        ck.need(n >= 1, "%s: no in-block jump action found" % q)

    def is_goto(st):
        return any(isinstance(x, ast.Constant) and isinstance(x.value, str) and x.value.lstrip().startswith("goto ") for x in ast.walk(st))

    def is_branch(st):
        return any(isinstance(x, ast.Call) and (dotted(x.func) or "").endswith("builder.branch") for x in ast.walk(st)) and not isinstance(st, (ast.If, ast.For, ast.While))

    def is_next_irblock(st):
        if not isinstance(st, ast.Continue):
            return False
        par = getattr(st, "_parent", None)
        body = None
        for fld in ("body", "orelse"):
            b = getattr(par, fld, None)
            if isinstance(b, list) and st in b:
                body = b
        return bool(body) and any(isinstance(x, ast.Assign) and norm(x.targets[0]) == "cur_loc_key" for x in body[:body.index(st)])
    actions("miasm/jitter/codegen.py", "CGen.gen_goto_code", is_goto)
    actions("miasm/jitter/llvmconvert.py", "LLVMFunction.gen_jump2dst", is_branch)
    actions("miasm/jitter/jitcore_python.py", "JitCore_Python.add_block.myfunc", is_next_irblock)
    ck.need(sites >= 3, "fewer than 3 in-block jump actions over the three back ends (%d)" % sites)


def run(ck):
    ck.rule("R1", "shared constant names have equal values in csts.py and vm_mngr.h", floor=8)
    ck.rule("R2", "same phase order in the three back ends", floor=3)
    ck.rule("R3", "a failing host memory call on the Python back end's guest access path is caught and reported as a VM fault", floor=1)
    ck.rule("R4", "each back end's guest access path tests the page permission", floor=5)
    ck.rule("R5", "the two C dispatch loops perform the same abstract event sequence", floor=1)
    ck.rule("R6", "each operator handled by the LLVM back end reaches the LLVM instruction of its reference meaning", floor=20)
    ck.rule("R8", "the stop set only the C dispatch loops consult is current: a stale one makes them chain through an address where the Python back end stops (rules shared with C23-R3)", floor=1)
    from rules.c23 import stop_set_rules
    stop_set_rules(ck, "R8")
    ck.rule("R10", "the Python back end's bridge to the VM lays values out as the C primitives do: big endian at the access width, reversed last for little-endian VMs (rules shared with C12-R7)", floor=4)
    from rules.c12 import emulated_byte_order_rules
    emulated_byte_order_rules(ck, "R10")
    ck.rule("R11", "the instruction-wide attributes (memory read / write / exception summary) are computed from ALL the IR blocks of the instruction on every back end", floor=2)
    # get_attributes(instr, irblocks, ...) ORs the per-block characteristics into the instruction's summary, which decides the
    # post-instruction memory stage (breakpoints, self-modifying code, access-log reset): a back end that hands over a sublist
    # (the block about to run) skips that stage for multi-block instructions whose last block touches no memory
    n11 = 0
    for rel11 in ("miasm/jitter/jitcore_python.py", "miasm/jitter/codegen.py", "miasm/jitter/llvmconvert.py"):
        m11 = ck.repo.mod(rel11)
        for q11, f11 in sorted(m11.funcs.items()):
            for c11 in [x for x in walk_body(f11) if isinstance(x, ast.Call) and callee_attr(x) == "get_attributes" and len(x.args) >= 2]:
                a11 = c11.args[1]
                n11 += 1
                whole = isinstance(a11, ast.Name)
                if whole:
                    # the name is bound per instruction: a parameter, or the element zipped / iterated with the block's lines
                    from sa.astutil import Resolver as _R11
                    d11 = _R11(f11).unique_def(a11.id)
                    if d11 is not None and isinstance(d11, (ast.List, ast.Tuple, ast.Subscript, ast.ListComp)):
                        whole = False
                ck.ob("R11", "%s:get_attributes:all-irblocks" % q11, whole, m11.where(c11),
                      "the instruction's attributes are computed from `%s`, not from the whole list of its IR blocks" % norm(a11)[:60])
    ck.ob("R11", "get_attributes-callers-seen", n11 >= 2, "miasm/jitter", "fewer callers of get_attributes than on the pinned tree (%d)" % n11)
    ck.rule("R12", "a jump stays inside the translated block only to a strictly later instruction, on the three back ends alike", floor=3)
    _inblock_jump_rules(ck)
    ck.rule("R7", "contradiction lints: a key tested in one table indexes that table; binary calls use distinct operands", floor=2)
    _access_record_rules(ck)

    # ---------------------------------------------------------------- R1
    pc = py_constants(ck.repo)
    cc = c_constants(ck.repo)
    shared = sorted(k for k in pc if k in cc and k.startswith(("EXCEPT_", "PAGE_", "BREAKPOINT_")))
    for k in shared:
        ck.ob("R1", k, pc[k] == cc[k], "miasm/jitter/csts.py", "%s is %#x in csts.py and %#x in vm_mngr.h" % (k, pc[k], cc[k]))

    # ---------------------------------------------------------------- R2 (re-uses the C49 rule module)
    from rules import c49
    sub = type(ck)("C49", ck.repo, ck.tier)
    c49.run(sub)
    for o in sub.obligations:
        if o["rule"] == "R1" and ("phase-order" in o["construct"] or "phases-present" in o["construct"]):
            ck.ob("R2", o["construct"], o["ok"], o["where"], o["detail"])

    # ---------------------------------------------------------------- R3 / R4 Python path
    tp = cast.load(ck.repo, VMPY)
    tv = cast.load(ck.repo, VMC)
    table = dict(re.findall(r'\{\s*"(\w+)"\s*,\s*\(PyCFunction\)\s*(\w+)', tp.src))
    es = ck.repo.mod(ES)
    PR, PW = tv.macro_int("PAGE_READ"), tv.macro_int("PAGE_WRITE")
    for meth, pyname, bit, what in (("mem_read", "get_mem", PR, "load"), ("mem_write", "set_mem", PW, "store")):
        fn = es.func("EmulatedSymbExec.%s" % meth)
        calls = [c for c in walk_body(fn) if isinstance(c, ast.Call) and dotted(c.func) == "self.vm.%s" % pyname]
        ck.need(calls, "EmulatedSymbExec.%s no longer calls self.vm.%s" % (meth, pyname))
        cname = table.get(pyname)
        ck.need(cname in tp.funcs, "C entry for VmMngr.%s not found in the method table" % pyname)
        cf = tp.funcs[cname]
        can_raise = bool(cast.failure_returns(cf))
        caught = False
        for c in calls:
            p = getattr(c, "_parent", None)
            while p is not None and p is not fn:
                if isinstance(p, ast.Try) and p.handlers:
                    caught = True
                p = getattr(p, "_parent", None)
        # or in the block function around eval_updt_assignblk
        jp = ck.repo.mod("miasm/jitter/jitcore_python.py")
        mf = jp.func("JitCore_Python.add_block.myfunc")
        for c in [x for x in walk_body(mf) if isinstance(x, ast.Call) and dotted(x.func) == "exec_engine.eval_updt_assignblk"]:
            p = getattr(c, "_parent", None)
            while p is not None and p is not mf:
                if isinstance(p, ast.Try) and p.handlers:
                    caught = True
                p = getattr(p, "_parent", None)
        ck.ob("R3", "EmulatedSymbExec.%s:vm.%s" % (meth, pyname), (not can_raise) or caught, es.where(fn),
              "VmMngr.%s (%s) raises a Python exception on an unmapped address and nothing between the Python back end's "
              "block function and this call catches it: an unmapped %s raises out of the Python jitter while the C and LLVM "
              "back ends stop with EXCEPT_ACCESS_VIOL" % (pyname, cname, what))
        clo, funcs = _closure([tp, tv], [cname])
        ok = any(_tests_perm(funcs[f], bit) for f in clo)
        ck.ob("R4", "python:%s->%s" % (meth, cname), ok, VMPY,
              "the Python back end's %s goes through %s, whose call closure (%s) never tests the page's %s permission: "
              "a %s to a page without it succeeds under the Python jitter and faults under gcc/llvm"
              % (what, cname, ", ".join(sorted(clo & set(funcs))[:6]), "PAGE_READ" if bit == PR else "PAGE_WRITE", what))
    # C / LLVM primitives
    for prefix, bit in (("vm_MEM_LOOKUP_", PR), ("vm_MEM_WRITE_", PW)):
        for name in sorted(n for n in tv.funcs if re.match(prefix + r"\d+$", n)):
            clo, funcs = _closure([tv], [name])
            ok = any(_tests_perm(funcs[f], bit) for f in clo)
            ck.ob("R4", "c:%s" % name, ok, VMC, "%s reaches page memory without a permission test" % name)

    _llvm_rules(ck)

    # ---------------------------------------------------------------- R5
    seqs = {}
    for rel, fname in (("miasm/jitter/Jitgcc.c", "gcc_exec_block"), ("miasm/jitter/Jitllvm.c", "llvm_exec_block")):
        tu = cast.load(ck.repo, rel)
        f = tu.func(fname)
        loops = [n for n in cast.walk(f.body) if n.get("kind") in ("ForStmt", "WhileStmt")]
        ck.need(loops, "%s: dispatch loop not found" % fname)
        body = loops[0]["inner"][-1]
        ev = []
        for st in body.get("inner", []):
            ev.extend(_classify(st))
        seqs[fname] = ev
    want = ["ret_if_counter_zero", "count", "lookup", "ret_if_miss", "call", "decref", "new_retaddr", "ret_if_status", "ret_if_stop"]
    for fname, ev in seqs.items():
        core = [e for e in ev if e in want]
        ck.ob("R5", fname, core == want, fname, "event sequence %s, expected %s" % (core, want))


def _classify(st):
    k = st.get("kind")
    names = cast.text_names(st)
    calls = [cast.callee(c) for c in cast.walk(st) if c.get("kind") == "CallExpr"]
    has_ret = any(x.get("kind") == "ReturnStmt" for x in cast.walk(st))
    if k == "IfStmt":
        cond = st["inner"][0]
        cn = cast.text_names(cond)
        ccalls = [cast.callee(c) for c in cast.walk(cond) if c.get("kind") == "CallExpr"]
        if "cpt" in cn and has_ret:
            return ["ret_if_counter_zero"]
        if "do_cpt" in cn:
            return ["count"]
        if "func_py" in cn and has_ret:
            return ["ret_if_miss"]
        if "status" in cn and has_ret:
            return ["ret_if_status"]
        if any(c and "Contains" in c for c in ccalls) and "stop_offsets" in cn and has_ret:
            return ["ret_if_stop"]
        return ["if?"]
    if k == "BinaryOperator" and st.get("opcode") == "=":
        lhs = cast.ctext(st["inner"][0])
        if "PyDict_GetItem" in calls:
            return ["lookup"]
        if lhs in ("status", "ret") and None in calls or (lhs in ("status", "ret") and "func" in names):
            return ["call"]
        if lhs == "retaddr":
            return ["new_retaddr"]
        return []
    if k == "CallExpr":
        if "Py_DECREF" in calls or "_Py_DECREF" in calls:
            return ["decref"]
    return []


def _llvm_rules(ck):
    """R6 operator table over LLVMFunction.add_ir, R7 the two contradiction lints over all of miasm/jitter."""
    from sa.optable import OT0, LLVM
    from sa.dispatch import tok_consts
    from sa.cfg import CFG
    LL = "miasm/jitter/llvmconvert.py"
    m = ck.repo.mod(LL)
    fn = m.func("LLVMFunction.add_ir")
    from rules._composites import llvm_operator_rules
    llvm_operator_rules(ck, "R6", m.where(fn))

    # ---------------------------------------------------------------- R7 (a) key tested in D1 indexes D2
    n_a = n_b = 0
    for rel in [r for r in ck.repo.pyfiles("miasm/jitter") if r.endswith(".py")]:
        mm = ck.repo.mod(rel)
        for q, f in mm.funcs.items():
            for n in walk_body(f):
                if isinstance(n, ast.If):
                    t = n.test
                    if isinstance(t, ast.Compare) and len(t.ops) == 1 and isinstance(t.ops[0], ast.In) and isinstance(t.left, ast.Name):
                        d1 = dotted(t.comparators[0])
                        if d1 and d1.startswith("self.") and d1.split(".")[-1].startswith("op_translate"):
                            for x in walk_local(ast.Module(body=n.body, type_ignores=[])):
                                if isinstance(x, ast.Subscript) and norm(x.slice) == t.left.id and dotted(x.value) and \
                                        dotted(x.value).split(".")[-1].startswith("op_translate"):
                                    n_a += 1
                                    ck.ob("R7", "%s:%s[%s]" % (q, d1, t.left.id), dotted(x.value) == d1, mm.where(x),
                                          "under `%s in %s` the code indexes %s[%s]: the key is only known to be in the former table (KeyError)"
                                          % (t.left.id, d1, dotted(x.value), t.left.id))
            # (b) two operands of one binary runtime call built from the same sub-expression
            for n in walk_body(f):
                if isinstance(n, ast.Assign) and isinstance(n.targets[0], ast.Name) and n.targets[0].id in ("arg2", "arg_b", "right"):
                    prev = [x for x in walk_body(f) if isinstance(x, ast.Assign) and isinstance(x.targets[0], ast.Name)
                            and x.targets[0].id in ("arg1", "arg_a", "left") and x.lineno < n.lineno and n.lineno - x.lineno <= 2]
                    if prev:
                        n_b += 1
                        ck.ob("R7", "%s:%s/%s" % (q, prev[-1].targets[0].id, n.targets[0].id), norm(prev[-1].value) != norm(n.value), mm.where(n),
                              "both operands are built from `%s`: the operation is applied to a value and itself" % norm(n.value))
    ck.need(n_a >= 1 and n_b >= 2, "contradiction lints matched nothing (a=%d, b=%d)" % (n_a, n_b))
