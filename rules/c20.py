"""C20 - all jitter back ends produce the same execution (structural clauses).

 R1 constant agreement: every EXCEPT_*/PAGE_*/BREAKPOINT_* name defined both in jitter/csts.py and in
    vm_mngr.h has the same value
 R2 phase order: the three back ends follow the same evaluate/test/commit order (shared with C49-R1)
 R3 no host exception on a guest fault: a failing VmMngr.get_mem/set_mem (the C entry can raise) reached
    from the Python back end's memory primitives must be caught and turned into the VM fault flag
 R4 permission check on every back end's guest access path
 R5 dispatcher siblings: gcc_exec_block and llvm_exec_block perform the same sequence of abstract events
"""
import ast
import re

from sa import cast
from sa.astutil import walk_body, walk_local, dotted, norm, callee_attr
from sa.csts import py_constants, c_constants
from sa.repo import AnalysisError

LEVEL_TEXT = ("Sibling-agreement rules over the three back ends: constants by value (clang macro table vs csts.py), "
              "phase order (C49-R1 machinery), exception containment and permission tests on the call paths from each "
              "back end's memory primitive to the page bytes (Python call chain + clang call graph), abstract event "
              "sequences of the two C dispatch loops. Equality of final states is not decided.")
ASSUMPTIONS = ["CPython ast; clang 14 AST", "Python method -> C function mapping read from the PyMethodDef table of vm_mngr_py.c"]
ES = "miasm/jitter/emulatedsymbexec.py"
VMPY = "miasm/jitter/vm_mngr_py.c"
VMC = "miasm/jitter/vm_mngr.c"


def _closure(tus, roots):
    funcs = {}
    for tu in tus:
        funcs.update(tu.funcs)
    seen = set()
    stack = list(roots)
    while stack:
        f = stack.pop()
        if f in seen or f not in funcs:
            continue
        seen.add(f)
        for cn, _c in funcs[f].calls():
            stack.append(cn)
    return seen, funcs


def _tests_perm(f, bit):
    for n in cast.walk(f.body):
        if n.get("kind") == "BinaryOperator" and n.get("opcode") == "&":
            x, y = cast.strip(n["inner"][0]), cast.strip(n["inner"][1])
            for m, c in ((x, y), (y, x)):
                if m.get("kind") == "MemberExpr" and m.get("name") == "access" and cast.const_int(c) == bit:
                    base = cast.strip(m["inner"][0])
                    if "memory_page_node" in base.get("type", {}).get("qualType", ""):
                        return True
    return False


PRELOAD_C = ['miasm/jitter/vm_mngr_py.c', 'miasm/jitter/vm_mngr.c', 'miasm/jitter/Jitgcc.c', 'miasm/jitter/Jitllvm.c']


def run(ck):
    ck.rule("R1", "shared constant names have equal values in csts.py and vm_mngr.h", floor=12)
    ck.rule("R2", "same phase order in the three back ends", floor=3)
    ck.rule("R3", "a failing host memory call on the Python back end's guest access path is caught and reported as a VM fault", floor=2)
    ck.rule("R4", "each back end's guest access path tests the page permission", floor=6)
    ck.rule("R5", "the two C dispatch loops perform the same abstract event sequence", floor=2)

    # ---------------------------------------------------------------- R1
    pc = py_constants(ck.repo)
    cc = c_constants(ck.repo)
    shared = sorted(k for k in pc if k in cc and k.startswith(("EXCEPT_", "PAGE_", "BREAKPOINT_")))
    for k in shared:
        ck.ob("R1", k, pc[k] == cc[k], "miasm/jitter/csts.py", "%s is %#x in csts.py and %#x in vm_mngr.h" % (k, pc[k], cc[k]))

    # ---------------------------------------------------------------- R2 (re-uses the C49 rule module)
    from rules import c49
    sub = type(ck)("C49", ck.repo, ck.tier)
    c49.run(sub)
    for o in sub.obligations:
        if o["rule"] == "R1" and ("phase-order" in o["construct"] or "phases-present" in o["construct"]):
            ck.ob("R2", o["construct"], o["ok"], o["where"], o["detail"])

    # ---------------------------------------------------------------- R3 / R4 Python path
    tp = cast.load(ck.repo, VMPY)
    tv = cast.load(ck.repo, VMC)
    table = dict(re.findall(r'\{\s*"(\w+)"\s*,\s*\(PyCFunction\)\s*(\w+)', tp.src))
    es = ck.repo.mod(ES)
    PR, PW = tv.macro_int("PAGE_READ"), tv.macro_int("PAGE_WRITE")
    for meth, pyname, bit, what in (("mem_read", "get_mem", PR, "load"), ("mem_write", "set_mem", PW, "store")):
        fn = es.func("EmulatedSymbExec.%s" % meth)
        calls = [c for c in walk_body(fn) if isinstance(c, ast.Call) and dotted(c.func) == "self.vm.%s" % pyname]
        ck.need(calls, "EmulatedSymbExec.%s no longer calls self.vm.%s" % (meth, pyname))
        cname = table.get(pyname)
        ck.need(cname in tp.funcs, "C entry for VmMngr.%s not found in the method table" % pyname)
        cf = tp.funcs[cname]
        can_raise = bool(cast.failure_returns(cf))
        caught = False
        for c in calls:
            p = getattr(c, "_parent", None)
            while p is not None and p is not fn:
                if isinstance(p, ast.Try) and p.handlers:
                    caught = True
                p = getattr(p, "_parent", None)
        # or in the block function around eval_updt_assignblk
        jp = ck.repo.mod("miasm/jitter/jitcore_python.py")
        mf = jp.func("JitCore_Python.add_block.myfunc")
        for c in [x for x in walk_body(mf) if isinstance(x, ast.Call) and dotted(x.func) == "exec_engine.eval_updt_assignblk"]:
            p = getattr(c, "_parent", None)
            while p is not None and p is not mf:
                if isinstance(p, ast.Try) and p.handlers:
                    caught = True
                p = getattr(p, "_parent", None)
        ck.ob("R3", "EmulatedSymbExec.%s:vm.%s" % (meth, pyname), (not can_raise) or caught, es.where(fn),
              "VmMngr.%s (%s) raises a Python exception on an unmapped address and nothing between the Python back end's "
              "block function and this call catches it: an unmapped %s raises out of the Python jitter while the C and LLVM "
              "back ends stop with EXCEPT_ACCESS_VIOL" % (pyname, cname, what))
        clo, funcs = _closure([tp, tv], [cname])
        ok = any(_tests_perm(funcs[f], bit) for f in clo)
        ck.ob("R4", "python:%s->%s" % (meth, cname), ok, VMPY,
              "the Python back end's %s goes through %s, whose call closure (%s) never tests the page's %s permission: "
              "a %s to a page without it succeeds under the Python jitter and faults under gcc/llvm"
              % (what, cname, ", ".join(sorted(clo & set(funcs))[:6]), "PAGE_READ" if bit == PR else "PAGE_WRITE", what))
    # C / LLVM primitives
    for prefix, bit in (("vm_MEM_LOOKUP_", PR), ("vm_MEM_WRITE_", PW)):
        for name in sorted(n for n in tv.funcs if re.match(prefix + r"\d+$", n)):
            clo, funcs = _closure([tv], [name])
            ok = any(_tests_perm(funcs[f], bit) for f in clo)
            ck.ob("R4", "c:%s" % name, ok, VMC, "%s reaches page memory without a permission test" % name)

    # ---------------------------------------------------------------- R5
    seqs = {}
    for rel, fname in (("miasm/jitter/Jitgcc.c", "gcc_exec_block"), ("miasm/jitter/Jitllvm.c", "llvm_exec_block")):
        tu = cast.load(ck.repo, rel)
        f = tu.func(fname)
        loops = [n for n in cast.walk(f.body) if n.get("kind") in ("ForStmt", "WhileStmt")]
        ck.need(loops, "%s: dispatch loop not found" % fname)
        body = loops[0]["inner"][-1]
        ev = []
        for st in body.get("inner", []):
            ev.extend(_classify(st))
        seqs[fname] = ev
    want = ["ret_if_counter_zero", "count", "lookup", "ret_if_miss", "call", "decref", "new_retaddr", "ret_if_status", "ret_if_stop"]
    for fname, ev in seqs.items():
        core = [e for e in ev if e in want]
        ck.ob("R5", fname, core == want, fname, "event sequence %s, expected %s" % (core, want))


def _classify(st):
    k = st.get("kind")
    names = cast.text_names(st)
    calls = [cast.callee(c) for c in cast.walk(st) if c.get("kind") == "CallExpr"]
    has_ret = any(x.get("kind") == "ReturnStmt" for x in cast.walk(st))
    if k == "IfStmt":
        cond = st["inner"][0]
        cn = cast.text_names(cond)
        ccalls = [cast.callee(c) for c in cast.walk(cond) if c.get("kind") == "CallExpr"]
        if "cpt" in cn and has_ret:
            return ["ret_if_counter_zero"]
        if "do_cpt" in cn:
            return ["count"]
        if "func_py" in cn and has_ret:
            return ["ret_if_miss"]
        if "status" in cn and has_ret:
            return ["ret_if_status"]
        if any(c and "Contains" in c for c in ccalls) and "stop_offsets" in cn and has_ret:
            return ["ret_if_stop"]
        return ["if?"]
    if k == "BinaryOperator" and st.get("opcode") == "=":
        lhs = cast.ctext(st["inner"][0])
        if "PyDict_GetItem" in calls:
            return ["lookup"]
        if lhs in ("status", "ret") and None in calls or (lhs in ("status", "ret") and "func" in names):
            return ["call"]
        if lhs == "retaddr":
            return ["new_retaddr"]
        return []
    if k == "CallExpr":
        if "Py_DECREF" in calls or "_Py_DECREF" in calls:
            return ["decref"]
    return []
