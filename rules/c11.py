"""C11 - expression pattern matching reports only genuine matches (expression.py: match_expr, test_set).

Structural clauses decided:
 R1 per node kind, the branch of match_expr (a) requires the pattern to be of the same kind,
    (b) compares every identity field that is not matched recursively (operator, arity, width,
    slice bounds), (c) recurses into every child field, (d) never ignores a failed sub-match
 R2 a joker already bound to a different expression is refused before it is (re)bound
 R3 the permutation loop of commutative operators works on a copy of the bindings, passes that
    copy to the sub-matches and commits it only on success
 R4 permutations are tried only for commutative operators, and the commutative operator list
    contains only commutative operators
 R5 leaves (int, id, loc) and non-joker patterns are compared by equality
"""
import ast

from sa.astutil import walk_body, walk_local, dotted, norm, callee_attr, str_elts, cmp_parts
from sa.cfg import CFG, node_exprs, node_calls
from sa.exprmodel import ExprModel, IS_PRED

REL = "miasm/expression/expression.py"
LEVEL_TEXT = ("Static rules over match_expr/test_set: kind agreement, comparison of every non-recursed identity "
              "field (fields parsed from the Expr classes' __slots__), recursion into every child, no ignored "
              "sub-match failure, joker-consistency guard dominating the binding, copy-and-commit in the "
              "permutation loop. Decides these necessary clauses for all inputs; performs no match.")
LEVEL_TEXT += ' Also: commutativity is answered only by membership in the literal table of commutative operators.'
ASSUMPTIONS = ["CPython ast", "identity fields of each Expr class are its __slots__ plus a `size` constructor parameter",
               "commutative operators of the IR are + * ^ & | (doc/expression)"]
COMMUTATIVE = set(["+", "*", "^", "&", "|"])


def _returns_false(cfg, node_ids):
    for i in node_ids:
        nd = cfg.nodes[i]
        if nd.kind == "stmt" and isinstance(nd.ast, ast.Return) and isinstance(nd.ast.value, ast.Constant) \
                and nd.ast.value.value is False:
            return True
    return False


def run(ck):
    em = ExprModel(ck.repo)
    m = ck.repo.mod(REL)
    from sa.prenorm import inline_forall_helpers
    fn = inline_forall_helpers(m.func("match_expr"), dict((q, f) for q, f in m.funcs.items() if "." not in q and q != "match_expr"))
    ts = m.func("test_set")
    ck.rule("R1", "each node-kind branch checks pattern kind, compares non-recursed identity fields, recurses into "
                  "every child and propagates sub-match failure", floor=15)
    ck.rule("R2", "test_set refuses a joker bound to a different expression before binding it", floor=1)
    ck.rule("R3", "permutation loop: copy of bindings per permutation, used by sub-matches, committed only on success", floor=1)
    ck.rule("R4", "permutations only under is_commutative(); commutative list holds only commutative operators", floor=2)
    ck.rule("R5", "leaves and non-joker patterns are compared by equality; joker test comes first", floor=2)
    ck.rule("R6", "expression equality is identity or a complete structural comparison, never a hash alone", floor=1)
    expr_equality_rules(ck, "R6", m)

    E, P = fn.args.args[0].arg, fn.args.args[1].arg
    RES = fn.args.args[3].arg

    # --- collect the kind branches: If nodes with test `E.is_K()`
    branches = {}
    from sa.astutil import arm_when, positive_test

    def is_dispatch(n):
        t = positive_test(n) if isinstance(n, ast.If) else None
        return t is not None and isinstance(t, ast.Call) and isinstance(t.func, ast.Attribute) and norm(t.func.value) == E and t.func.attr in IS_PRED
    for n in walk_body(fn):
        if is_dispatch(n):
            # the statements run when the test holds, whatever the layout (elif chain, guards, negated guard + fall-through),
            # up to the next dispatch test
            region = []
            for s_ in arm_when(n, True):
                if is_dispatch(s_) and s_ is not n:
                    break
                region.append(s_)
            br_ = ast.copy_location(ast.If(test=positive_test(n), body=region, orelse=[]), n)
            br_._parent = getattr(n, "_parent", None)
            branches[IS_PRED[positive_test(n).func.attr]] = br_
    for k in ("ExprOp", "ExprMem", "ExprSlice", "ExprCond", "ExprCompose", "ExprAssign", "ExprInt", "ExprId", "ExprLoc"):
        ck.need(k in branches, "match_expr: branch for %s not found" % k)

    def branch_body(node):
        return ast.Module(body=node.body, type_ignores=[])

    for k in ("ExprOp", "ExprMem", "ExprSlice", "ExprCond", "ExprCompose", "ExprAssign"):
        br = branches[k]
        body = branch_body(br)
        bcfg = CFG(br.body)
        pred = [p for p, c in IS_PRED.items() if c == k]
        # (a) kind agreement: test `P.is_K()` whose false edge reaches `return False` directly
        ok = False
        for nd in bcfg.nodes:
            if nd.kind == "test" and isinstance(nd.ast, ast.Call) and isinstance(nd.ast.func, ast.Attribute) \
                    and norm(nd.ast.func.value) == P and nd.ast.func.attr in pred:
                fs = [s for (s, l) in bcfg.succ[nd.id] if l is False]
                if _returns_false(bcfg, fs):
                    # and it must dominate everything else in the branch
                    dom = bcfg.dominators()
                    others = [x for x in bcfg.reachable() if bcfg.nodes[x].kind in ("stmt", "test", "for")
                              and x != nd.id and x not in fs]
                    ok = all(nd.id in dom[x] for x in others)
        ck.ob("R1", "match_expr:%s:kind" % k, ok, m.where(br),
              "the %s branch does not first require the pattern to be a %s (then fields of another class are read)" % (k, k))
        # (b) scalar identity fields compared, mismatch -> return False
        scal = em.scalars(k)
        for f in scal:
            ok = False
            for nd in bcfg.nodes:
                if nd.kind != "test":
                    continue
                p = cmp_parts(nd.ast)
                if not p or p[1] not in ("!=", "=="):
                    continue
                pair = set([norm(p[0]), norm(p[2])])
                if pair == set(["%s.%s" % (E, f), "%s.%s" % (P, f)]):
                    lab = (p[1] == "!=")
                    ss = [s for (s, l) in bcfg.succ[nd.id] if l is lab]
                    if _returns_false(bcfg, ss):
                        ok = True
            ck.ob("R1", "match_expr:%s:field:%s" % (k, f), ok, m.where(br),
                  "identity field `%s` of %s is neither compared nor matched: expressions differing in it match" % (f, k))
        # (c) children
        for f in em.children(k):
            if f == "args":
                # arity comparison + zip recursion
                ok_len = False
                for nd in bcfg.nodes:
                    if nd.kind == "test":
                        p = cmp_parts(nd.ast)
                        if p and p[1] in ("!=", "==") and set([norm(p[0]), norm(p[2])]) == set(
                                ["len(%s.args)" % E, "len(%s.args)" % P]):
                            lab = (p[1] == "!=")
                            if _returns_false(bcfg, [s for (s, l) in bcfg.succ[nd.id] if l is lab]):
                                # must dominate the zip loops
                                ok_len = True
                ck.ob("R1", "match_expr:%s:arity" % k, ok_len, m.where(br),
                      "arguments are zipped without comparing arities: zip() truncates, so a %s with more "
                      "(or fewer) arguments than the pattern matches" % k)
                ok_rec = False
                for l in walk_local(body):
                    if isinstance(l, ast.For) and isinstance(l.iter, ast.Call) and callee_attr(l.iter) == "zip" \
                            and len(l.iter.args) == 2 and norm(l.iter.args[1]) == "%s.args" % P \
                            and isinstance(l.target, ast.Tuple) and len(l.target.elts) == 2:
                        a, b = norm(l.target.elts[0]), norm(l.target.elts[1])
                        for c in walk_local(l):
                            if isinstance(c, ast.Call) and norm(c.func) == fn.name and len(c.args) >= 2 and \
                                    norm(c.args[0]) == a and norm(c.args[1]) == b:
                                ok_rec = True
                ck.ob("R1", "match_expr:%s:recurse:args" % k, ok_rec, m.where(br),
                      "arguments of %s are not matched pairwise against the pattern's arguments" % k)
            else:
                ok_rec = any(isinstance(c, ast.Call) and norm(c.func) == fn.name and len(c.args) >= 2 and
                             norm(c.args[0]) == "%s.%s" % (E, f) and norm(c.args[1]) == "%s.%s" % (P, f)
                             for c in walk_local(body))
                ck.ob("R1", "match_expr:%s:recurse:%s" % (k, f), ok_rec, m.where(br),
                      "child `%s` of %s is not matched against the pattern's `%s`" % (f, k, f))
        # (d) every recursive call result is consumed: returned, or tested `is False`
        for c in [x for x in walk_local(body) if isinstance(x, ast.Call) and norm(x.func) == fn.name]:
            par = getattr(c, "_parent", None)
            used = False
            if isinstance(par, ast.Return):
                used = True
            elif isinstance(par, ast.Compare) and isinstance(par.ops[0], (ast.Is, ast.Eq)) and \
                    isinstance(par.comparators[0], ast.Constant) and par.comparators[0].value is False:
                used = True
            elif isinstance(par, ast.UnaryOp) and isinstance(par.op, ast.Not):
                used = True
            elif isinstance(par, ast.Assign) and len(par.targets) == 1 and isinstance(par.targets[0], ast.Name):
                v = par.targets[0].id
                # the variable must be tested against False afterwards
                for t in walk_local(body):
                    if isinstance(t, ast.Compare) and norm(t.left) == v and isinstance(t.comparators[0], ast.Constant) \
                            and t.comparators[0].value is False:
                        used = True
                    if isinstance(t, ast.UnaryOp) and isinstance(t.op, ast.Not) and norm(t.operand) == v:
                        used = True
            ck.ob("R1", "match_expr:%s:consumed:%s" % (k, norm(c.args[0])), used, m.where(c),
                  "the result of the sub-match `%s` is ignored: a failing child does not fail the match" % norm(c))

    # --- R3 / R4 in the op branch
    br = branches["ExprOp"]
    body = branch_body(br)
    loops = [l for l in walk_local(body) if isinstance(l, ast.For) and not (isinstance(l.iter, ast.Call) and callee_attr(l.iter) == "zip")
             and any(isinstance(x, ast.For) for x in walk_local(ast.Module(body=l.body, type_ignores=[])))]
    ck.need(loops, "match_expr: permutation loop not found")
    ploop = loops[0]
    copies = [s for s in ploop.body if isinstance(s, ast.Assign) and isinstance(s.value, ast.Call) and
              ((callee_attr(s.value) == "dict" and s.value.args and norm(s.value.args[0]) == RES) or
               (isinstance(s.value.func, ast.Attribute) and s.value.func.attr == "copy" and norm(s.value.func.value) == RES))]
    ck.ob("R3", "match_expr:permutation:copy", bool(copies), m.where(ploop),
          "each permutation must start from a fresh copy of the bindings (a failed permutation must leave no binding)")
    cp = norm(copies[0].targets[0]) if copies else None
    inner_calls = [c for c in walk_local(ploop) if isinstance(c, ast.Call) and norm(c.func) == fn.name]
    ok = bool(inner_calls) and all(len(c.args) >= 4 and norm(c.args[3]) == cp for c in inner_calls)
    ck.ob("R3", "match_expr:permutation:sub-matches-use-copy", ok, m.where(ploop),
          "sub-matches inside the permutation loop write into `%s` instead of the per-permutation copy"
          % (norm(inner_calls[0].args[3]) if inner_calls and len(inner_calls[0].args) >= 4 else "?"))
    # commit: writes to RES inside the loop are under a test of the success flag
    commits = [n for n in walk_local(ploop) if (isinstance(n, ast.Assign) and any(
        isinstance(t, ast.Subscript) and norm(t.value) == RES for t in n.targets)) or
        (isinstance(n, ast.Call) and isinstance(n.func, ast.Attribute) and n.func.attr == "update" and norm(n.func.value) == RES)]
    # within one permutation, no path leads from a failed sub-match to a commit (whatever the idiom: success flag, for/else, early
    # `continue`); the walk stops at the permutation loop's own head (= next permutation)
    from sa.astutil import Resolver as _Res2
    pres = _Res2(fn)
    pcfg = CFG([ploop])
    is_head = lambda nd_: nd_.ast is ploop
    fails = []      # (test node, label of the "sub-match failed" edge)
    for nd in pcfg.nodes:
        if nd.kind != "test":
            continue
        t_ = nd.ast
        pol = True
        while isinstance(t_, ast.UnaryOp) and isinstance(t_.op, ast.Not):
            t_ = t_.operand
            pol = not pol
        subject = None
        lab = None
        if isinstance(t_, ast.Compare) and len(t_.ops) == 1 and isinstance(t_.comparators[0], ast.Constant) and t_.comparators[0].value is False:
            subject = t_.left
            lab = isinstance(t_.ops[0], (ast.Is, ast.Eq)) == pol
        elif isinstance(t_, (ast.Name, ast.Call)):
            subject = t_
            lab = not pol          # falsy result = failure
        if subject is None:
            continue
        sx = pres.expand_node(subject) if isinstance(subject, ast.Name) else subject
        is_sub = isinstance(sx, ast.Call) and norm(sx.func) == fn.name
        if not is_sub and isinstance(subject, ast.Name):
            is_sub = any(isinstance(d, ast.Call) and norm(d.func) == fn.name for d in pres.all_defs(subject.id))
        if is_sub:
            fails.append((nd, lab))
    cnodes = [nd for nd in pcfg.nodes if nd.kind == "stmt" and any(x is nd.ast or any(y is x for y in ast.walk(nd.ast)) for x in commits)]
    ok = bool(commits) and bool(fails) and bool(cnodes)
    def flag_test(t_):
        """(flag name, value for which the test is true) for tests on a boolean local; else None."""
        pol = True
        while isinstance(t_, ast.UnaryOp) and isinstance(t_.op, ast.Not):
            t_ = t_.operand
            pol = not pol
        if isinstance(t_, ast.Name):
            return t_.id, pol
        if isinstance(t_, ast.Compare) and len(t_.ops) == 1 and isinstance(t_.left, ast.Name) and isinstance(t_.comparators[0], ast.Constant) \
                and isinstance(t_.comparators[0].value, bool):
            same = isinstance(t_.ops[0], (ast.Is, ast.Eq))
            return t_.left.id, (t_.comparators[0].value == same) == pol if same or isinstance(t_.ops[0], (ast.IsNot, ast.NotEq)) else None
        return None

    def reaches_commit(start):
        """Is a commit reachable from `start` within this permutation, following boolean flags set on the way?"""
        seen_ = set()
        todo_ = [(start, frozenset())]
        while todo_:
            x, fl = todo_.pop()
            if (x, fl) in seen_:
                continue
            seen_.add((x, fl))
            nd_ = pcfg.nodes[x]
            if is_head(nd_):
                continue
            if any(c_.id == x for c_ in cnodes):
                return True
            fld = dict(fl)
            if nd_.kind == "stmt" and isinstance(nd_.ast, ast.Assign) and len(nd_.ast.targets) == 1 and isinstance(nd_.ast.targets[0], ast.Name):
                if isinstance(nd_.ast.value, ast.Constant) and isinstance(nd_.ast.value.value, bool):
                    fld[nd_.ast.targets[0].id] = nd_.ast.value.value
                else:
                    fld.pop(nd_.ast.targets[0].id, None)
            only = None
            if nd_.kind == "test":
                ft = flag_test(nd_.ast)
                if ft is not None and ft[1] is not None and ft[0] in fld:
                    only = (fld[ft[0]] == ft[1])
            for (s_, l_) in pcfg.succ[x]:
                if only is not None and l_ in (True, False) and l_ is not only:
                    continue
                todo_.append((s_, frozenset(fld.items())))
        return False
    for (fnode, lab) in fails:
        for (s_, l_) in pcfg.succ[fnode.id]:
            if l_ is lab and reaches_commit(s_):
                ok = False
    flagset = True
    ck.ob("R3", "match_expr:permutation:commit-on-success", ok and flagset, m.where(ploop),
          "bindings of a permutation are committed to the caller's dictionary without a success test")
    # R4
    perm_calls = [c for c in walk_local(body) if isinstance(c, ast.Call) and callee_attr(c) == "permutations"]
    ck.need(perm_calls, "match_expr: itertools.permutations call not found")
    bcfg = CFG(br.body)
    ok = True
    for c in perm_calls:
        for nd in bcfg.node_containing(c):
            dom = bcfg.dominators()[nd.id]
            g = False
            for did in dom:
                dn = bcfg.nodes[did]
                if dn.kind == "test" and isinstance(dn.ast, ast.Call) and callee_attr(dn.ast) == "is_commutative":
                    ts_ = [s for (s, l) in bcfg.succ[did] if l is True]
                    if ts_ and (ts_[0] == nd.id or bcfg.can_reach(ts_[0], nd.id)) and not any(
                            s == nd.id or bcfg.can_reach(s, nd.id) for (s, l) in bcfg.succ[did] if l is False):
                        g = True
            ok = ok and g
    ck.ob("R4", "match_expr:permutations-guard", ok, m.where(br),
          "argument permutations are tried without testing that the operator is commutative")
    ic = m.func("ExprOp.is_commutative")
    lists = [str_elts(n) for n in walk_body(ic) if isinstance(n, (ast.List, ast.Tuple, ast.Set))]
    lists = [l for l in lists if l]
    ck.need(lists, "ExprOp.is_commutative: operator list not found")
    extra = sorted(set(lists[0]) - COMMUTATIVE)
    ck.ob("R4", "ExprOp.is_commutative:list", not extra, m.where(ic),
          "operators %s are declared commutative but are not" % extra)
    # ... and the table is the ONLY way to be commutative: every returned value is a membership of the operator in a literal list of
    # commutative operators (a disjunct such as a name prefix admits operators whose operands are ordered)
    for qn in ("ExprOp.is_commutative", "is_commutative"):
        f_ = m.funcs.get(qn)
        if f_ is None:
            continue
        rets_ = [n for n in walk_body(f_) if isinstance(n, ast.Return) and n.value is not None]

        def only_table(v):
            if isinstance(v, ast.Compare) and len(v.ops) == 1 and isinstance(v.ops[0], ast.In) and isinstance(v.comparators[0], (ast.List, ast.Tuple, ast.Set)):
                ops_ = str_elts(v.comparators[0])
                return bool(ops_) and not (set(ops_) - COMMUTATIVE) and norm(v.left).split(".")[-1] in ("op", "_op")
            if isinstance(v, ast.BoolOp) and isinstance(v.op, ast.And):
                return any(only_table(x) for x in v.values)          # a conjunction can only narrow the table
            if isinstance(v, ast.Constant) and v.value is False:
                return True
            return False
        bad_ = [norm(r.value)[:80] for r in rets_ if not only_table(r.value)]
        ck.ob("R4", "%s:table-only" % qn, bool(rets_) and not bad_, m.where(f_),
              "%s answers `%s`: operators outside the reviewed table %s can be declared commutative, and match_expr then tries "
              "permutations of ordered operands" % (qn, "; ".join(bad_), sorted(COMMUTATIVE)))

    # --- R5 leaves
    for k in ("ExprInt", "ExprId", "ExprLoc"):
        br = branches[k]
        ok = len(br.body) == 1 and isinstance(br.body[0], ast.Return) and isinstance(br.body[0].value, ast.Call) and \
            norm(br.body[0].value.func) == ts.name and [norm(a) for a in br.body[0].value.args[:2]] == [E, P]
        ck.ob("R5", "match_expr:%s:leaf" % k, ok, m.where(br), "leaf kind %s is not delegated to test_set(expr, pattern, ...)" % k)
    tE, tP, tT, tR = [a.arg for a in ts.args.args[:4]]
    tcfg = CFG(ts)
    # non-joker: return expr == pattern
    ok = False
    for nd in tcfg.nodes:
        if nd.kind == "stmt" and isinstance(nd.ast, ast.Return) and isinstance(nd.ast.value, ast.Compare):
            p = cmp_parts(nd.ast.value)
            if p and p[1] == "==" and set([norm(p[0]), norm(p[2])]) == set([tE, tP]):
                ok = True
    ck.ob("R5", "test_set:non-joker-equality", ok, m.where(ts), "a non-joker pattern is not compared by equality with the expression")

    # --- R2
    binds = [nd for nd in tcfg.nodes if nd.kind == "stmt" and isinstance(nd.ast, ast.Assign) and any(
        isinstance(t, ast.Subscript) and norm(t.value) == tR and norm(t.slice) == tP for t in nd.ast.targets)]
    ck.need(binds, "test_set: binding of the joker not found")
    # every path from the entry to the binding leaves either the membership test on its "not bound" edge or the comparison with
    # the stored expression on its "equal" edge; tests written through a temporary are expanded first
    from sa.astutil import Resolver as _Res
    tres = _Res(ts)
    safe = set()       # (test node id, label) edges that establish "unbound" or "bound to the same expression"
    for nd in tcfg.nodes:
        if nd.kind != "test":
            continue
        t_ = tres.expand_node(nd.ast)
        pol = True
        while isinstance(t_, ast.UnaryOp) and isinstance(t_.op, ast.Not):
            t_ = t_.operand
            pol = not pol
        q = cmp_parts(t_)
        if not q:
            continue
        if q[1] in ("in", "notin") and norm(q[0]) == tP and norm(q[2]) == tR:
            unbound_label = (q[1] == "notin") == pol
            safe.add((nd.id, unbound_label))
        if q[1] in ("!=", "==") and set([norm(q[0]), norm(q[2])]) == set(["%s[%s]" % (tR, tP), tE]):
            equal_label = (q[1] == "==") == pol
            safe.add((nd.id, equal_label))
    ok = True
    for b in binds:
        if norm(b.ast.value) != tE:
            ok = False
        seen_, todo_ = set([tcfg.entry.id]), [tcfg.entry.id]
        while todo_:
            x = todo_.pop()
            for (s_, l_) in tcfg.succ[x]:
                if (x, l_) in safe or s_ in seen_:
                    continue
                seen_.add(s_)
                todo_.append(s_)
        if b.id in seen_:
            ok = False
    ck.ob("R2", "test_set:joker-consistency", ok, m.where(ts),
          "a joker already bound to another expression can be rebound: one joker matches two different sub-expressions")
    # success implies bound: every path to a return that can be truthy on the joker branch (anything but `False` and the
    # non-joker equality) passes the binding result[pattern] = expr
    from sa.pathob import undischarged, path_text
    succ_rets = []
    for nd in tcfg.nodes:
        if nd.kind == "stmt" and isinstance(nd.ast, ast.Return):
            v = nd.ast.value
            if v is None or (isinstance(v, ast.Constant) and not v.value):
                continue
            pq = cmp_parts(v) if isinstance(v, ast.Compare) else None
            if pq and pq[1] == "==" and set([norm(pq[0]), norm(pq[2])]) == set([tE, tP]):
                continue
            succ_rets.append(nd)
    ck.need(succ_rets, "test_set: no success return found")
    bind_ids = set(b.id for b in binds if norm(b.ast.value) == tE)
    for r_ in succ_rets:
        wp = undischarged(tcfg, lambda nd: nd.id in bind_ids, targets=[r_.id])
        ck.ob("R2", "test_set:success-implies-bound", wp is None, m.where(r_.ast),
              "test_set can report success for a joker without recording (or checking) its binding: %s - a joker used twice then "
              "matches two different sub-expressions" % (path_text(wp) if wp else ""))
    # joker test first in match_expr
    first = [s for s in fn.body if isinstance(s, ast.If)]
    ok = False
    for s in first:
        p = cmp_parts(s.test)
        if p and p[1] == "in" and norm(p[0]) == P and norm(p[2]) == fn.args.args[2].arg:
            ok = isinstance(s.body[0], ast.Return) and isinstance(s.body[0].value, ast.Call) and norm(s.body[0].value.func) == ts.name
            # must precede the kind dispatch
            ok = ok and s.lineno < branches["ExprInt"].lineno
    ck.ob("R5", "match_expr:joker-first", ok, m.where(fn), "a joker pattern is not handled before the structural dispatch")


def expr_equality_rules(ck, rid, m):
    """Equality of expressions (what match_expr, test_set and every `in` / `==` on expressions rely on) is identity for interned
    expressions and otherwise a COMPLETE structural comparison: on every path of Expr.__eq__ that can answer something else than
    a constant, one conjunct of the answer compares the full printed structure (repr) or the pickling state of both sides.  A hash,
    a size or a class comparison alone is not injective: two different expressions then compare equal and a joker is bound twice."""
    from sa import symval
    from sa.repo import AnalysisError
    fn = m.func("Expr.__eq__")
    ck.need(len(fn.args.args) == 2, "Expr.__eq__: unexpected signature")
    S, O = fn.args.args[0].arg, fn.args.args[1].arg
    COMPLETE = ("repr(%s)", "%s.__reduce__()", "%s.__getstate__()", "%s.__repr__()")
    LOSSY = ("hash(%s)", "%s.__hash__()", "%s._hash", "%s.size", "%s._size", "%s.__class__", "type(%s)", "str(%s)", "%s._exprhash()")

    def kind(c):
        if isinstance(c, ast.Compare) and len(c.ops) == 1 and isinstance(c.ops[0], (ast.Eq, ast.Is)):
            a, b = norm(c.left), norm(c.comparators[0])
            for f in COMPLETE:
                if set([a, b]) == set([f % S, f % O]):
                    return "complete"
            for f in LOSSY:
                if set([a, b]) == set([f % S, f % O]):
                    return "lossy"
        return None
    k = 0
    for p in symval.paths(fn.body, env={}):
        if p.kind != "return" or p.value is None:
            continue
        v = p.value
        if isinstance(v, ast.Constant):
            if v.value is True or v.value == 1:
                # an unconditional "equal" needs identity (or a complete comparison) among the path's facts
                conds = [(t, tv) for (t, tv) in p.conds]
                ok = any(tv and ((isinstance(t, ast.Compare) and isinstance(t.ops[0], ast.Is) and set([norm(t.left), norm(t.comparators[0])]) == set([S, O]))
                                 or kind(t) == "complete") for (t, tv) in conds)
                k += 1
                ck.ob(rid, "Expr.__eq__:equal-needs-identity-or-full-comparison", ok, m.where(fn),
                      "Expr.__eq__ answers True on a path that established neither `self is other` nor a complete structural comparison")
            continue
        conj = v.values if isinstance(v, ast.BoolOp) and isinstance(v.op, ast.And) else [v]
        kinds = [kind(c) for c in conj]
        # facts of the path count as conjuncts too (`if repr(a) != repr(b): return False` before the answer)
        for (t, tv) in p.conds:
            if tv and kind(t):
                kinds.append(kind(t))
            if (not tv) and isinstance(t, ast.Compare) and len(t.ops) == 1 and isinstance(t.ops[0], (ast.NotEq, ast.IsNot)):
                t2 = ast.Compare(left=t.left, ops=[ast.Eq()], comparators=t.comparators)
                if kind(t2):
                    kinds.append(kind(t2))
        k += 1
        if "complete" in kinds:
            ck.ob(rid, "Expr.__eq__:answer-is-a-full-comparison", True, m.where(fn), "")
        elif all(x == "lossy" for x in kinds[:len(conj)]):
            ck.ob(rid, "Expr.__eq__:answer-is-a-full-comparison", False, m.where(fn),
                  "Expr.__eq__ answers `%s` for two distinct objects: only a hash / size / class comparison, which different "
                  "expressions can satisfy (hash collisions): pattern matching then reports a match that is not genuine and binds "
                  "one joker to two expressions" % norm(v)[:80])
        else:
            raise AnalysisError("Expr.__eq__: the answer `%s` is a form this rule does not know" % norm(v)[:80])
    ck.need(k >= 2, "Expr.__eq__: fewer than 2 answering paths understood (%d)" % k)
