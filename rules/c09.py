"""C09 - possible-values enumeration covers exactly the concrete value (expression_helper.possible_values).

 R1 every Expr class is dispatched; each child field is either enumerated recursively or placed in a path
    constraint; the node is rebuilt with its own class, scalar fields unchanged, children in order
 R2 alternatives of the non-zero arm carry the "condition != 0" constraint and those of the zero arm the
    "condition == 0" constraint (resolved through the constraint classes' `operator` attribute and their
    to_constraint formula, not through their names)
 R3 n-ary nodes take the Cartesian product of their children's alternatives and the union of their
    constraints
"""
import ast

from sa.astutil import walk_body, walk_local, dotted, norm, callee_attr
from sa.exprmodel import ExprModel, KINDS

REL = "miasm/expression/expression_helper.py"
LEVEL_TEXT = ("Dispatch/recursion completeness against the Expr classes' fields, polarity of the constraints attached to "
              "each arm of a conditional (through the constraint classes' operator), product/union shape for n-ary nodes. "
              "Necessary clauses; no enumeration is run.")
LEVEL_TEXT += ' Also: the container of alternatives is a plain set (no set-API method redefined), the alternative is the plain (constraints, value) pair.'
ASSUMPTIONS = ["CPython ast", "TOK_EQUAL denotes equality with zero in CondConstraint.operator"]


def run(ck):
    em = ExprModel(ck.repo)
    m = ck.repo.mod(REL)
    fn = m.func("possible_values")
    ep = fn.args.args[0].arg
    ck.rule("R1", "every class dispatched; every child enumerated or constrained; node rebuilt faithfully", floor=12)
    ck.rule("R2", "the non-zero arm carries the != 0 constraint, the zero arm the == 0 constraint", floor=2)
    ck.rule("R4", "constraints of opposite polarity on one condition stay distinct members of a constraint set", floor=1)
    # constraints live in frozensets that are united along the product: an equality/hash on the constraint classes that does not
    # look at the polarity (class or `operator`) merges `c == 0` with `c != 0`, and an infeasible alternative looks satisfiable
    for cname in ("CondConstraint", "CondConstraintZero", "CondConstraintNotZero"):
        for meth in ("__eq__",):     # a coarser __hash__ alone only costs collisions
            f_ = m.funcs.get("%s.%s" % (cname, meth))
            if f_ is None:
                ck.ob("R4", "%s.%s" % (cname, meth), True, m.where(m.cls(cname)), "identity semantics (not overridden)")
                continue
            t_ = norm(ast.Module(body=f_.body, type_ignores=[]))
            polar = any(k in t_ for k in ("type(self)", "self.__class__", "self.operator"))
            ck.ob("R4", "%s.%s" % (cname, meth), polar, m.where(f_),
                  "%s.%s ignores the polarity of the constraint (neither the class nor `operator` takes part): `c == 0` and `c != 0` "
                  "collapse to one member of a constraint set" % (cname, meth))
    ck.rule("R3", "n-ary nodes: Cartesian product of alternatives, union of constraints", floor=2)
    ck.rule("R5", "the container of alternatives is a plain set: it does not redefine how members are added, merged or compared", floor=1)
    # possible_values fills its result through add() / update(): alternatives are distinct (constraints, value) pairs, and two alternatives
    # with the same value reached under different constraints must both stay (merging them keeps a constraint set that none of the paths
    # guarantees).  The container class may add presentation methods only; the tuple class must keep the namedtuple equality.
    SET_API = set(["add", "update", "__ior__", "__or__", "union", "__iand__", "intersection_update", "discard", "remove", "pop", "__contains__",
                   "__iter__", "__len__", "__eq__", "__hash__", "copy", "__init__", "__new__"])
    rc = m.cls("ConstrainedValues")
    bases = [norm(b) for b in rc.bases]
    ck.ob("R5", "ConstrainedValues:is-a-set", bases == ["set"], m.where(rc), "ConstrainedValues derives from %s, expected the built-in set" % bases)
    over = sorted(st.name for st in rc.body if isinstance(st, ast.FunctionDef) and st.name in SET_API)
    ck.ob("R5", "ConstrainedValues:set-api-untouched", not over, m.where(rc),
          "ConstrainedValues redefines %s: alternatives added by possible_values can be merged, dropped or compared differently from plain "
          "(constraints, value) pairs" % over)
    cv = m.assigns.get("ConstrainedValue")
    ok = isinstance(cv, ast.Call) and dotted(cv.func) in ("collections.namedtuple", "namedtuple") and len(cv.args) >= 2 and \
        isinstance(cv.args[1], (ast.List, ast.Tuple)) and [getattr(e, "value", None) for e in cv.args[1].elts] == ["constraints", "value"]
    ck.ob("R5", "ConstrainedValue:pair", ok, m.where(cv) if cv is not None else REL, "ConstrainedValue is not the plain (constraints, value) named tuple")

    branches = {}
    for n in walk_body(fn):
        if isinstance(n, ast.If):
            for c in walk_local(n.test):
                if isinstance(c, ast.Call) and callee_attr(c) == "isinstance" and norm(c.args[0]) == ep:
                    cls = c.args[1]
                    names = cls.elts if isinstance(cls, ast.Tuple) else [cls]
                    for x in names:
                        nm = x.attr if isinstance(x, ast.Attribute) else getattr(x, "id", None)
                        if nm in KINDS:
                            branches.setdefault(nm, n)
    for k in KINDS:
        ck.ob("R1", "dispatch:%s" % k, k in branches, m.where(fn), "possible_values has no branch for %s" % k)
    # constraint classes by operator
    zero_cls = nonzero_cls = None
    for cname, cdef in m.classes.items():
        for st in cdef.body:
            if isinstance(st, ast.Assign) and norm(st.targets[0]) == "operator":
                v = norm(st.value)
                if v in ("m2_expr.TOK_EQUAL", "TOK_EQUAL", "'=='"):
                    zero_cls = cname
                elif v in ("'!='", '"!="'):
                    nonzero_cls = cname
    ck.need(zero_cls and nonzero_cls, "constraint classes with operator == / != not found")

    from sa.symval import paths
    helpers = dict((q, f_) for q, f_ in m.funcs.items() if "." not in q and q != "possible_values")

    def resolved(br):
        """Resolved expressions (effects, loop bodies, returned values, final bindings) of a dispatch branch, as (text, ast) pairs."""
        out = []
        from sa.prenorm import inline_generators
        for p_ in paths(inline_generators(br.body, helpers), helpers=helpers):
            nodes = list(p_.effects) + ([p_.value] if p_.value is not None else []) + [v for v in p_.env.values() if isinstance(v, ast.AST)]
            for n_ in nodes:
                out.append((norm(n_).replace("m2_expr.", ""), n_))
        return out

    def pv_args(nodes):
        """Texts of the arguments possible_values is called with."""
        got = set()
        for _t, n_ in nodes:
            for c in ast.walk(n_):
                if isinstance(c, ast.Call) and callee_attr(c) == "possible_values" and c.args:
                    got.add(norm(c.args[0]))
        return got

    res = {}
    for k in KINDS:
        if k not in branches:
            continue
        br = branches[k]
        nodes = res[k] = resolved(br)
        txt = "\n".join(t for t, _n in nodes)
        if k in ("ExprInt", "ExprId", "ExprLoc"):
            ok = "ConstrainedValue(frozenset(), %s)" % ep in txt
            ck.ob("R1", "%s:leaf" % k, ok, m.where(br), "a leaf must be its own single unconstrained alternative")
            continue
        called = pv_args(nodes)
        for ch in em.children(k):
            if k == "ExprAssign" and ch == "dst":
                continue   # an assignment's value is its source
            if ch == "args":
                ok = any(isinstance(x, (ast.ListComp, ast.GeneratorExp)) and norm(x.generators[0].iter) in ("%s.args" % ep, "%s.iter_args()" % ep) and
                         any(isinstance(c, ast.Call) and callee_attr(c) == "possible_values" and c.args and norm(c.args[0]) in [y.id for y in ast.walk(x.generators[0].target) if isinstance(y, ast.Name)]
                             for c in ast.walk(x.elt)) for _t, n_ in nodes for x in ast.walk(n_))
            elif k == "ExprCond" and ch == "cond":
                ok = ("%s(%s.cond)" % (zero_cls, ep)) in txt and ("%s(%s.cond)" % (nonzero_cls, ep)) in txt
            else:
                ok = ("%s.%s" % (ep, ch)) in called
            ck.ob("R1", "%s:child:%s" % (k, ch), ok, m.where(br), "child `%s` of %s is neither enumerated nor put in a constraint" % (ch, k))
        if k == "ExprSlice":
            ok = any(isinstance(x, ast.Subscript) and isinstance(x.slice, ast.Slice) and x.slice.step is None and x.slice.lower is not None and x.slice.upper is not None
                     and norm(x.slice.lower) == "%s.start" % ep and norm(x.slice.upper) == "%s.stop" % ep and isinstance(x.value, ast.Attribute) and x.value.attr == "value"
                     for _t, n_ in nodes for x in ast.walk(n_))
            ck.ob("R1", "ExprSlice:rebuild", ok, m.where(br), "slice alternatives must keep [start:stop]")
        if k == "ExprMem":
            ok = any(isinstance(c, ast.Call) and callee_attr(c) == "ExprMem" and len(c.args) == 2 and isinstance(c.args[0], ast.Attribute) and c.args[0].attr == "value"
                     and norm(c.args[1]) == "%s.size" % ep for _t, n_ in nodes for c in ast.walk(n_))
            ck.ob("R1", "ExprMem:rebuild", ok, m.where(br), "memory alternatives must keep the access size")
        if k == "ExprOp":
            ok = any(isinstance(c, ast.Call) and callee_attr(c) == "ExprOp" and c.args and norm(c.args[0]) == "%s.op" % ep and len(c.args) == 2 and isinstance(c.args[1], ast.Starred)
                     for _t, n_ in nodes for c in ast.walk(n_))
            ck.ob("R1", "ExprOp:rebuild", ok, m.where(br), "operator alternatives must keep the operator and argument order")
        if k == "ExprCompose":
            ok = any(isinstance(c, ast.Call) and callee_attr(c) == "ExprCompose" and len(c.args) == 1 and isinstance(c.args[0], ast.Starred) for _t, n_ in nodes for c in ast.walk(n_))
            ck.ob("R1", "ExprCompose:rebuild", ok, m.where(br), "compose alternatives must keep argument order")

    # ---------------------------------------------------------------- R2
    br = branches.get("ExprCond")
    if br is not None:
        arms = {}
        for _t, n_ in res.get("ExprCond", []):
            for g in ast.walk(n_):
                if not isinstance(g, (ast.GeneratorExp, ast.ListComp, ast.SetComp)):
                    continue
                it = g.generators[0].iter
                if not (isinstance(it, ast.Call) and callee_attr(it) == "possible_values" and it.args):
                    continue
                cons = [norm(c.func).split(".")[-1] for c in ast.walk(g.elt) if isinstance(c, ast.Call) and norm(c.func).split(".")[-1] in (zero_cls, nonzero_cls)
                        and c.args and norm(c.args[0]) == "%s.cond" % ep]
                # the alternative's own constraints must be kept as well
                keeps = any(isinstance(x, ast.Attribute) and x.attr == "constraints" for x in ast.walk(g.elt))
                arms.setdefault(norm(it.args[0]), set()).update(cons if keeps else ["<own constraints dropped>"] + cons)
        a1 = sorted(arms.get("%s.src1" % ep, []))
        a2 = sorted(arms.get("%s.src2" % ep, []))
        ck.ob("R2", "ExprCond:src1-nonzero", a1 == [nonzero_cls], m.where(br), "alternatives of src1 (taken when cond != 0) carry %s, expected %s" % (a1, nonzero_cls))
        ck.ob("R2", "ExprCond:src2-zero", a2 == [zero_cls], m.where(br), "alternatives of src2 (taken when cond == 0) carry %s, expected %s" % (a2, zero_cls))
    zf = m.func("%s.to_constraint" % zero_cls)
    from sa.astutil import Resolver as _Res0
    _rz = _Res0(zf)
    ok = any(isinstance(n, ast.Return) and n.value is not None and _rz.expand(n.value).replace("m2_expr.", "") == "ExprAssign(self.expr, ExprInt(0, self.expr.size))"
             for n in walk_body(zf))
    ck.ob("R2", "%s.to_constraint" % zero_cls, ok, m.where(zf), "the == 0 constraint must be `expr = 0`")
    nf = m.func("%s.to_constraint" % nonzero_cls)
    from sa.astutil import Resolver as _Res
    _rs = _Res(nf)
    ok = any(isinstance(n, ast.Return) and n.value is not None and
             _rs.expand(n.value).replace("m2_expr.", "") == "ExprAssign(ExprInt(0, 1), ExprCond(self.expr, ExprInt(0, 1), ExprInt(1, 1)))" for n in walk_body(nf))
    ck.ob("R2", "%s.to_constraint" % nonzero_cls, ok, m.where(nf), "the != 0 constraint must be `0 = (expr ? 0 : 1)` on one bit")

    # ---------------------------------------------------------------- R3
    for k in ("ExprOp", "ExprCompose"):
        br = branches.get(k)
        if br is None:
            continue
        nodes = res.get(k, [])
        loops = [n_ for _t, n_ in nodes if isinstance(n_, ast.Call) and norm(n_.func) == "__loop__"]
        prod = [l for l in loops if isinstance(l.args[1], ast.Call) and norm(l.args[1].func) in ("itertools.product", "product") and l.args[1].args and isinstance(l.args[1].args[0], ast.Starred)]
        tgt = norm(prod[0].args[0]) if prod else "?"
        if not prod:
            for _t, n_ in nodes:
                for x in ast.walk(n_):
                    if isinstance(x, (ast.GeneratorExp, ast.ListComp, ast.SetComp)) and len(x.generators) == 1 and not x.generators[0].ifs:
                        it_ = x.generators[0].iter
                        if isinstance(it_, ast.Call) and norm(it_.func) in ("itertools.product", "product") and len(it_.args) == 1 and isinstance(it_.args[0], ast.Starred):
                            prod.append(x)
                            tgt = norm(x.generators[0].target)
        ck.ob("R3", "%s:product" % k, bool(prod), m.where(br), "%s alternatives are not the Cartesian product of the arguments' alternatives" % k)
        ok = False
        for _t, n_ in nodes:
            for c in ast.walk(n_):
                if isinstance(c, ast.Call) and callee_attr(c) == "ConstrainedValue" and len(c.args) == 2:
                    a0 = c.args[0]
                    union = any(isinstance(x, (ast.GeneratorExp, ast.ListComp)) and norm(x.generators[0].iter) == tgt and
                                isinstance(x.elt, ast.Attribute) and x.elt.attr == "constraints" and not x.generators[0].ifs for x in ast.walk(a0))
                    merged = any(isinstance(x, ast.Call) and (norm(x.func) in ("itertools.chain", "chain", "itertools.chain.from_iterable", "chain.from_iterable") or
                                                                  (isinstance(x.func, ast.Attribute) and x.func.attr == "union")) for x in ast.walk(a0))
                    frozen = isinstance(a0, ast.Call) and callee_attr(a0) == "frozenset"
                    if union and merged and frozen:
                        ok = True
        ck.ob("R3", "%s:constraint-union" % k, ok, m.where(br), "%s alternatives do not carry the union of their arguments' constraints" % k)
