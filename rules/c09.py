"""C09 - possible-values enumeration covers exactly the concrete value (expression_helper.possible_values).

 R1 every Expr class is dispatched; each child field is either enumerated recursively or placed in a path
    constraint; the node is rebuilt with its own class, scalar fields unchanged, children in order
 R2 alternatives of the non-zero arm carry the "condition != 0" constraint and those of the zero arm the
    "condition == 0" constraint (resolved through the constraint classes' `operator` attribute and their
    to_constraint formula, not through their names)
 R3 n-ary nodes take the Cartesian product of their children's alternatives and the union of their
    constraints
"""
import ast

from sa.astutil import walk_body, walk_local, dotted, norm, callee_attr
from sa.exprmodel import ExprModel, KINDS

REL = "miasm/expression/expression_helper.py"
LEVEL_TEXT = ("Dispatch/recursion completeness against the Expr classes' fields, polarity of the constraints attached to "
              "each arm of a conditional (through the constraint classes' operator), product/union shape for n-ary nodes. "
              "Necessary clauses; no enumeration is run.")
ASSUMPTIONS = ["CPython ast", "TOK_EQUAL denotes equality with zero in CondConstraint.operator"]


def run(ck):
    em = ExprModel(ck.repo)
    m = ck.repo.mod(REL)
    fn = m.func("possible_values")
    ep = fn.args.args[0].arg
    ck.rule("R1", "every class dispatched; every child enumerated or constrained; node rebuilt faithfully", floor=14)
    ck.rule("R2", "the non-zero arm carries the != 0 constraint, the zero arm the == 0 constraint", floor=4)
    ck.rule("R4", "constraints of opposite polarity on one condition stay distinct members of a constraint set", floor=1)
    # constraints live in frozensets that are united along the product: an equality/hash on the constraint classes that does not
    # look at the polarity (class or `operator`) merges `c == 0` with `c != 0`, and an infeasible alternative looks satisfiable
    for cname in ("CondConstraint", "CondConstraintZero", "CondConstraintNotZero"):
        for meth in ("__eq__",):     # a coarser __hash__ alone only costs collisions
            f_ = m.funcs.get("%s.%s" % (cname, meth))
            if f_ is None:
                ck.ob("R4", "%s.%s" % (cname, meth), True, m.where(m.cls(cname)), "identity semantics (not overridden)")
                continue
            t_ = norm(ast.Module(body=f_.body, type_ignores=[]))
            polar = any(k in t_ for k in ("type(self)", "self.__class__", "self.operator"))
            ck.ob("R4", "%s.%s" % (cname, meth), polar, m.where(f_),
                  "%s.%s ignores the polarity of the constraint (neither the class nor `operator` takes part): `c == 0` and `c != 0` "
                  "collapse to one member of a constraint set" % (cname, meth))
    ck.rule("R3", "n-ary nodes: Cartesian product of alternatives, union of constraints", floor=4)

    branches = {}
    for n in walk_body(fn):
        if isinstance(n, ast.If):
            for c in walk_local(n.test):
                if isinstance(c, ast.Call) and callee_attr(c) == "isinstance" and norm(c.args[0]) == ep:
                    cls = c.args[1]
                    names = cls.elts if isinstance(cls, ast.Tuple) else [cls]
                    for x in names:
                        nm = x.attr if isinstance(x, ast.Attribute) else getattr(x, "id", None)
                        if nm in KINDS:
                            branches.setdefault(nm, n)
    for k in KINDS:
        ck.ob("R1", "dispatch:%s" % k, k in branches, m.where(fn), "possible_values has no branch for %s" % k)
    # constraint classes by operator
    zero_cls = nonzero_cls = None
    for cname, cdef in m.classes.items():
        for st in cdef.body:
            if isinstance(st, ast.Assign) and norm(st.targets[0]) == "operator":
                v = norm(st.value)
                if v in ("m2_expr.TOK_EQUAL", "TOK_EQUAL", "'=='"):
                    zero_cls = cname
                elif v in ("'!='", '"!="'):
                    nonzero_cls = cname
    ck.need(zero_cls and nonzero_cls, "constraint classes with operator == / != not found")

    for k in KINDS:
        if k not in branches:
            continue
        br = branches[k]
        body = ast.Module(body=br.body, type_ignores=[])
        txt = norm(body)
        if k in ("ExprInt", "ExprId", "ExprLoc"):
            ok = "ConstrainedValue(frozenset(), %s)" % ep in txt
            ck.ob("R1", "%s:leaf" % k, ok, m.where(br), "a leaf must be its own single unconstrained alternative")
            continue
        for ch in em.children(k):
            if k == "ExprAssign" and ch == "dst":
                continue   # an assignment's value is its source
            if ch == "args":
                ok = "possible_values(arg)" in txt and "for arg in %s.args" % ep in txt
            elif k == "ExprCond" and ch == "cond":
                ok = "(%s.cond)" % ep in txt and zero_cls in txt and nonzero_cls in txt
            else:
                ok = "possible_values(%s.%s)" % (ep, ch) in txt
            ck.ob("R1", "%s:child:%s" % (k, ch), ok, m.where(br), "child `%s` of %s is neither enumerated nor put in a constraint" % (ch, k))
        if k == "ExprSlice":
            ck.ob("R1", "ExprSlice:rebuild", "consval.value[%s.start:%s.stop]" % (ep, ep) in txt, m.where(br), "slice alternatives must keep [start:stop]")
        if k == "ExprMem":
            ck.ob("R1", "ExprMem:rebuild", "ExprMem(consval.value, %s.size)" % ep in txt, m.where(br), "memory alternatives must keep the access size")
        if k == "ExprOp":
            ck.ob("R1", "ExprOp:rebuild", "ExprOp(%s.op, *args_value)" % ep in txt, m.where(br), "operator alternatives must keep the operator and argument order")
        if k == "ExprCompose":
            ck.ob("R1", "ExprCompose:rebuild", "ExprCompose(*args)" in txt, m.where(br), "compose alternatives must keep argument order")

    # ---------------------------------------------------------------- R2
    br = branches.get("ExprCond")
    if br is not None:
        local = {}
        for s in br.body:
            if isinstance(s, ast.Assign) and isinstance(s.targets[0], ast.Name) and isinstance(s.value, ast.Call):
                local[s.targets[0].id] = callee_attr(s.value)
        arms = {}
        for c in walk_local(ast.Module(body=br.body, type_ignores=[])):
            if isinstance(c, ast.Call) and dotted(c.func) == "consvals.update" and c.args and isinstance(c.args[0], ast.GeneratorExp):
                g = c.args[0]
                src = norm(g.generators[0].iter)
                cons = [x for x in walk_local(g.elt) if isinstance(x, ast.Call) and isinstance(x.func, ast.Attribute) and x.func.attr == "union"]
                cname = None
                if cons and cons[0].args and isinstance(cons[0].args[0], ast.List) and cons[0].args[0].elts and isinstance(cons[0].args[0].elts[0], ast.Name):
                    cname = local.get(cons[0].args[0].elts[0].id)
                arms[src] = cname
        a1 = arms.get("possible_values(%s.src1)" % ep)
        a2 = arms.get("possible_values(%s.src2)" % ep)
        ck.ob("R2", "ExprCond:src1-nonzero", a1 == nonzero_cls, m.where(br), "alternatives of src1 (taken when cond != 0) carry %s, expected %s" % (a1, nonzero_cls))
        ck.ob("R2", "ExprCond:src2-zero", a2 == zero_cls, m.where(br), "alternatives of src2 (taken when cond == 0) carry %s, expected %s" % (a2, zero_cls))
    zf = m.func("%s.to_constraint" % zero_cls)
    ok = any(isinstance(n, ast.Return) and norm(n.value).replace("m2_expr.", "") == "ExprAssign(self.expr, ExprInt(0, self.expr.size))" for n in walk_body(zf))
    ck.ob("R2", "%s.to_constraint" % zero_cls, ok, m.where(zf), "the == 0 constraint must be `expr = 0`")
    nf = m.func("%s.to_constraint" % nonzero_cls)
    t = norm(ast.Module(body=nf.body, type_ignores=[])).replace("m2_expr.", "")
    ok = "cst1, cst2 = (ExprInt(0, 1), ExprInt(1, 1))" in t and "ExprAssign(cst1, ExprCond(self.expr, cst1, cst2))" in t
    ck.ob("R2", "%s.to_constraint" % nonzero_cls, ok, m.where(nf), "the != 0 constraint must be `0 = (expr ? 0 : 1)` on one bit")

    # ---------------------------------------------------------------- R3
    for k in ("ExprOp", "ExprCompose"):
        br = branches.get(k)
        if br is None:
            continue
        txt = norm(ast.Module(body=br.body, type_ignores=[]))
        ck.ob("R3", "%s:product" % k, "itertools.product(*consvals_args)" in txt, m.where(br), "%s alternatives are not the Cartesian product of the arguments' alternatives" % k)
        ck.ob("R3", "%s:constraint-union" % k, "itertools.chain(*[consval.constraints for consval in consvals_possibility])" in txt and
              "frozenset(args_constraint)" in txt, m.where(br), "%s alternatives do not carry the union of their arguments' constraints" % k)
