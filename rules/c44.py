"""C44 - loading a binary maps its sections and imports faithfully (jitter/loader/pe.py, elf.py).

 R1 permission derivation: at every add_memory_page that maps section / segment contents the access
    argument is data-dependent on the header's flag field (PE: section.flags & 0x80000000, ELF: ph.flags &
    PF_W); a constant PAGE_READ|PAGE_WRITE is a violation (the PE header page is not a section: exempt)
 R2 import slots: the value stored in an import slot is the stub address returned by lib_get_add_func
    for that library/function, stored at that slot's address, with the image's word size
 R3 contents and padding: PE section data is padded with zero bytes up to the section's size and mapped
    at its virtual address; ELF segment bytes file[offset:offset+filesz] are written at vaddr + base
"""
import ast

from sa.astutil import walk_body, walk_local, dotted, norm, callee_attr, Resolver, const_value

PE = "miasm/jitter/loader/pe.py"
ELF = "miasm/jitter/loader/elf.py"
LEVEL_TEXT = ("Def-use / control-dependence rules over vm_load_pe, vm_load_elf and the preload functions: access argument "
              "depends on the header flag test, slot address and stub value come from the same import, padding formula and "
              "addresses. Decides these necessary clauses for every image; loads nothing.")
LEVEL_TEXT += " Also: an ELF segment's page span covers max(memsz, filesz) rounded to a page."
ASSUMPTIONS = ["CPython ast", "IMAGE_SCN_MEM_WRITE = 0x80000000, PF_W = 2 (PE/ELF specifications)"]


def _flag_dependent(fn, access_node, flag_words, masks):
    """Does the access value contain PAGE_WRITE only under a test of the header's flag field with the write mask?
    Accepted: `acc |= PAGE_WRITE` / `acc = .. | PAGE_WRITE` inside an `if <flags & mask>`, or a conditional expression
    `(.. | PAGE_WRITE) if <flags & mask> else <without PAGE_WRITE>`; the test may go through a local (`writable = flags & mask`)."""
    from sa.astutil import Resolver
    res = Resolver(fn)

    def is_flag_test(t):
        t = res.expand_node(t)
        txt = norm(t)
        if not any(w in txt for w in flag_words):
            return False, False
        for c in walk_local(t):
            if isinstance(c, ast.BinOp) and isinstance(c.op, ast.BitAnd):
                for side in (c.left, c.right):
                    ok, v = const_value(side)
                    if (ok and v in masks) or norm(side) in ("PF_W", "elf_csts.PF_W", "IMAGE_SCN_MEM_WRITE"):
                        return True, True
        return True, False
    if not isinstance(access_node, ast.Name):
        exprs = [access_node]
        var = None
    else:
        var = access_node.id
        exprs = []
    found = mask_ok = False
    unguarded = False
    defs = []
    for n in walk_body(fn):
        if isinstance(n, (ast.Assign, ast.AugAssign)):
            tg = n.targets[0] if isinstance(n, ast.Assign) else n.target
            if var is not None and isinstance(tg, ast.Name) and tg.id == var:
                defs.append(n)
    for n in defs:
        v = n.value
        if "PAGE_WRITE" not in norm(v):
            continue
        # conditional expression(s) inside the value
        handled = False
        for ife in [x for x in walk_local(v) if isinstance(x, ast.IfExp)]:
            if "PAGE_WRITE" in norm(ife.body) and "PAGE_WRITE" not in norm(ife.orelse):
                f, mk = is_flag_test(ife.test)
                found, mask_ok, handled = found or f, mask_ok or mk, True
            elif "PAGE_WRITE" in norm(ife.orelse) and "PAGE_WRITE" not in norm(ife.body):
                t = ife.test
                if isinstance(t, ast.UnaryOp) and isinstance(t.op, ast.Not):
                    f, mk = is_flag_test(t.operand)
                    found, mask_ok, handled = found or f, mask_ok or mk, True
        if handled:
            continue
        p = getattr(n, "_parent", None)
        guarded = False
        while p is not None and p is not fn:
            if isinstance(p, ast.If):
                f, mk = is_flag_test(p.test)
                if f:
                    found, guarded = True, True
                    mask_ok = mask_ok or mk
            p = getattr(p, "_parent", None)
        if not guarded:
            unguarded = True
    if var is None:
        return False, "access argument is the constant expression `%s`" % norm(access_node)
    if unguarded:
        return False, "`%s` gains PAGE_WRITE outside any test of the header's flags" % var
    if not found:
        return False, "`%s` never gains PAGE_WRITE under a test of the header's flags" % var
    if not mask_ok:
        return False, "the flag test does not use the write mask"
    return True, ""


def _ancestors_of(n, stop):
    p = getattr(n, "_parent", None)
    while p is not None and p is not stop:
        yield p
        p = getattr(p, "_parent", None)


def run(ck):
    _import_registry_rules(ck)
    ck.rule("R1", "the access of a mapped section/segment depends on the header's write flag", floor=2)
    ck.rule("R2", "an import slot receives the stub address of its own import", floor=1)
    ck.rule("R3", "section/segment bytes are mapped at the right address with zero padding", floor=2)

    pm = ck.repo.mod(PE)
    fn = pm.func("vm_load_pe")
    res = Resolver(fn)
    n_maps = 0
    for c in [x for x in walk_body(fn) if isinstance(x, ast.Call) and dotted(x.func) == "vm.add_memory_page"]:
        data = c.args[2] if len(c.args) > 2 else None
        # header page: its bytes are a prefix of the file content
        is_hdr = False
        if isinstance(data, ast.Name):
            for d in res.all_defs(data.id):
                if "pe.content[:" in norm(d):
                    is_hdr = True
        if is_hdr:
            ck.note("R1 exempts the PE header page (not a section)")
            continue
        n_maps += 1
        in_loop = False
        p = getattr(c, "_parent", None)
        while p is not None and p is not fn:
            if isinstance(p, ast.For) and "pe.SHList" in norm(p.iter):
                in_loop = True
            p = getattr(p, "_parent", None)
        ok, why = _flag_dependent(fn, c.args[1], ("section.flags", ".flags"), (0x80000000,))
        if in_loop and isinstance(c.args[1], ast.Name):
            # the access value is per section: it must be (re)defined in each iteration before it is used, not carried over
            lp = [q_ for q_ in _ancestors_of(c, fn) if isinstance(q_, ast.For) and "pe.SHList" in norm(q_.iter)][0]
            from sa.cfg import CFG as _CFG
            lcfg = _CFG(lp.body)
            uses = [nd for nd in lcfg.nodes if any(x is c for e_ in ([nd.ast] if nd.ast is not None else []) for x in ast.walk(e_))]
            fresh = lambda nd: nd.kind == "stmt" and isinstance(nd.ast, ast.Assign) and any(isinstance(t, ast.Name) and t.id == c.args[1].id for t in nd.ast.targets)
            res_ = lcfg.must_pass(fresh, targets=[u.id for u in uses])
            carried = not (uses and all(res_.values()))
            ck.ob("R1", "vm_load_pe:per-section:access-reset-each-section", not carried, pm.where(lp),
                  "`%s` is not re-initialised inside the section loop before `%s`: a write permission granted to one section is inherited "
                  "by every following section" % (c.args[1].id, norm(c)[:60]))
        key = "vm_load_pe:%s" % ("per-section" if in_loop else "single-page(unaligned image)")
        ck.ob("R1", key, ok, pm.where(c),
              "sections are mapped with access `%s`: %s; a section whose header does not request write becomes writable" % (norm(c.args[1]), why))
    ck.need(n_maps >= 2, "vm_load_pe: section mapping sites not found")
    em = ck.repo.mod(ELF)
    fn = em.func("vm_load_elf")
    maps = [x for x in walk_body(fn) if isinstance(x, ast.Call) and dotted(x.func) == "vm.add_memory_page"]
    ck.need(maps, "vm_load_elf: add_memory_page not found")
    for c in maps:
        ok, why = _flag_dependent(fn, c.args[1], ("ph.flags", ".flags"), (2,))
        ck.ob("R1", "vm_load_elf:segments", ok, em.where(c),
              "segments are mapped with access `%s`: %s; read-only and read-execute segments become writable" % (norm(c.args[1]), why))

    # ---------------------------------------------------------------- R2
    for mod, q in ((pm, "preload_pe"), (em, "preload_elf")):
        fn = mod.func(q)
        ok = False
        detail = "slot write not found"
        for lp in [n for n in walk_body(fn) if isinstance(n, ast.For) and isinstance(n.target, ast.Name)]:
            slot = lp.target.id
            body = ast.Module(body=lp.body, type_ignores=[])
            stub = None
            for n in walk_local(body):
                if isinstance(n, ast.Assign) and isinstance(n.value, ast.Call) and callee_attr(n.value) == "lib_get_add_func":
                    a = n.value.args
                    if len(a) >= 3 and norm(a[2]) == slot and norm(a[1]) == "libfunc":
                        base = norm(a[0])
                        based = any(isinstance(x, ast.Assign) and norm(x.targets[0]) == base and isinstance(x.value, ast.Call)
                                    and callee_attr(x.value) == "lib_get_add_base" and norm(x.value.args[0]) == "libname" for x in walk_local(body))
                        if based:
                            stub = norm(n.targets[0])
            if stub is None:
                continue
            for c in walk_local(body):
                if isinstance(c, ast.Call) and dotted(c.func) == "vm.set_mem" and len(c.args) == 2 and norm(c.args[0]) == slot:
                    v = c.args[1]
                    if isinstance(v, ast.Call) and dotted(v.func) == "struct.pack" and norm(v.args[-1]) == stub and "size2type[e." in norm(v.args[0]):
                        ok = True
                    else:
                        detail = "slot `%s` receives `%s`, not the packed stub address `%s`" % (slot, norm(v)[:60], stub)
        ck.ob("R2", q, ok, mod.where(fn), "%s: %s" % (q, detail))

    # ---------------------------------------------------------------- R3
    fn = pm.func("vm_load_pe")
    ok = False
    for lp in [n for n in walk_body(fn) if isinstance(n, ast.For) and norm(n.iter) == "pe.SHList"]:
        body = ast.Module(body=lp.body, type_ignores=[])
        from sa.astutil import straightline_env, clone
        from sa.normal import canon
        mp = [c for c in walk_local(body) if isinstance(c, ast.Call) and dotted(c.func) == "vm.add_memory_page" and len(c.args) >= 3]
        if mp:
            st = mp[0]
            while not isinstance(st, ast.stmt):
                st = st._parent
            env = straightline_env(lp.body[:lp.body.index(st)]) if st in lp.body else {}

            class _T(ast.NodeTransformer):
                def visit_Name(self, nm):
                    if isinstance(nm.ctx, ast.Load) and nm.id in env:
                        return env[nm.id]
                    return nm
            addr_x = _T().visit(clone(mp[0].args[0]))
            data_x = _T().visit(clone(mp[0].args[2]))
            raw = "bytes(section.data)"
            want = ["BitOr", None]
            cd = canon(data_x)
            pads = ("Mult(b'\\x00', P[-1*len(%s) + 1*section.size])" % raw, "Mult(b'\\x00', P[1*section.size + -1*len(%s)])" % raw)
            ok_data = isinstance(data_x, ast.BinOp) and isinstance(data_x.op, ast.Add) and norm(data_x.left) == raw and \
                isinstance(data_x.right, ast.BinOp) and isinstance(data_x.right.op, ast.Mult) and \
                any(isinstance(z, ast.Constant) and z.value == b"\x00" for z in (data_x.right.left, data_x.right.right)) and \
                any(canon(z) in ("P[-1*len(%s) + section.size]" % raw, "P[section.size + -1*len(%s)]" % raw) or
                    norm(z).replace(" ", "") == ("section.size-len(%s)" % raw).replace(" ", "") for z in (data_x.right.left, data_x.right.right))
            ok = ok_data and norm(addr_x) == "pe.rva2virt(section.addr)"
    ck.ob("R3", "vm_load_pe:section-bytes", ok, pm.where(fn),
          "a section must be mapped at rva2virt(section.addr) with bytes(section.data) padded by zero bytes up to section.size")
    fn = em.func("vm_load_elf")
    # per loadable segment (the loop over the program headers), with temporaries expanded: the bytes file[offset : offset + filesz] are
    # recorded at vaddr + base, and the page span reserved for the segment runs up to vaddr + base + max(memsz, filesz) rounded up to a
    # page - the virtual size, not the file size: the tail of a segment whose memsz exceeds filesz (.bss) is mapped and zero
    from sa.astutil import straightline_env, clone
    segl = [n for n in walk_body(fn) if isinstance(n, ast.For) and "phlist" in norm(n.iter)]
    ok = span_ok = False
    span_txt = "?"
    if segl:
        P = norm(segl[0].target)
        envs = straightline_env([st for st in segl[0].body if not isinstance(st, ast.If)])

        def X(e):
            class _T(ast.NodeTransformer):
                def visit_Name(self, nm):
                    if isinstance(nm.ctx, ast.Load) and nm.id in envs:
                        return clone(envs[nm.id])
                    return nm
            return _T().visit(clone(e))
        for st in segl[0].body:
            if isinstance(st, ast.Assign) and isinstance(st.targets[0], ast.Subscript) and norm(st.targets[0].value) == "all_data":
                k_, v_ = norm(X(st.targets[0].slice)), norm(X(st.value))
                ok = k_.replace(" ", "") in (("%s.ph.vaddr+base_addr" % P), ("base_addr+%s.ph.vaddr" % P)) and \
                    v_.replace(" ", "") == ("elf._content[%s.ph.offset:%s.ph.offset+%s.ph.filesz]" % (P, P, P))
            tup = None
            if isinstance(st, ast.AugAssign) and norm(st.target) == "i" and isinstance(st.value, ast.List) and st.value.elts and isinstance(st.value.elts[0], ast.Tuple):
                tup = st.value.elts[0]
            if isinstance(st, ast.Expr) and isinstance(st.value, ast.Call) and isinstance(st.value.func, ast.Attribute) and st.value.func.attr in ("append", "add") \
                    and st.value.args and isinstance(st.value.args[0], ast.Tuple):
                tup = st.value.args[0]
            if tup is not None and len(tup.elts) == 2:
                hi = norm(X(tup.elts[1])).replace(" ", "")
                span_txt = hi
                covers_virtual = ("max(%s.ph.memsz,%s.ph.filesz)" % (P, P)) in hi or ("max(%s.ph.filesz,%s.ph.memsz)" % (P, P)) in hi or \
                    (("%s.ph.memsz" % P) in hi and ("%s.ph.filesz" % P) not in hi and "len(" not in hi)
                rounded = "+4095" in hi and ("&~4095" in hi or "&-4096" in hi)
                span_ok = covers_virtual and rounded
    ck.ob("R3", "vm_load_elf:segment-bytes", ok, em.where(fn), "segment bytes must be file[offset:offset+filesz] stored at vaddr + base_addr")
    ck.ob("R3", "vm_load_elf:segment-span", span_ok, em.where(fn),
          "the pages reserved for a segment end at `%s`: they must reach vaddr + base + max(memsz, filesz), rounded up to a page (the part "
          "of the virtual size beyond the file size is zero-filled memory the program uses)" % span_txt[:120])
    zero = any(isinstance(c, ast.Call) and dotted(c.func) == "vm.add_memory_page" and len(c.args) > 2 and norm(c.args[2]).startswith("b'\\x00' *")
               for c in walk_body(fn))
    wr = any(isinstance(n, ast.For) and "all_data" in norm(n.iter) and any(isinstance(c, ast.Call) and dotted(c.func) == "vm.set_mem"
                                                                          for c in walk_local(n)) for n in walk_body(fn))
    ck.ob("R3", "vm_load_elf:zero-fill-then-write", zero and wr, em.where(fn), "pages must be zero filled and then receive every segment's bytes")


class _Prefixed(object):
    """the checker handle with every rule id prefixed (to run another property's rule set inside this one)"""
    def __init__(self, ck, pre):
        self._ck, self._pre = ck, pre

    def rule(self, rid, *a, **k):
        return self._ck.rule(self._pre + rid, *a, **k)

    def ob(self, rid, *a, **k):
        return self._ck.ob(self._pre + rid, *a, **k)

    def undet(self, rid, *a, **k):
        return self._ck.undet(self._pre + rid, *a, **k)

    def __getattr__(self, name):
        return getattr(self._ck, name)


def _import_registry_rules(ck):
    """"every resolved import slot points to a stub address that maps back to that imported function": the registry of stub addresses
    (loader/utils.py: libimp) is the subject of C45; its whole rule set is run here as well under the ids I-R1 .. I-R6 (cursor bounded
    and advancing, forward and reverse maps written together, a new key gets its address from the cursor only, tables filled under
    the key they were probed with)."""
    from rules import c45
    c45.run(_Prefixed(ck, "I-"))
