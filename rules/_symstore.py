"""Store discipline of SymbolMngr (shared by C12 and C13): universal path obligations over SymbolMngr.write / read /
__delitem__ / __contains__.

 write: from the `dst.is_mem()` branch every path to the normal exit passes the call symbols_mem.write(dst.ptr, src) with
        these very arguments (no bypass on dst == src or on membership: the byte map itself drops self-written bytes,
        and it must see every store so that older overlapping bytes are replaced)
        from the `dst.is_id()` branch every path to the normal exit either stores symbols_id[dst] = src, or removes
        symbols_id[dst], or has established that dst is not in symbols_id; removal / nothing only where dst == src
        is known; no path returns before that choice
        any other destination raises
 read:  ids default to themselves (symbols_id.get(src, src)); memory goes to symbols_mem.read(src.ptr, src.size)
 dispatch agreement: read / write / __delitem__ / __contains__ all split on is_id / is_mem and use the matching table
"""
import ast

from sa.astutil import walk_body, walk_local, dotted, norm, callee_attr
from sa.cfg import CFG, node_calls
from sa.pathob import undischarged, path_text
from sa.facts import guard_facts, has_cmp

SE = "miasm/ir/symbexec.py"


def _is_call(t, recv_pred, name):
    return isinstance(t, ast.Call) and isinstance(t.func, ast.Attribute) and t.func.attr == name and recv_pred(norm(t.func.value))


def symstore_rules(ck, rid):
    m = ck.repo.mod(SE)
    w = m.func("SymbolMngr.write")
    params = [a.arg for a in w.args.args]
    ck.need(len(params) == 3, "SymbolMngr.write: signature changed")
    dst, src = params[1], params[2]
    cfg = CFG(w)
    facts = guard_facts(cfg)
    mem_tests = [n for n in cfg.nodes if n.kind == "test" and _is_call(n.ast, lambda r: r == dst, "is_mem")]
    id_tests = [n for n in cfg.nodes if n.kind == "test" and _is_call(n.ast, lambda r: r == dst, "is_id")]
    ck.need(mem_tests and id_tests, "SymbolMngr.write: the is_id()/is_mem() split on the destination was not found")

    def is_mem_write(nd):
        for c in node_calls(nd):
            if dotted(c.func) == "self.symbols_mem.write" and len(c.args) == 2 and norm(c.args[0]) == dst + ".ptr" and norm(c.args[1]) == src:
                return True
        return False
    # ---- memory branch
    for t in mem_tests:
        p = undischarged(cfg, is_mem_write, start=(t.id, True))
        ck.ob(rid, "SymbolMngr.write:mem:every-path-stores", p is None, m.where(t.ast),
              "a memory destination can leave write() without symbols_mem.write(%s.ptr, %s): %s - older bytes overlapping the "
              "cell stay in the byte map and are read back (the most recent write must win)" % (dst, src, path_text(p) if p else ""))
        # nothing else touches the byte map on the memory branch (a removal instead of a store keeps partial overlaps)
        other = []
        reach = set()
        stack = [b for (b, l) in cfg.succ[t.id] if l is True]
        while stack:
            a = stack.pop()
            if a in reach:
                continue
            reach.add(a)
            stack.extend(b for (b, _l) in cfg.succ[a])
        for a in reach:
            nd = cfg.nodes[a]
            if nd.kind == "stmt" and isinstance(nd.ast, ast.Delete) and any("symbols_mem" in norm(x) for x in nd.ast.targets):
                other.append(nd)
        ck.ob(rid, "SymbolMngr.write:mem:no-removal-instead-of-store", not other, m.where(other[0].ast if other else t.ast),
              "the memory branch removes `%s` from the byte map instead of writing: membership means wholly stored, so a partially "
              "stored cell keeps its stale bytes" % (norm(other[0].ast) if other else ""))
    # ---- identifier branch
    def id_store(nd):
        a = nd.ast
        return nd.kind == "stmt" and isinstance(a, ast.Assign) and norm(a.targets[0]) == "self.symbols_id[%s]" % dst and norm(a.value) == src

    def id_del(nd):
        a = nd.ast
        if nd.kind == "stmt" and isinstance(a, ast.Delete) and any(norm(x) == "self.symbols_id[%s]" % dst for x in a.targets):
            return True
        return any(dotted(c.func) == "self.symbols_id.pop" and c.args and norm(c.args[0]) == dst for c in node_calls(nd))

    def absent_edge(nd, label):
        if nd.kind != "test":
            return False
        t = nd.ast
        if isinstance(t, ast.Compare) and len(t.ops) == 1 and norm(t.left) == dst and norm(t.comparators[0]) == "self.symbols_id":
            if isinstance(t.ops[0], ast.In) and label is False:
                return True
            if isinstance(t.ops[0], ast.NotIn) and label is True:
                return True
        return False
    for t in id_tests:
        p = undischarged(cfg, lambda nd: id_store(nd) or id_del(nd), edge_ok=absent_edge, start=(t.id, True))
        ck.ob(rid, "SymbolMngr.write:id:every-path-updates", p is None, m.where(t.ast),
              "a register destination can leave write() with its old entry still in symbols_id: %s - an assignment that gives a "
              "location its initial value back must erase the tracked value" % (path_text(p) if p else ""))
    # a path may reach the exit before the kind split (early return)
    p = undischarged(cfg, lambda nd: nd in mem_tests or nd in id_tests or False)
    ck.ob(rid, "SymbolMngr.write:no-exit-before-dispatch", p is None, m.where(w),
          "write() can return before looking at the destination kind: %s" % (path_text(p) if p else ""))
    # removal only under dst == src
    for nd in cfg.nodes:
        if id_del(nd):
            f = facts.get(nd.id, frozenset())
            ok = has_cmp(f, dst, "==", src)
            ck.ob(rid, "SymbolMngr.write:id:removal-only-for-identity", ok, m.where(nd.ast),
                  "symbols_id[%s] is removed where %s == %s is not known" % (dst, dst, src))
    # any other kind raises
    last_else = undischarged(cfg, lambda nd: id_store(nd) or id_del(nd) or is_mem_write(nd),
                             edge_ok=lambda nd, l: absent_edge(nd, l) or (nd in id_tests and l is True) or (nd in mem_tests and l is True))
    ck.ob(rid, "SymbolMngr.write:other-kind-raises", last_else is None, m.where(w),
          "a destination that is neither identifier nor memory is silently ignored: %s" % (path_text(last_else) if last_else else ""))
    # ---- read
    r = m.func("SymbolMngr.read")
    rs = r.args.args[1].arg
    ok_id = any(isinstance(n, ast.Return) and n.value is not None and norm(n.value) == "self.symbols_id.get(%s, %s)" % (rs, rs) for n in walk_body(r))
    ok_mem = any(isinstance(n, ast.Return) and n.value is not None and norm(n.value) == "self.symbols_mem.read(%s.ptr, %s.size)" % (rs, rs) for n in walk_body(r))
    ck.ob(rid, "SymbolMngr.read:id-defaults-to-itself", ok_id, m.where(r), "an identifier without entry must read as itself")
    ck.ob(rid, "SymbolMngr.read:mem-through-byte-map", ok_mem, m.where(r), "a memory read must go through symbols_mem.read(ptr, size)")
    # ---- dispatch agreement
    for name in ("__delitem__", "__contains__", "read", "write"):
        f = m.func("SymbolMngr." + name)
        par = f.args.args[1].arg
        c2 = CFG(f)
        for nd in c2.nodes:
            if nd.kind != "test" or not isinstance(nd.ast, ast.Call) or not isinstance(nd.ast.func, ast.Attribute) or norm(nd.ast.func.value) != par:
                continue
            kind = nd.ast.func.attr
            if kind not in ("is_id", "is_mem"):
                continue
            want, other = ("symbols_id", "symbols_mem") if kind == "is_id" else ("symbols_mem", "symbols_id")
            # the statements of the true branch (up to the join) use the matching table
            for (b, l) in c2.succ[nd.id]:
                if l is not True:
                    continue
                seen, stack, used = set(), [b], set()
                while stack:
                    a = stack.pop()
                    if a in seen or a == c2.exit.id:
                        continue
                    seen.add(a)
                    n2 = c2.nodes[a]
                    if n2.kind == "test" and isinstance(n2.ast, ast.Call) and isinstance(n2.ast.func, ast.Attribute) and n2.ast.func.attr in ("is_id", "is_mem") and n2 is not nd:
                        continue
                    if n2.ast is not None and n2.kind in ("stmt", "test"):
                        t = norm(n2.ast)
                        for tab in ("symbols_id", "symbols_mem"):
                            if "self." + tab in t:
                                used.add(tab)
                    if n2.kind == "stmt" and isinstance(n2.ast, (ast.Return, ast.Raise)):
                        continue
                    stack.extend(x for (x, _l) in c2.succ[a])
                ck.ob(rid, "SymbolMngr.%s:%s-uses-%s" % (name, kind, want), other not in used and (want in used), m.where(nd.ast),
                      "the %s() branch of %s uses %s" % (kind, name, sorted(used) or "no table"))
