"""C40 - constant propagation preserves behaviour: necessary clauses.

 R1 the "is constant" predicate must reject anything containing a memory read (memory is mutable between
    the definition and the use of the propagated value)
 R2 SymbolicState.merge keeps only bindings present and equal in both states
 R3 only identifiers are substituted, and the sources of an assignment block are rewritten with the state
    *before* that block is executed
 R4 states reaching a block along several paths are merged, never overwritten
"""
import ast

from sa.astutil import walk_body, walk_local, dotted, norm, callee_attr, cmp_parts
from sa.cfg import CFG, node_calls

CP = "miasm/analysis/cst_propag.py"
SE = "miasm/ir/symbexec.py"
LEVEL_TEXT = ("Rules over cst_propag.py and SymbolicState.merge: accepted element kinds of the constant predicate, "
              "intersection-and-equality shape of merge, rewrite-before-execute ordering, merge-on-join. Necessary "
              "conditions; propagation results are not evaluated.")
LEVEL_TEXT += ' Also: the end-of-block state is handed to every possible destination that is not a memory cell (path obligation).'
ASSUMPTIONS = ["CPython ast"]


def run(ck):
    ck.rule("R1", "is_expr_cst accepts only integers and initial-register identifiers", floor=1)
    ck.rule("R2", "SymbolicState.merge keeps a binding only when both states hold it with equal values", floor=1)
    ck.rule("R3", "only identifiers are substituted; sources are rewritten before the block is executed", floor=1)
    ck.rule("R4", "a second state for a block is merged with the first", floor=1)
    ck.rule("R6", "is_expr_cst examines the identifiers inside memory pointers too (get_r(mem_read=True))", floor=1)
    m = ck.repo.mod(CP)
    _f6 = m.func("is_expr_cst")
    _ep6 = _f6.args.args[1].arg
    _calls6 = [c for c in walk_body(_f6) if isinstance(c, ast.Call) and isinstance(c.func, ast.Attribute) and c.func.attr == "get_r" and norm(c.func.value) == _ep6]
    ck.ob("R6", "is_expr_cst:reads-pointer-identifiers", bool(_calls6) and all(any(k.arg == "mem_read" and isinstance(k.value, ast.Constant) and k.value.value is True
                                                                                  for k in c.keywords) for c in _calls6), m.where(_f6),
          "is_expr_cst collects the leaves of the expression without mem_read=True: the identifiers a memory pointer is built from are not examined, "
          "so `@32[ESI]` with a non-initial ESI counts as a constant expression and is propagated past a redefinition of ESI")
    ck.rule("R5", "the end-of-block state is handed to every possible destination that is not a memory cell", floor=1)
    _successor_rules(ck)

    m = ck.repo.mod(CP)
    fn = m.func("is_expr_cst")
    from sa.astutil import Resolver as _Res
    _r = _Res(fn)
    # the leaves accepted as constant, whatever the spelling: `for leaf in L: if T: continue ... return False` or `all(T1 or T2 .. for leaf in L)`
    accepted, iters = [], []
    for lp in [n for n in walk_body(fn) if isinstance(n, ast.For)]:
        iters.append(lp.iter)
        for s_ in lp.body:
            if isinstance(s_, ast.If) and any(isinstance(x, ast.Continue) for x in s_.body):
                accepted.append(norm(s_.test))
    for c in [n for n in walk_body(fn) if isinstance(n, ast.Call) and dotted(n.func) == "all" and n.args and isinstance(n.args[0], (ast.GeneratorExp, ast.ListComp))]:
        g = c.args[0]
        iters.append(g.generators[0].iter)
        e = g.elt
        accepted.extend(norm(v) for v in (e.values if isinstance(e, ast.BoolOp) and isinstance(e.op, ast.Or) else [e]))
    ck.need(iters, "is_expr_cst: enumeration of the expression's leaves not found")
    mem_ok = [a for a in accepted if "is_mem()" in a or "ExprMem" in a]
    reads_mem = any("mem_read=True" in norm(_r.expand_node(it)) for it in iters)
    ck.ob("R1", "is_expr_cst:memory", not mem_ok and reads_mem, m.where(fn),
          "is_expr_cst treats a memory read as constant (`%s`): a value loaded before a store to the same cell is propagated past "
          "the store" % (mem_ok[0] if mem_ok else "memory elements are not even enumerated"))
    sm = ck.repo.mod(SE)
    fn = sm.func("SymbolicState.merge")
    txt = norm(ast.Module(body=fn.body, type_ignores=[]))
    inter = any(isinstance(c, ast.Call) and isinstance(c.func, ast.Attribute) and c.func.attr == "intersection" for c in walk_body(fn)) or "&" in txt
    ck.ob("R2", "SymbolicState.merge:intersection", inter, sm.where(fn), "merge does not restrict itself to keys present in both states")
    eq = False
    for n in walk_body(fn):
        if isinstance(n, ast.If):
            p = cmp_parts(n.test)
            if p and p[1] == "==" and "[" in norm(p[0]) and "[" in norm(p[2]) and norm(p[0]) != norm(p[2]):
                if any(isinstance(s, ast.Assign) and isinstance(s.targets[0], ast.Subscript) for s in n.body):
                    eq = True
    ck.ob("R2", "SymbolicState.merge:equal-values", eq, sm.where(fn), "merge keeps a binding whose values differ between the two states")
    fn = m.func("SymbExecStateFix.propag_expr_cst")
    # every store into the substitution table happens where the leaf is known to be an identifier and its value to satisfy is_expr_cst
    from sa.facts import guard_facts as _gf
    pcfg = CFG(fn)
    pf = _gf(pcfg)
    sts = [nd for nd in pcfg.nodes if nd.kind == "stmt" and isinstance(nd.ast, ast.Assign) and isinstance(nd.ast.targets[0], ast.Subscript)]
    ok = bool(sts)
    for nd in sts:
        f = pf.get(nd.id, frozenset())
        leaf = norm(nd.ast.targets[0].slice)
        is_id = ("true", "%s.is_id()" % leaf) in f
        cst = any(x[0] == "true" and "is_expr_cst(" in x[1] for x in f)
        ok = ok and is_id and cst
    if not sts:
        # the same table written as comprehensions (possibly chained through temporaries): every filter on the way from the leaves to the
        # table is collected; there must be an identifier filter on the leaf and an is_expr_cst filter on its value
        from sa.astutil import Resolver as _Rp
        rp = _Rp(fn)
        tab = None
        for c in walk_body(fn):
            if isinstance(c, ast.Call) and isinstance(c.func, ast.Attribute) and c.func.attr == "replace_expr" and c.args:
                tab = rp.expand_node(c.args[0])
        filters = []
        key_is_leaf = False
        if tab is not None:
            for x in ast.walk(tab):
                if isinstance(x, ast.comprehension):
                    filters.extend(norm(f_) for f_ in x.ifs)
            key_is_leaf = isinstance(tab, ast.DictComp)
        import re as _rp
        ok = key_is_leaf and any(_rp.match(r"^\w+\.is_id\(\)$", f_) for f_ in filters) and any("is_expr_cst(" in f_ and not f_.startswith("not ") for f_ in filters)
    ck.ob("R3", "propag_expr_cst", ok, m.where(fn), "substitution must be limited to identifiers whose value satisfies is_expr_cst")
    fn = m.func("SymbExecStateFix.eval_updt_irblock")
    loops = [n for n in walk_body(fn) if isinstance(n, ast.For) and "enumerate(irb)" in norm(n.iter)]
    ok = False
    if loops:
        cfg = CFG(loops[0].body)
        rew = [nd for nd in cfg.nodes if any(dotted(c.func) == "self.propag_expr_cst" for c in node_calls(nd))]
        ex = [nd for nd in cfg.nodes if any(dotted(c.func) == "self.eval_updt_assignblk" for c in node_calls(nd))]
        ok = bool(rew) and bool(ex) and not any(cfg.can_reach(e.id, r.id) for e in ex for r in rew)
    ck.ob("R3", "eval_updt_irblock:rewrite-before-execute", ok, m.where(fn),
          "an assignment block is executed before its sources are rewritten: the sources would be rewritten with values the block itself assigns")
    fn = m.func("add_state")
    # per path of add_state (sa/symval): what is finally stored under the block's key K, depending on whether K was already known
    from sa import symval as _sv
    ps_ = [a.arg for a in fn.args.args]
    st_p, state_p = ps_[2], ps_[4]
    merged = fresh = False
    bad_ = []
    for pth in _sv.paths(fn.body, limit=32):
        stores = [(norm(k), norm(v)) for k, v in pth.env.items()] if False else []
        # the last store into the table on this path (assignments to subscripts are kept as effects `__store__(target, value)`)
        last = None
        for e in pth.effects:
            if isinstance(e, ast.Call) and norm(e.func) == "__store__" and len(e.args) == 2 and isinstance(e.args[0], ast.Subscript) and norm(e.args[0].value) == st_p:
                last = e
        if last is None:
            bad_.append("a path [%s] leaves add_state without recording a state for the block" % ", ".join("%s is %s" % (norm(t), b) for t, b in pth.conds))
            continue
        K = norm(last.args[0].slice)
        V = norm(last.args[1])
        known = None
        for t, b in pth.conds:
            tt_ = norm(t)
            if tt_ == "%s in %s" % (K, st_p):
                known = b
            elif tt_ == "%s not in %s" % (K, st_p):
                known = not b
        if known is True:
            if V in ("%s[%s].merge(%s)" % (st_p, K, state_p), "%s.merge(%s[%s])" % (state_p, st_p, K)):
                merged = True
            else:
                bad_.append("key already known: stores `%s`" % V)
        elif known is False:
            if V == state_p:
                fresh = True
            else:
                bad_.append("new key: stores `%s`" % V)
        else:
            bad_.append("stores `%s` without knowing whether the block was reached before" % V)
    ok = merged and fresh and not bad_
    ck.ob("R4", "add_state", ok, m.where(fn), "a state reaching an already visited block replaces the recorded one instead of being merged with it")


def _successor_rules(ck):
    """R5: compute_cst_propagation_states joins the state leaving a block into the state of every block it can continue in.  On every
    path of the loop over the possible destinations, add_state(...) is called, the only bypass being a destination known to be a memory
    cell.  A destination skipped for another reason (not an integer: the offset-less locations of the internal blocks of an instruction;
    unknown to the location table) leaves its successor with a state that is not an over-approximation of what reaches it - constants
    that do not hold on that path are then propagated."""
    from sa.cfg import CFG, node_calls
    from sa.pathob import undischarged, path_text
    m = ck.repo.mod(CP)
    fn = m.func("compute_cst_propagation_states")
    cfg = CFG(fn)
    loops = [nd for nd in cfg.nodes if nd.kind == "for" and "possible_values" in norm(nd.ast.iter)]
    ck.need(loops, "compute_cst_propagation_states: loop over the possible destinations not found")
    L = loops[0]
    adds = [nd for nd in cfg.nodes if any(norm(c.func) == "add_state" for c in node_calls(nd))]

    def is_mem_edge(nd, label):
        if nd.kind != "test":
            return False
        t, lab = nd.ast, label
        while isinstance(t, ast.UnaryOp) and isinstance(t.op, ast.Not):
            t, lab = t.operand, (not lab if lab in (True, False) else lab)
        return isinstance(t, ast.Call) and isinstance(t.func, ast.Attribute) and t.func.attr == "is_mem" and lab is True
    p = undischarged(cfg, lambda nd: nd in adds, edge_ok=is_mem_edge, start=(L.id, "iter"), targets=[L.id])
    ck.ob("R5", "compute_cst_propagation_states:every-destination-gets-the-state", bool(adds) and p is None, m.where(L.ast),
          "a possible destination can be passed over without add_state (path: %s): the block it designates keeps a state that does not "
          "account for this predecessor" % (path_text(p) if p else "add_state not found"))
