"""C07 - Python-source and expression-source translations are faithful.

 R1 operator-table agreement over TranslatorPython: the operator token emitted into the Python source is
    looked up in the semantics of Python 3 integer operators ('/' is true division; '//' integer); with the
    final mask this must be the reference meaning (OT-0); parity, equality and rotations are compared with
    their reference skeleton
 R1b shapes: slice = (x >> start) & mask(stop-start); compose = OR of (part & mask(size)) << position;
    conditional = src1 if cond else src2; memory(ptr, bytes)
 R2 construction translator field completeness: every TranslatorMiasm.from_Expr* emits the constructor of the
    same class with all identity fields in constructor order, strings through repr
"""
import ast
import re

from sa.astutil import walk_body, walk_local, dotted, norm, callee_attr, str_elts
from sa.dispatch import op_branches, tok_consts
from sa.optable import OT0, PY3
from sa.exprmodel import ExprModel, KINDS

PY = "miasm/ir/translators/python.py"
MI = "miasm/ir/translators/miasm_ir.py"
LEVEL_TEXT = ("Token-level semantics of the Python operators emitted by TranslatorPython compared with the reference operator "
              "table; skeletons of parity/rotation/equality; shape rules for slice/compose/cond; field completeness and order "
              "of the construction-source templates against the Expr classes' fields. Evaluates no emitted source.")
ASSUMPTIONS = ["CPython ast; Python 3 integer operator semantics (sa/optable.PY3)", "identifier values are non-negative integers below 2^size"]
# after `& mask` an unbounded Python shift / arithmetic on non-negative ints is the modular operation
MASKED = {"ADD": "ADD", "SUB": "SUB", "MUL": "MUL", "XOR": "XOR", "AND": "AND", "OR": "OR", "UDIV": "UDIV", "UREM": "UREM",
          "LSHR": "LSHR_SAT", "SHL": "SHL_SAT", "POW": "POW"}


def run(ck):
    em = ExprModel(ck.repo)
    m = ck.repo.mod(PY)
    cls = m.cls("TranslatorPython")
    fn = m.func("TranslatorPython.from_ExprOp")
    ck.rule("R1", "each operator token emitted into Python source means the reference operation once masked", floor=14)
    ck.rule("R1b", "slice/compose/cond/memory shapes of the emitted Python source", floor=4)
    ck.rule("R2", "the construction translator emits the same class with every identity field in constructor order", floor=8)

    consts = tok_consts(ck.repo)
    brs = op_branches(fn, m, cls, consts=consts)
    ck.need(brs, "TranslatorPython.from_ExprOp: no operator branch extracted")
    for b in brs:
        body = norm(ast.Module(body=list(b["body"]), type_ignores=[]))
        if b["kind"] == "in" and len(b["ops"]) > 2:
            # the generic branch: token (possibly remapped) joined between arguments, then masked
            remap = {}
            for n in walk_local(ast.Module(body=list(b["body"]), type_ignores=[])):
                if isinstance(n, ast.Assign) and isinstance(n.value, ast.IfExp) and isinstance(n.value.test, ast.Compare) and \
                        norm(n.value.test.left) == "expr.op" and isinstance(n.value.body, ast.Constant) and norm(n.value.orelse) == "expr.op":
                    remap[n.value.test.comparators[0].value] = n.value.body.value
                if isinstance(n, ast.Assign) and isinstance(n.value, ast.Call) and isinstance(n.value.func, ast.Attribute) and n.value.func.attr == "get" \
                        and isinstance(n.value.func.value, ast.Dict) and norm(n.value.args[0]) == "expr.op":
                    for k, v in zip(n.value.func.value.keys, n.value.func.value.values):
                        remap[k.value] = v.value
            masked = body.count("(1 << expr.size) - 1") >= 2 and "& 0x%x" in body
            for op in b["ops"]:
                tok = remap.get(op, op)
                got = MASKED.get(PY3.get(tok, "?"), PY3.get(tok, "?" + tok))
                ref = "SUB" if op == "-" else OT0.get(op)
                ck.ob("R1", "python:%s" % op, got == ref and masked, m.where(b["node"]),
                      "operator %r is emitted as the Python token %r = %s%s; miasm's meaning is %s"
                      % (op, tok, got, "" if masked else " without the final mask", ref))
            continue
        for op in b["ops"]:
            t = body.replace(" ", "")
            if op == "parity":
                ok = "&255" in t.replace("0xff", "255") and ("count('1')" in t) and ("+1)&1" in t.replace("0x1", "1"))
                ck.ob("R1", "python:parity", ok, m.where(b["node"]),
                      "parity is emitted as `%s`: it must be 1 for an even number of set bits in the low byte" % body.strip()[:80])
            elif op == "==":
                ok = "ExprCond(expr.args[0]-expr.args[1],ExprInt(0,1),ExprInt(1,1))" in t
                ck.ob("R1", "python:==", ok, m.where(b["node"]), "equality must be emitted as ((a - b) ? 0 : 1)")
            elif op in ("<<<", ">>>"):
                ok = "amount=expr.args[1]%ExprInt(amount_raw.size,expr.size)" in t and "amount_inv=ExprInt(expr.size,expr.size)-amount" in t and \
                    "ifexpr.op=='<<<':\namount,amount_inv=(amount_inv,amount)" in t and \
                    "part1='(%s>>%s)'%(self.from_expr(expr.args[0]),self.from_expr(amount))" in t and \
                    "part2='(%s<<%s)'%(self.from_expr(expr.args[0]),self.from_expr(amount_inv))" in t and "int(expr.mask)" in t
                ck.ob("R1", "python:%s" % op, ok, m.where(b["node"]),
                      "rotation must be ((x >> s) | (x << (size - s))) & mask with s = count mod size (amounts exchanged for <<<)")
            else:
                ck.ob("R1", "python:%s" % op, False, m.where(b["node"]), "operator %r is translated but has no reference skeleton" % op)

    meths = m.methods("TranslatorPython")
    t = norm(ast.Module(body=meths["from_ExprSlice"].body, type_ignores=[])).replace(" ", "")
    ok = "out='(%s>>%d)'%(out,expr.start)" in t and "return'(%s&0x%x)'%(out,(1<<expr.stop-expr.start)-1)" in t
    ck.ob("R1b", "slice", ok, m.where(meths["from_ExprSlice"]), "a slice must be emitted as ((x >> start) & (2^(stop-start) - 1))")
    t = norm(ast.Module(body=meths["from_ExprCompose"].body, type_ignores=[])).replace(" ", "")
    ok = "forindex,arginexpr.iter_args():" in t and "'((%s&0x%x)<<%d)'%(self.from_expr(arg),(1<<arg.size)-1,index)" in t and "'|'.join(out)" in t
    ck.ob("R1b", "compose", ok, m.where(meths["from_ExprCompose"]), "a compose must be emitted as the OR of ((part & mask) << position)")
    t = norm(ast.Module(body=meths["from_ExprCond"].body, type_ignores=[])).replace(" ", "")
    ok = "'(%sif(%s)else%s)'%(self.from_expr(expr.src1),self.from_expr(expr.cond),self.from_expr(expr.src2))" in t
    ck.ob("R1b", "cond", ok, m.where(meths["from_ExprCond"]), "a conditional must be emitted as (src1 if (cond) else src2)")
    t = norm(ast.Module(body=meths["from_ExprMem"].body, type_ignores=[])).replace(" ", "")
    ok = "'memory(%s,0x%x)'%(self.from_expr(expr.ptr),expr.size//8)" in t
    ck.ob("R1b", "mem", ok, m.where(meths["from_ExprMem"]), "a memory read must be emitted as memory(ptr, size in bytes)")

    # ---------------------------------------------------------------- R2
    mm = ck.repo.mod(MI)
    tm = mm.methods("TranslatorMiasm")
    for k in KINDS:
        if k == "ExprLoc":
            continue     # the property excludes expressions with locations
        f = tm.get("from_" + k)
        if f is None:
            ck.ob("R2", "TranslatorMiasm.from_%s" % k, False, mm.where(mm.cls("TranslatorMiasm")), "no from_%s" % k)
            continue
        rets = [n for n in walk_body(f) if isinstance(n, ast.Return)]
        v = rets[0].value if rets else None
        ok = False
        detail = "template not recognised"
        if isinstance(v, ast.BinOp) and isinstance(v.op, ast.Mod) and isinstance(v.left, ast.Constant):
            tpl = v.left.value
            args = v.right.elts if isinstance(v.right, ast.Tuple) else [v.right]
            head = re.match(r"^(\w+)\(", tpl)
            fields = em.fields[k]
            got = []
            local = {}
            for s in walk_body(f):
                if isinstance(s, ast.Assign) and isinstance(s.targets[0], ast.Name):
                    local[s.targets[0].id] = s.value
            for a in args:
                a2 = local.get(a.id, a) if isinstance(a, ast.Name) else a
                fm = [x.attr for x in walk_local(a2) if isinstance(x, ast.Attribute) and norm(x.value) == "expr" and x.attr in fields]
                if not fm:
                    for nm in [x.id for x in walk_local(a2) if isinstance(x, ast.Name) and x.id in local]:
                        fm += [x.attr for x in walk_local(local[nm]) if isinstance(x, ast.Attribute) and norm(x.value) == "expr" and x.attr in fields]
                if not fm and isinstance(a2, ast.Call) and callee_attr(a2) == "int" and norm(a2.args[0]) == "expr":
                    fm = ["arg"]
                got.append(fm[0] if fm else "?")
            str_fields = [fl for fl in fields if fl in ("name", "op")]
            repr_ok = all(any(isinstance(a, ast.Call) and callee_attr(a) == "repr" and norm(a.args[0]) == "expr." + sf for a in args) for sf in str_fields)
            ok = bool(head) and head.group(1) == k and got == fields and repr_ok and tpl.count("%") == len(args)
            detail = "emits `%s` from fields %s (strings through repr: %s); the constructor takes %s" % (tpl, got, repr_ok, fields)
        ck.ob("R2", "TranslatorMiasm.from_%s" % k, ok, mm.where(f), detail)
