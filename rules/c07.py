"""C07 - Python-source and expression-source translations are faithful.

 R1 operator-table agreement over TranslatorPython: the operator token emitted into the Python source is
    looked up in the semantics of Python 3 integer operators ('/' is true division; '//' integer); with the
    final mask this must be the reference meaning (OT-0); parity, equality and rotations are compared with
    their reference skeleton
 R1b shapes: slice = (x >> start) & mask(stop-start); compose = OR of (part & mask(size)) << position;
    conditional = src1 if cond else src2; memory(ptr, bytes)
 R2 construction translator field completeness: every TranslatorMiasm.from_Expr* emits the constructor of the
    same class with all identity fields in constructor order, strings through repr
"""
import ast
import re

from sa.astutil import walk_body, walk_local, dotted, norm, callee_attr, str_elts
from sa.dispatch import op_branches, tok_consts
from sa.optable import OT0, PY3
from sa.exprmodel import ExprModel, KINDS

PY = "miasm/ir/translators/python.py"
MI = "miasm/ir/translators/miasm_ir.py"
LEVEL_TEXT = ("Token-level semantics of the Python operators emitted by TranslatorPython compared with the reference operator "
              "table; skeletons of parity/rotation/equality; shape rules for slice/compose/cond; field completeness and order "
              "of the construction-source templates against the Expr classes' fields. Evaluates no emitted source.")
TABLES = {}
ASSUMPTIONS = ["CPython ast; Python 3 integer operator semantics (sa/optable.PY3)", "identifier values are non-negative integers below 2^size"]
# after `& mask` an unbounded Python shift / arithmetic on non-negative ints is the modular operation
MASKED = {"ADD": "ADD", "SUB": "SUB", "MUL": "MUL", "XOR": "XOR", "AND": "AND", "OR": "OR", "UDIV": "UDIV", "UREM": "UREM",
          "LSHR": "LSHR_SAT", "SHL": "SHL_SAT", "POW": "POW"}


def _emitted(fn, op=None, tables=None):
    """[(conds, skeleton text, holes, parts)] of the strings a translator method returns (specialised for operator `op`)."""
    from sa.symval import paths, op_decider
    from sa.templ import flatten, skeleton
    dec = op_decider(("expr.op",), op) if op is not None else None
    if dec is not None and tables:
        base = dec

        def dec(t, base=base):
            if isinstance(t, ast.Compare) and len(t.ops) == 1 and isinstance(t.ops[0], (ast.In, ast.NotIn)) and norm(t.left) == "expr.op" \
                    and norm(t.comparators[0]) in tables:
                return (op in tables[norm(t.comparators[0])]) == isinstance(t.ops[0], ast.In)
            return base(t)
    out = []

    class Spec(ast.NodeTransformer):
        def visit_IfExp(self, n):
            d = dec(n.test) if dec is not None else None
            self.generic_visit(n)
            return n.body if d is True else n.orelse if d is False else n

        def visit_Attribute(self, n):
            if op is not None and norm(n) == "expr.op":
                return ast.Constant(value=op)
            self.generic_visit(n)
            return n
    for p in paths(fn.body, decide=dec):
        if p.kind != "return":
            continue
        parts = flatten(Spec().visit(p.value))
        sk, holes = skeleton(parts)
        out.append((p.conds, sk, holes, parts))
    return out


def _ir(text):
    """Canonical text of an IR-expression-building Python expression (spaces removed, operand widths unified)."""
    t = text.replace(" ", "")
    for a in ("expr.args[1].size", "expr.args[0].size"):
        t = t.replace(a, "expr.size")
    return t


def _composite(ck, m, fn, b, op):
    from sa.templ import unify
    em = [e for e in _emitted(fn, op, getattr(_composite, "tables", None)) if not any("op_no_translate" in norm(c) and v for c, v in e[0])]
    where = m.where(b["node"])
    if not em:
        ck.ob("R1", "python:%s" % op, False, where, "no returned source found for operator %r" % op)
        return
    ok_all = True
    detail = ""
    for conds, sk, holes, parts in em:
        if op == "parity":
            u = unify(sk, "((bin(X & 255).count('1') + 1) & 1)", "X")
            ok = u is not None and _ir(holes.get(u["X"], "")) == "self.from_expr(expr.args[0])"
            detail = "parity is emitted as `%s`: it must be 1 for an even number of set bits in the low byte of the operand" % sk
        elif op == "==":
            ok = sk.strip() in holes and _ir(holes[sk.strip()]) == "self.from_expr(ExprCond(expr.args[0]-expr.args[1],ExprInt(0,1),ExprInt(1,1)))"
            detail = "equality is emitted as `%s` %s: it must be ((a - b) ? 0 : 1)" % (sk, holes)
        elif op in ("<<<", ">>>"):
            u = unify(sk, "((X >> A) | (X << B)) & M", "XABM")
            ok = u is not None
            if ok:
                hx, ha, hb, hm = (_ir(holes.get(u[k], u[k])) for k in "XABM")
                cnt = "self.from_expr(expr.args[1]%ExprInt(expr.size,expr.size))"
                inv = "self.from_expr(ExprInt(expr.size,expr.size)-expr.args[1]%ExprInt(expr.size,expr.size))"
                want = (cnt, inv) if op == ">>>" else (inv, cnt)
                ok = hx == "self.from_expr(expr.args[0])" and (ha, hb) == want and hm in ("int(expr.mask)", "(1<<expr.size)-1", "expr.mask")
            detail = "rotation %r is emitted as `%s` with %s: it must be ((x >> s) | (x << (size - s))) & mask with s = count mod size (amounts exchanged for <<<)" % (op, sk, holes)
        else:
            ok = False
            detail = "operator %r is translated but has no reference skeleton" % op
        ok_all = ok_all and ok
        if not ok:
            break
    ck.ob("R1", "python:%s" % op, ok_all, where, detail)


def _shapes(ck, m, meths):
    from sa.templ import unify
    # slice
    f = meths["from_ExprSlice"]
    ok = True
    seen = 0
    for conds, sk, holes, parts in _emitted(f):
        seen += 1
        u = unify(sk, "(X >> S) & M", "XSM")
        if u is not None:
            ok = ok and _ir(holes[u["X"]]) == "self.from_expr(expr.arg)" and _ir(holes[u["S"]]) == "expr.start" and \
                _ir(holes[u["M"]]) in ("(1<<expr.stop-expr.start)-1", "(1<<(expr.stop-expr.start))-1")
            continue
        u = unify(sk, "X & M", "XM")
        # the unshifted form is only right when start is known to be 0 on that path
        zero = any(norm(c).replace(" ", "") in ("expr.start!=0", "expr.start") and v is False or norm(c).replace(" ", "") in ("expr.start==0", "notexpr.start") and v is True
                   for c, v in conds)
        ok = ok and u is not None and zero and _ir(holes[u["X"]]) == "self.from_expr(expr.arg)" and \
            _ir(holes[u["M"]]) in ("(1<<expr.stop-expr.start)-1", "(1<<(expr.stop-expr.start))-1")
    ck.ob("R1b", "slice", ok and seen > 0, m.where(f), "a slice must be emitted as ((x >> start) & (2^(stop-start) - 1))")
    # compose
    f = meths["from_ExprCompose"]
    ok = False
    for conds, sk, holes, parts in _emitted(f):
        js = [p for p in parts if p[0] == "join"]
        if len(js) != 1:
            continue
        j = js[0]
        from sa.templ import skeleton
        sep, _h = skeleton(list(j[1]))
        el, eh = skeleton(list(j[2]))
        tg = [x.strip() for x in j[3].strip("()").split(",")]
        u = unify(el, "(X & M) << P", "XMP")
        if u is None or len(tg) != 2 or sep.strip() != "|" or "iter_args()" not in j[4]:
            continue
        pos, arg = tg
        ok = _ir(eh[u["X"]]) == "self.from_expr(%s)" % arg and _ir(eh[u["M"]]) == "(1<<%s.size)-1" % arg and _ir(eh[u["P"]]) == pos and not j[5]
    ck.ob("R1b", "compose", ok, m.where(f), "a compose must be emitted as the OR of ((part & mask(part size)) << position) over iter_args()")
    # cond
    f = meths["from_ExprCond"]
    ok = False
    for conds, sk, holes, parts in _emitted(f):
        u = unify(sk, "(A if C else B)", "ACB")
        ok = u is not None and [_ir(holes[u[k]]) for k in "ACB"] == ["self.from_expr(expr.src1)", "self.from_expr(expr.cond)", "self.from_expr(expr.src2)"]
    ck.ob("R1b", "cond", ok, m.where(f), "a conditional must be emitted as (src1 if (cond) else src2)")
    f = meths["from_ExprMem"]
    ok = False
    for conds, sk, holes, parts in _emitted(f):
        u = unify(sk, "memory(P, N)", "PN")
        ok = u is not None and _ir(holes[u["P"]]) == "self.from_expr(expr.ptr)" and _ir(holes[u["N"]]) in ("expr.size//8", "expr.size>>3")
    ck.ob("R1b", "mem", ok, m.where(f), "a memory read must be emitted as memory(ptr, size in bytes)")


def run(ck):
    em = ExprModel(ck.repo)
    m = ck.repo.mod(PY)
    cls = m.cls("TranslatorPython")
    fn = m.func("TranslatorPython.from_ExprOp")
    ck.rule("R1", "each operator token emitted into Python source means the reference operation once masked", floor=7)
    ck.rule("R1b", "slice/compose/cond/memory shapes of the emitted Python source", floor=2)
    ck.rule("R2", "the construction translator emits the same class with every identity field in constructor order", floor=4)
    ck.rule("TC", "the translation memo table is private to the translator object, keyed by the expression itself, and filled by the class's own handler", floor=2)
    from rules._transcache import translator_cache_rules
    translator_cache_rules(ck, "TC")

    global TABLES
    tb = m.cls("TranslatorPython")
    TABLES = {}
    for st in tb.body:
        if isinstance(st, ast.Assign) and str_elts(st.value) is not None:
            TABLES["self." + norm(st.targets[0])] = str_elts(st.value)
    _composite.tables = TABLES
    consts = tok_consts(ck.repo)
    brs = op_branches(fn, m, cls, consts=consts)
    ck.need(brs, "TranslatorPython.from_ExprOp: no operator branch extracted")
    for b in brs:
        body = norm(ast.Module(body=list(b["body"]), type_ignores=[]))
        if b["kind"] == "in" and len(b["ops"]) > 2:
            # the generic branch: token (possibly remapped) joined between the translated arguments, then masked
            from sa.templ import skeleton
            for op in b["ops"]:
                got, masked, tok = "?", False, "?"
                for conds, sk, holes, parts in _emitted(fn, op, TABLES):
                    js = [p_ for p_ in parts if p_[0] == "join"]
                    if len(js) != 1:
                        continue      # the unary form of the branch
                    sep, _h = skeleton(list(js[0][1]))
                    tok = sep.strip()
                    rest, rh = skeleton([p_ if p_[0] != "join" else ("hole", "JOINED", "s") for p_ in parts])
                    from sa.templ import unify
                    u = unify(rest, "X & M", "XM")
                    masked = u is not None and rh.get(u["X"]) == "JOINED" and _ir(rh.get(u["M"], "")) in ("(1<<expr.size)-1", "int(expr.mask)", "expr.mask")
                    elem = js[0][2]
                    args_ok = "self.from_expr" in js[0][4] and "expr.args" in js[0][4] or (len(elem) == 1 and "self.from_expr" in elem[0][1])
                    masked = masked and args_ok
                got = MASKED.get(PY3.get(tok, "?"), PY3.get(tok, "?" + tok))
                ref = "SUB" if op == "-" else OT0.get(op)
                ck.ob("R1", "python:%s" % op, got == ref and masked, m.where(b["node"]),
                      "operator %r is emitted as the Python token %r = %s%s; miasm's meaning is %s"
                      % (op, tok, got, "" if masked else " without the final mask over the translated arguments", ref))
            continue
        for op in b["ops"]:
            _composite(ck, m, fn, b, op)

    meths = m.methods("TranslatorPython")
    _shapes(ck, m, meths)

    # ---------------------------------------------------------------- R2
    mm = ck.repo.mod(MI)
    tm = mm.methods("TranslatorMiasm")
    for k in KINDS:
        if k == "ExprLoc":
            continue     # the property excludes expressions with locations
        f = tm.get("from_" + k)
        if f is None:
            ck.ob("R2", "TranslatorMiasm.from_%s" % k, False, mm.where(mm.cls("TranslatorMiasm")), "no from_%s" % k)
            continue
        rets = [n for n in walk_body(f) if isinstance(n, ast.Return)]
        v = rets[0].value if rets else None
        ok = False
        detail = "template not recognised"
        if isinstance(v, ast.BinOp) and isinstance(v.op, ast.Mod) and isinstance(v.left, ast.Constant):
            tpl = v.left.value
            args = v.right.elts if isinstance(v.right, ast.Tuple) else [v.right]
            head = re.match(r"^(\w+)\(", tpl)
            fields = em.fields[k]
            got = []
            local = {}
            for s in walk_body(f):
                if isinstance(s, ast.Assign) and isinstance(s.targets[0], ast.Name):
                    local[s.targets[0].id] = s.value
            for a in args:
                a2 = local.get(a.id, a) if isinstance(a, ast.Name) else a
                fm = [x.attr for x in walk_local(a2) if isinstance(x, ast.Attribute) and norm(x.value) == "expr" and x.attr in fields]
                if not fm:
                    for nm in [x.id for x in walk_local(a2) if isinstance(x, ast.Name) and x.id in local]:
                        fm += [x.attr for x in walk_local(local[nm]) if isinstance(x, ast.Attribute) and norm(x.value) == "expr" and x.attr in fields]
                if not fm and isinstance(a2, ast.Call) and callee_attr(a2) == "int" and norm(a2.args[0]) == "expr":
                    fm = ["arg"]
                got.append(fm[0] if fm else "?")
            str_fields = [fl for fl in fields if fl in ("name", "op")]
            repr_ok = all(any(isinstance(a, ast.Call) and callee_attr(a) == "repr" and norm(a.args[0]) == "expr." + sf for a in args) for sf in str_fields)
            ok = bool(head) and head.group(1) == k and got == fields and repr_ok and tpl.count("%") == len(args)
            detail = "emits `%s` from fields %s (strings through repr: %s); the constructor takes %s" % (tpl, got, repr_ok, fields)
        ck.ob("R2", "TranslatorMiasm.from_%s" % k, ok, mm.where(f), detail)
