"""C48 - emulated allocators return fresh, non-overlapping mappings.

 R1 strict progress: a bump allocator's cursor after an allocation is strictly greater than the returned
    address for every request size including 0 (heap.next_addr, LinuxEnvironment.mmap)
 R2 must-map: every allocator path that takes an address from the heap cursor maps that address with
    add_memory_page - at least the requested size - before it can return
 R3 heap.vm_alloc: cursor -> map(addr, perm, size zero bytes) -> return addr, in that order
 (the refusal of overlapping mappings by add_memory_page itself is C24-R3)
"""
import ast

from sa.astutil import walk_body, walk_local, dotted, norm, callee_attr, const_value, linear, Resolver
from sa.cfg import CFG, node_calls

COM = "miasm/os_dep/common.py"
ENV = "miasm/os_dep/linux/environment.py"
WIN = "miasm/os_dep/win_api_x86_32.py"
LEVEL_TEXT = ("Static rules over the bump allocators: symbolic progress of the cursor update (align-up form needs a size "
              "term >= 1), must-map on every path from cursor read to exit with the same address and size. Decides these "
              "necessary clauses for every request sequence; allocates nothing.")
LEVEL_TEXT += ' Also: a guest-supplied address is returned as an allocation only under the must-fact that it is the base of an existing mapping.'
ASSUMPTIONS = ["CPython ast", "sizes are non-negative integers", "overlap refusal is provided by vm_add_memory_page (C24-R3)"]


def _ge1(node, fn):
    """Is the size term provably >= 1?"""
    if isinstance(node, ast.Constant) and isinstance(node.value, int):
        return node.value >= 1
    if isinstance(node, ast.Call) and callee_attr(node) == "max":
        return any(_ge1(a, fn) for a in node.args)
    if isinstance(node, ast.BinOp) and isinstance(node.op, ast.Add):
        return _ge1(node.left, fn) or _ge1(node.right, fn)
    if isinstance(node, ast.BoolOp) and isinstance(node.op, ast.Or):
        return _ge1(node.values[-1], fn)
    if isinstance(node, ast.Name):
        # rebound earlier to something >= 1 (size = max(size, 1) / if not size: size = 1)
        for n in walk_body(fn):
            if isinstance(n, ast.Assign) and any(isinstance(t, ast.Name) and t.id == node.id for t in n.targets):
                if _ge1(n.value, fn) and not isinstance(n.value, ast.Name):
                    par = getattr(n, "_parent", None)
                    if isinstance(par, ast.If):
                        t = norm(par.test)
                        if t in ("not %s" % node.id, "%s == 0" % node.id, "%s < 1" % node.id, "%s <= 0" % node.id):
                            return True
                    else:
                        return True
    return False


def _progress(expr, cursor, fn):
    """Decide strict progress of `cursor' = expr`. Returns (ok, why)."""
    e = expr
    # strip a trailing mask  X & M
    masked = False
    if isinstance(e, ast.BinOp) and isinstance(e.op, ast.BitAnd):
        masked = True
        e = e.left if cursor in norm(e.left) else e.right
    terms = []

    def flat(n):
        if isinstance(n, ast.BinOp) and isinstance(n.op, ast.Add):
            flat(n.left)
            flat(n.right)
        elif isinstance(n, ast.BinOp) and isinstance(n.op, ast.Sub):
            flat(n.left)
            terms.append(("neg", n.right))
        else:
            terms.append(("pos", n))
    flat(e)
    has_cursor = any(k == "pos" and norm(n) == cursor for k, n in terms)
    if not has_cursor:
        return None, "cursor update `%s` not of the form cursor + size (+ align - 1)" % norm(expr)
    rest = [(k, n) for k, n in terms if not (k == "pos" and norm(n) == cursor)]
    # align-up form: + ALIGN - 1
    align_terms = [n for k, n in rest if k == "pos" and ("align" in norm(n).lower())]
    minus_one = [n for k, n in rest if k == "neg" and norm(n) == "1"]
    size_terms = [n for k, n in rest if k == "pos" and n not in align_terms]
    if align_terms and minus_one:
        ok = any(_ge1(s, fn) for s in size_terms)
        return ok, ("align-up of cursor + %s: for a size of 0 and an aligned cursor the new cursor equals the returned "
                    "address" % " + ".join(norm(s) for s in size_terms))
    return any(_ge1(s, fn) for s in size_terms), "increment `%s` not provably >= 1" % " + ".join(norm(s) for s in size_terms)


def run(ck):
    ck.rule("R1", "the allocator cursor strictly advances for every request size, including 0", floor=1)
    ck.rule("R2", "an address taken from the heap cursor is mapped (same address, requested size) on every path before exit", floor=2)
    ck.rule("R3", "heap.vm_alloc maps what it returns", floor=1)
    _page_length_rules(ck)
    _fresh_address_rules(ck)
    ck.rule("R6", "the VM refuses a mapping that overlaps a mapped page: every page visited, two-sided disjointness test (shared with C24-R3)", floor=1)
    from sa import cast as _cast6
    from rules.c24 import overlap_predicate_rules
    overlap_predicate_rules(ck, _cast6.load(ck.repo, "miasm/jitter/vm_mngr.c"), "R6")

    cm = ck.repo.mod(COM)
    fn = cm.func("heap.next_addr")
    # final cursor and returned value as expressions of the cursor at entry (sequential substitution: temporaries, `ret = self.addr`,
    # two-step updates and `&=` are all followed)
    from sa.normal import state_after
    st_ = state_after(fn.body)
    final = st_.get("self.addr")
    ck.need(final is not None, "heap.next_addr: update of self.addr not found")
    ok, why = _progress(final, "self.addr", fn)
    if ok is None:
        from sa.repo import AnalysisError
        raise AnalysisError("heap.next_addr: " + why)
    # the returned value is the cursor before the update
    rets = [n for n in walk_body(fn) if isinstance(n, ast.Return)]
    ret_old = False
    if rets and rets[0].value is not None:
        rv = rets[0].value
        # value of the returned name at its definition: the entry cursor
        pre = state_after(fn.body[:1])
        ret_old = isinstance(rv, ast.Name) and rv.id in st_ and norm(st_[rv.id]) == "self.addr" and \
            any(isinstance(n, ast.Assign) and norm(n.targets[0]) == rv.id and norm(n.value) == "self.addr" for n in fn.body[:2] + [x for x in fn.body if isinstance(x, ast.Assign)][:1])
    ck.ob("R1", "heap.next_addr", bool(ok) and ret_old, cm.where(fn),
          why if not ok else "the returned address is not the cursor value saved before the update")
    em = ck.repo.mod(ENV)
    fn = em.func("LinuxEnvironment.mmap")
    augs = [n for n in walk_body(fn) if isinstance(n, ast.AugAssign) and dotted(n.target) == "self.mmap_current" and isinstance(n.op, ast.Add)]
    ck.need(augs, "LinuxEnvironment.mmap: advance of mmap_current not found")
    v = augs[0].value
    ok = False
    why = "increment `%s` not recognised as >= 1" % norm(v)
    if isinstance(v, ast.BinOp) and isinstance(v.op, ast.BitAnd):
        inner = v.left
        maskn = v.right
        okm, mval = const_value(maskn)
        if isinstance(inner, ast.BinOp) and isinstance(inner.op, ast.Add):
            okc, cval = const_value(inner.right)
            if okm and okc and isinstance(mval, int) and isinstance(cval, int):
                page = (~mval) + 1
                # (len + c) & ~(page-1) >= 1 for every len >= 0 iff c >= page
                ok = page > 0 and cval >= page
                why = "(%s) & %#x with added constant %#x: a zero length advances by %#x" % (norm(inner), mval & 0xffffffff, cval, (cval & mval))
    ck.ob("R1", "LinuxEnvironment.mmap", ok, em.where(fn), why)

    # ------------------------------------------------------------------ R2
    n_sites = 0
    for rel in [r for r in ck.repo.pyfiles("miasm/os_dep") if r.endswith(".py")]:
        m = ck.repo.mod(rel)
        for q, f in sorted(m.funcs.items()):
            if q.startswith("heap."):
                continue
            calls = [c for c in walk_body(f) if isinstance(c, ast.Call) and isinstance(c.func, ast.Attribute) and
                     c.func.attr == "next_addr" and "heap" in norm(c.func.value)]
            if not calls:
                continue
            cfg = CFG(f)
            for c in calls:
                par = getattr(c, "_parent", None)
                if not (isinstance(par, ast.Assign) and isinstance(par.targets[0], ast.Name)):
                    ck.ob("R2", "%s:next_addr" % q, False, m.where(c), "the address taken from the heap cursor is not kept")
                    continue
                var = par.targets[0].id
                size = norm(c.args[0]) if c.args else "?"
                n_sites += 1

                res_f = Resolver(f)

                def maps(nd, var=var, size=size, res_f=res_f):
                    for k in node_calls(nd):
                        if isinstance(k.func, ast.Attribute) and k.func.attr == "add_memory_page" and k.args and norm(k.args[0]) == var:
                            # the page content may be a named temporary (`data = b"\x00" * size`)
                            data = res_f.expand(k.args[2]) if len(k.args) > 2 else ""
                            return size in data
                    return False
                ok = True
                for nd in cfg.node_containing(c):
                    if not cfg.must_pass(maps, targets=[cfg.exit.id], from_node=nd.id)[cfg.exit.id]:
                        ok = False
                ck.ob("R2", "%s:%s=next_addr(%s)" % (q, var, size), ok, m.where(c),
                      "`%s = ...next_addr(%s)` can reach the end of %s without add_memory_page(%s, ..., <%s bytes>): the returned "
                      "region is not mapped (or smaller than requested)" % (var, size, q, var, size))
    ck.need(n_sites >= 3, "fewer than 3 direct users of heap.next_addr found (%d)" % n_sites)

    # ------------------------------------------------------------------ R3
    fn = cm.func("heap.vm_alloc")
    cfg = CFG(fn)
    sp = fn.args.args[2].arg
    cur = [nd for nd in cfg.nodes if any(dotted(c.func) == "self.next_addr" and c.args and norm(c.args[0]) == sp for c in node_calls(nd))]
    ok = False
    if cur and isinstance(cur[0].ast, ast.Assign):
        var = norm(cur[0].ast.targets[0])
        res3 = Resolver(fn)
        mp = [nd for nd in cfg.nodes if any(isinstance(c.func, ast.Attribute) and c.func.attr == "add_memory_page" and c.args and
                                            norm(c.args[0]) == var and len(c.args) > 2 and sp in res3.expand(c.args[2]) for c in node_calls(nd))]
        rets = [nd for nd in cfg.nodes if nd.kind == "stmt" and isinstance(nd.ast, ast.Return)]
        dom = cfg.dominators()
        ok = bool(mp) and bool(rets) and all(norm(r.ast.value) == var and any(x.id in dom[r.id] for x in mp) for r in rets)
    ck.ob("R3", "heap.vm_alloc", ok, cm.where(fn), "vm_alloc does not map the cursor address with the requested size before returning it")
    fn = cm.func("heap.alloc")
    ok = any(isinstance(n, ast.Return) and isinstance(n.value, ast.Call) and dotted(n.value.func) == "self.vm_alloc" for n in walk_body(fn))
    ck.ob("R3", "heap.alloc", ok, cm.where(fn), "heap.alloc does not delegate to vm_alloc")


def _lenof(e, res, depth=0):
    """('exact' | 'atmost', text of the length) of a bytes expression, or None when unknown."""
    if depth > 6:
        return None
    if isinstance(e, ast.BinOp) and isinstance(e.op, ast.Mult):
        for a, b in ((e.left, e.right), (e.right, e.left)):
            if isinstance(a, ast.Constant) and isinstance(a.value, (bytes, str)) and len(a.value) == 1:
                return ("exact", norm(b))
    if isinstance(e, ast.Call) and isinstance(e.func, ast.Attribute) and e.func.attr == "read" and len(e.args) == 1:
        return ("atmost", norm(e.args[0]))
    if isinstance(e, ast.Call) and isinstance(e.func, ast.Attribute) and e.func.attr in ("ljust", "rjust") and e.args:
        return ("atleast", norm(e.args[0]))
    if isinstance(e, ast.Call) and isinstance(e.func, ast.Attribute) and e.func.attr == "get_mem" and len(e.args) == 2:
        return ("exact", norm(e.args[1]))
    if isinstance(e, ast.Name):
        defs = res.all_defs(e.id)
        if not defs:
            return None
        got = [_lenof(d, res, depth + 1) for d in defs]
        if any(g is None for g in got):
            return None
        kinds = set(g[0] for g in got)
        lens = set(g[1] for g in got)
        if len(lens) != 1:
            return None
        return ("exact" if kinds == set(["exact"]) else ("atmost" if "atmost" in kinds else "atleast"), lens.pop())
    return None


def _page_length_rules(ck):
    """R4: "the region returned is mapped for at least the requested size": every page an allocator of the emulated OS creates is
    built from a bytes value whose length is exactly known (`b"\\x00" * n`), never from something that may come out shorter (a file
    read hitting end-of-file): mmap of a file past its end must still map len_ bytes (zero filled)."""
    from sa.astutil import Resolver
    ck.rule("R4", "a page created by an allocator has a provably exact length (zero-filled, then written), never the length of a short read", floor=4)
    for rel in ("miasm/os_dep/linux/environment.py", "miasm/os_dep/common.py", "miasm/os_dep/win_api_x86_32.py"):
        m = ck.repo.mod(rel)
        for q, fn in sorted(m.funcs.items()):
            calls = [c for c in walk_body(fn) if isinstance(c, ast.Call) and callee_attr(c) == "add_memory_page" and len(c.args) >= 3]
            if not calls:
                continue
            res = Resolver(fn)
            for c in calls:
                ln = _lenof(c.args[2], res)
                if ln is None:
                    ck.note("R4: length of `%s` in %s not inferred" % (norm(c.args[2])[:40], q))
                    continue
                ck.ob("R4", "%s:add_memory_page(%s)" % (q, norm(c.args[0])[:20]), ln[0] in ("exact", "atleast"), m.where(c),
                      "the page is created from `%s`, whose length is at most %s: a file mapping that runs past the end of the file "
                      "leaves the tail of the returned region unmapped" % (norm(c.args[2])[:40], ln[1]))


def _fresh_address_rules(ck):
    """R5: an address a Windows allocation entry point returns to the guest is either taken from the heap cursor (and mapped, R2) or -
    when the guest supplied it - known to be the BASE of an existing mapping (`addr in vm.get_all_memory()`, whose keys are the mapping
    bases).  `vm.is_mapped(addr, size)` says only that the bytes exist: an address inside somebody else's live allocation passes it and
    would be handed out a second time."""
    from sa.cfg import CFG, node_calls
    from sa.facts import guard_facts
    from sa.astutil import Resolver
    ck.rule("R5", "a guest-supplied address is returned as an allocation only where it is known to be the base of an existing mapping", floor=1)
    wm = ck.repo.mod(WIN)
    n = 0
    for q, fn in sorted(wm.funcs.items()):
        if "." in q or "Alloc" not in q or not any(isinstance(c, ast.Call) and "heap" in (dotted(c.func) or "") for c in walk_body(fn)):
            continue
        rets = [c for c in walk_body(fn) if isinstance(c, ast.Call) and callee_attr(c) in ("func_ret_stdcall", "func_ret_cdecl") and len(c.args) >= 2]
        if not rets:
            continue
        cfg = CFG(fn)
        facts = guard_facts(cfg)
        res = Resolver(fn)
        for r_ in rets:
            v = r_.args[1]
            if not isinstance(v, ast.Name):
                continue
            for nd in cfg.nodes:
                a = nd.ast
                if nd.kind == "stmt" and isinstance(a, ast.Assign) and any(isinstance(t, ast.Name) and t.id == v.id for t in a.targets):
                    val = a.value
                    def outside_calls(e):
                        if isinstance(e, ast.Call):
                            return []
                        out_ = [e]
                        for ch_ in ast.iter_child_nodes(e):
                            out_.extend(outside_calls(ch_))
                        return out_
                    guest = any(isinstance(x, ast.Attribute) and isinstance(x.value, ast.Name) and x.value.id == "args" for x in outside_calls(val))
                    if not guest:
                        continue
                    n += 1
                    ok = False
                    from sa.facts import with_bool_temps
                    for ft in with_bool_temps(facts.get(nd.id, frozenset()), res):
                        if ft[0] == "cmp" and ft[2] == "in" and ft[1] == norm(val):
                            cont = ast.parse(ft[3], mode="eval").body
                            if norm(res.expand_node(cont)).endswith(".get_all_memory()"):
                                ok = True
                    ck.ob("R5", "%s:returns-guest-address:%s" % (q, norm(val)), ok, wm.where(a),
                          "`%s` (chosen by the guest) becomes the returned allocation without being known to be the base of an existing mapping: "
                          "an address inside a live allocation is handed out again" % norm(val))
    ck.ob("R5", "guest-address-returns-seen", n >= 1, WIN, "no allocation entry point returning a guest-supplied address found (extractor blind)")
