"""C10 - range analysis over-approximates every concrete value: two clauses only.

 R1 operator-table agreement: each entry of _op_range_handler applies the ModularIntervals operation of the
    same IR operator (operator -> Python operator / method -> _interval_* wrapper -> _range_* worker or
    shift/rotate tag), with the operands in order
 R2 sound default: identifiers, memory and every operator outside the table yield the full range; a
    conditional yields the union of both arms; modulo is refined only for a single-valued modulus; slices
    mask-then-shift; composes OR the shifted parts
 R3 multi-wrap workers (x*y, x<<s): once their overflow test holds, the returned interval is independent of the operand
    bounds (or the branch tests the operand span) - monotonicity is lost modulo 2^size
 (the rest of the interval arithmetic inside modularintervals.py is not decided)
"""
import ast

from sa.astutil import walk_body, walk_local, dotted, norm, callee_attr

ER = "miasm/analysis/expression_range.py"
MI = "miasm/analysis/modularintervals.py"
LEVEL_TEXT = ("Table agreement between expression_range's operator handlers and ModularIntervals' methods (resolved down to "
              "the _range_* worker / the shift-rotate tag) and default-to-top rules for everything the analysis does not "
              "model; overflow branches of the multiply / shift-left workers must not depend on the operand bounds. The rest of the "
              "workers' arithmetic is not decided.")
LEVEL_TEXT += ' Also: the interval primitives used by the range operations abandon a pairing of two closed members only on a strict hi < lo.'
ASSUMPTIONS = ["CPython ast", "reference meaning of the IR operators as in doc/expression (OT-0)"]

# IR operator -> (python operator class or method name, worker / tag the method must reach)
REF = {
    "+": ("Add", "_range_add"), "&": ("BitAnd", "_range_and"), "|": ("BitOr", "_range_or"), "^": ("BitXor", "_range_xor"),
    "*": ("Mult", "_range_mul"), "<<": ("LShift", "shift:<<"), ">>": ("RShift", "shift:>>"),
    "a>>": ("arithmetic_shift_right", "shift:a>>"), ">>>": ("rotation_right", "rotate:>>>"), "<<<": ("rotation_left", "rotate:<<<"),
}
DUNDER = {"Add": "__add__", "BitAnd": "__and__", "BitOr": "__or__", "BitXor": "__xor__", "Mult": "__mul__", "LShift": "__lshift__",
          "RShift": "__rshift__"}


def run(ck):
    em = ck.repo.mod(ER)
    mm = ck.repo.mod(MI)
    ck.rule("R1", "each range handler applies the interval operation of its own operator", floor=6)
    ck.rule("R2", "unknown inputs and unmodelled operators yield the full range; conditionals the union of their arms", floor=4)
    _structural_rules(ck)
    ck.rule("R5", "the interval primitives the range operations are built on treat bounds as closed (shared with C26-R7)", floor=1)
    from rules.c26 import closed_bound_rules
    closed_bound_rules(ck, "R5")

    table = em.const("_op_range_handler")
    ck.need(isinstance(table, ast.Dict), "_op_range_handler is not a dict literal")
    # class-level wrappers: _interval_x = _range2interval(_range_x)
    wrappers = {}
    cls = mm.cls("ModularIntervals")
    for st in cls.body:
        if isinstance(st, ast.Assign) and isinstance(st.value, ast.Call) and callee_attr(st.value) in ("_range2interval", "_range2integer") and st.value.args:
            wrappers[norm(st.targets[0])] = norm(st.value.args[0])
    meths = mm.methods("ModularIntervals")

    def worker_of(method):
        f = meths.get(method)
        if f is None:
            return None
        for n in walk_body(f):
            if isinstance(n, ast.Return) and isinstance(n.value, ast.Call):
                d = dotted(n.value.func)
                if d and d.startswith("self."):
                    nm = d[5:]
                    if nm in wrappers:
                        return wrappers[nm]
                    if nm == "_interval_shift" and n.value.args and isinstance(n.value.args[0], ast.Constant):
                        return "shift:" + n.value.args[0].value
                    if nm == "_interval_rotate" and n.value.args and isinstance(n.value.args[0], ast.Constant):
                        return "rotate:" + n.value.args[0].value
        return None
    seen = set()
    for k, v in zip(table.keys, table.values):
        op = k.value if isinstance(k, ast.Constant) else norm(k)
        seen.add(op)
        ref = REF.get(op)
        if ref is None:
            ck.ob("R1", "handler:%s" % op, False, em.where(k), "operator %r has a range handler but no reference meaning: unclassified" % op)
            continue
        ok = False
        detail = "handler `%s` not a two-argument lambda" % norm(v)
        if isinstance(v, ast.Lambda) and len(v.args.args) == 2:
            x, y = v.args.args[0].arg, v.args.args[1].arg
            b = v.body
            got = None
            if isinstance(b, ast.BinOp) and norm(b.left) == x and norm(b.right) == y:
                got = type(b.op).__name__
                method = DUNDER.get(got)
            elif isinstance(b, ast.Call) and isinstance(b.func, ast.Attribute) and norm(b.func.value) == x and len(b.args) == 1 and norm(b.args[0]) == y:
                got = b.func.attr
                method = got
            else:
                method = None
            w = worker_of(method) if method else None
            ok = got == ref[0] and w == ref[1]
            detail = "operator %r is handled by `%s` (-> %s -> %s); the reference operation is %s -> %s" % (op, norm(b), got, w, ref[0], ref[1])
        ck.ob("R1", "handler:%s" % op, ok, em.where(k), detail)
    # the workers' shift/rotate tags are dispatched consistently
    for wname, tags in (("_range_shift_uniq", ("<<", ">>", "a>>")), ("_range_rotate_uniq", ("<<<", ">>>"))):
        f = meths.get(wname)
        ck.need(f is not None, "ModularIntervals.%s vanished" % wname)
        txt = norm(ast.Module(body=f.body, type_ignores=[]))
        ok = all(("'%s'" % t) in txt for t in tags)
        ck.ob("R1", "worker:%s" % wname, ok, mm.where(f), "%s does not distinguish the tags %s" % (wname, tags))

    # ---------------------------------------------------------------- R2
    fn = em.func("expr_range")
    ep = fn.args.args[0].arg
    full = "ModularIntervals(%s.size, [(0, max_bound)])" % ep
    ok = any(isinstance(n, ast.Assign) and norm(n.targets[0]) == "max_bound" and norm(n.value).replace(" ", "") == "(1<<%s.size)-1" % ep for n in walk_body(fn))
    ck.ob("R2", "max_bound", ok, em.where(fn), "the full range must be [0, 2^size - 1]")
    ok = False
    for n in walk_body(fn):
        if isinstance(n, ast.If) and "%s.is_id()" % ep in norm(n.test) and "%s.is_mem()" % ep in norm(n.test):
            ok = any(isinstance(s, ast.Return) and norm(s.value) == full for s in n.body)
    ck.ob("R2", "id-and-mem:full", ok, em.where(fn), "identifiers and memory must get the full range")
    from sa.astutil import arm_when, positive_test
    opb = [n for n in walk_body(fn) if isinstance(n, ast.If) and norm(positive_test(n)) == "%s.is_op()" % ep]
    # what runs when the node is an operator (the body of the test, or what follows a negated guard), up to its last statement
    op_region = arm_when(opb[0], True) if opb else []
    ok = bool(op_region) and isinstance(op_region[-1], ast.Return) and norm(op_region[-1].value) == full
    ck.ob("R2", "unmodelled-operator:full", ok, em.where(fn), "an operator without handler must fall through to the full range")
    ok = bool(op_region) and any(isinstance(n, ast.If) and norm(positive_test(n)) == "%s.op in _op_range_handler" % ep
                                 for n in walk_local(ast.Module(body=op_region, type_ignores=[])))
    ck.ob("R2", "table-guard", ok, em.where(fn), "handlers must be applied only to operators present in the table")
    ok = any(isinstance(n, ast.If) and norm(n.test) == "%s.is_cond()" % ep and any(
        isinstance(s, ast.Return) and norm(s.value) == "expr_range(%s.src1).union(expr_range(%s.src2))" % (ep, ep) for s in n.body) for n in walk_body(fn))
    ck.ob("R2", "cond:union", ok, em.where(fn), "a conditional's range must be the union of both arms' ranges")
    ok = any(isinstance(n, ast.If) and norm(n.test) == "mod.intervals.length == 1" for n in walk_body(fn))
    ck.ob("R2", "modulo:single-value-only", ok, em.where(fn), "modulo may be refined only when the modulus is a single value")
    ok = any(isinstance(n, ast.Return) and norm(n.value).replace(" ", "") == "((arg&interval_mask)>>%s.start).size_update(%s.size)" % (ep, ep) for n in walk_body(fn)) and \
        any(isinstance(n, ast.Assign) and norm(n.targets[0]) == "interval_mask" and norm(n.value).replace(" ", "") == "(1<<%s.start)-1^(1<<%s.stop)-1" % (ep, ep)
            for n in walk_body(fn))
    ck.ob("R2", "slice:mask-then-shift", ok, em.where(fn), "a slice's range must be ((arg & mask[start:stop]) >> start) resized")
    ok = any(isinstance(n, ast.AugAssign) and isinstance(n.op, ast.BitOr) and norm(n.value) == "sub_range.size_update(%s.size) << shift" % ep for n in walk_body(fn))
    ck.ob("R2", "compose:or-shifted", ok, em.where(fn), "a compose's range must OR each part resized and shifted to its position")
    ok = any(isinstance(n, ast.Return) and norm(n.value) == "ModularIntervals(%s.size, [(int(%s), int(%s))])" % (ep, ep, ep) for n in walk_body(fn))
    ck.ob("R2", "int:singleton", ok, em.where(fn), "a constant's range must be the singleton of its value")

    # ---------------------------------------------------------------- R3 multi-wrap overflow branches are operand-independent
    # x*y and x<<s can exceed the modulus many times: once the overflow test holds, the extreme operands no longer bound the
    # result (monotonicity is lost modulo 2^size), so what the branch returns may not be built from x_min/x_max/y_min/y_max -
    # unless the branch itself tests the span of the operand interval (a single-wrap refinement)
    ck.rule("R3", "after the overflow test of a multiply/shift-left worker the returned interval does not depend on the operand bounds", floor=1)
    from sa.astutil import straightline_env
    BOUNDS = set(["x_min", "x_max", "y_min", "y_max"])
    for q, f in sorted(mm.funcs.items()):
        if not q.startswith("ModularIntervals._range_"):
            continue
        pre_env = {}
        for n in walk_body(f):
            from sa.astutil import less_than as _lt
            if not (isinstance(n, ast.If) and isinstance(n.test, ast.Compare) and len(n.test.ops) == 1):
                continue
            # the overflow test: <bound derived from max_bound> < <tested quantity>  (any spelling, either polarity: the overflow region is
            # the arm taken when it holds - the body, or the else arm plus what follows a body that leaves the block)
            lt_, over_region = _lt(n.test, True), None
            if lt_ is not None and "max_bound" in norm(lt_[0]):
                over_region = list(n.body)
            else:
                lt_ = _lt(n.test, False)
                if lt_ is not None and "max_bound" in norm(lt_[0]):
                    over_region = list(n.orelse)
                    par0 = getattr(n, "_parent", None)
                    for fld0 in ("body", "orelse", "finalbody"):
                        sib0 = getattr(par0, fld0, None)
                        if isinstance(sib0, list) and n in sib0 and n.body and isinstance(n.body[-1], (ast.Return, ast.Raise, ast.Continue, ast.Break)):
                            over_region += sib0[sib0.index(n) + 1:]
            if over_region is None or not over_region:
                continue
            tested_node = lt_[1]
            # the tested quantity, with the locals defined before the test substituted
            par_body = getattr(n, "_parent", None)
            sibs = getattr(par_body, "body", []) if par_body is not None else []
            if n in getattr(par_body, "orelse", []):
                sibs = par_body.orelse
            before = sibs[:sibs.index(n)] if n in sibs else []
            env0 = straightline_env(before)
            lhs = tested_node
            if isinstance(lhs, ast.Name) and lhs.id in env0:
                lhs = env0[lhs.id]
            multi = any(isinstance(x, ast.BinOp) and isinstance(x.op, (ast.Mult, ast.LShift)) and (BOUNDS & set(
                y.id for y in ast.walk(x) if isinstance(y, ast.Name))) for x in ast.walk(lhs))
            if not multi:
                continue
            env = straightline_env(over_region, env0)
            span_guard = any(isinstance(t, ast.If) and {"x_min", "x_max"} <= set(y.id for y in ast.walk(t.test) if isinstance(y, ast.Name))
                             for t in walk_local(ast.Module(body=over_region, type_ignores=[])))
            bad = []
            # may-dependencies inside the branch: every assignment to a name (on any path of the branch) contributes
            branch = ast.Module(body=over_region, type_ignores=[])
            defs_in = {}
            for a_ in ast.walk(branch):
                if isinstance(a_, ast.Assign):
                    for t_ in a_.targets:
                        if isinstance(t_, ast.Name):
                            defs_in.setdefault(t_.id, []).append(a_.value)
                elif isinstance(a_, ast.AugAssign) and isinstance(a_.target, ast.Name):
                    defs_in.setdefault(a_.target.id, []).append(a_.value)

            def deps(name, seen):
                out = set([name])
                if name in seen:
                    return out
                seen = seen | set([name])
                srcs = list(defs_in.get(name, []))
                if name in env0 and name not in defs_in:
                    srcs.append(env0[name])
                for v_ in srcs:
                    for z in ast.walk(v_):
                        if isinstance(z, ast.Name):
                            out |= deps(z.id, seen)
                return out
            for r_ in walk_local(branch):
                if isinstance(r_, ast.Return) and r_.value is not None:
                    names = set()
                    for y in ast.walk(r_.value):
                        if isinstance(y, ast.Name):
                            names |= deps(y.id, set()) if y.id not in BOUNDS else set([y.id])
                    if names & BOUNDS:
                        bad.append("%s (uses %s)" % (norm(r_.value)[:60], sorted(names & BOUNDS)))
            ck.ob("R3", "%s:overflow-branch" % q.split(".")[-1], not bad or span_guard, mm.where(n),
                  "after `%s` the result is built from the operand bounds: %s; an operand strictly inside the interval can wrap "
                  "to a value outside it" % (norm(n.test), "; ".join(bad)))


def _structural_rules(ck):
    """R4: the structural cases of expr_range place each part at its own bit position.
    compose: the shift applied to the range of part k is the start offset of part k - taken from ExprCompose.iter_args()
             (the one provider of offsets), paired with the ranges by equal slices, or from a running sum that is a correct
             exclusive prefix sum (sa/prefixsum); the result has the width of the whole expression
    slice:   the range of the argument is shifted right by expr.start and masked to the slice's width"""
    from sa.astutil import Resolver
    from sa.prefixsum import accumulators
    ck.rule("R4", "expr_range places each part of a composition at its own start offset; slices are shifted by their start", floor=1)
    em = ck.repo.mod(ER)
    fn = em.func("expr_range")
    res = Resolver(fn)
    # the provider itself
    xm = ck.repo.mod("miasm/expression/expression.py")
    it = xm.func("ExprCompose.iter_args")
    accs = accumulators(it)
    ck.need(accs, "ExprCompose.iter_args: running offset not found")
    for a in accs:
        yielded_before = any(when == "before" and isinstance(getattr(x, "_parent", None), ast.Tuple) for x, when in a["uses"])
        ck.ob("R4", "ExprCompose.iter_args:exclusive-prefix-sum", a["ok"] and yielded_before, xm.where(a["stmt"]),
              "iter_args does not yield the start offset of each argument: %s" % (a["why"] or "the offset is not yielded before the update"))
    # compose branch of expr_range
    branch = None
    for n in ast.walk(fn):
        if isinstance(n, ast.If) and norm(n.test) in ("expr.is_compose()", "isinstance(expr, ExprCompose)"):
            branch = n
    ck.need(branch is not None, "expr_range: compose branch not found")
    body = ast.Module(body=branch.body, type_ignores=[])
    for a in accumulators(body):
        ck.ob("R4", "expr_range:compose:running-offset", a["ok"], em.where(a["stmt"]),
              "the running offset `%s` of the compose branch is not the start offset of the current part: %s" % (a["acc"], a["why"]))
    shifts = [n for n in walk_local(body) if isinstance(n, ast.BinOp) and isinstance(n.op, ast.LShift)]
    ck.need(shifts, "expr_range: compose branch no longer shifts the sub ranges")
    for sh in shifts:
        amount = sh.right
        ok = False
        why = "`%s` is not an offset provided by iter_args()" % norm(amount)
        if isinstance(amount, ast.Name):
            # loop variable of a for over zip(offsets[k:], ranges[k:]) or over iter_args()
            loop = getattr(sh, "_parent", None)
            while loop is not None and not isinstance(loop, ast.For):
                loop = getattr(loop, "_parent", None)
            accs_here = [a for a in accumulators(body) if a["acc"] == amount.id]
            if accs_here:
                ok = all(a["ok"] for a in accs_here)
                why = accs_here[0]["why"]
            elif loop is not None:
                tn = [x.id for x in ast.walk(loop.target) if isinstance(x, ast.Name)]
                itx = loop.iter
                if amount.id in tn and isinstance(itx, ast.Call) and dotted(itx.func) in ("zip", "izip") and len(itx.args) == len(tn):
                    pos = tn.index(amount.id)
                    srcs = []
                    for a_ in itx.args:
                        k = 0
                        base = a_
                        if isinstance(a_, ast.Subscript) and isinstance(a_.slice, ast.Slice) and a_.slice.upper is None:
                            lo = a_.slice.lower
                            k = lo.value if isinstance(lo, ast.Constant) else (0 if lo is None else None)
                            base = a_.value
                        srcs.append((res.expand_node(base), k))
                    off_src, k_off = srcs[pos]
                    from_iter = any(isinstance(c, ast.Call) and isinstance(c.func, ast.Attribute) and c.func.attr == "iter_args" for c in ast.walk(off_src))
                    first_comp = isinstance(off_src, (ast.ListComp, ast.GeneratorExp)) and (
                        (isinstance(off_src.elt, ast.Subscript) and norm(off_src.elt.slice) == "0") or
                        (isinstance(off_src.generators[0].target, ast.Tuple) and norm(off_src.elt) == norm(off_src.generators[0].target.elts[0])))
                    same_k = all(k == k_off for (_s, k) in srcs)
                    ok = from_iter and first_comp and same_k
                    if not from_iter:
                        why = "the offsets `%s` do not come from iter_args()" % norm(off_src)[:60]
                    elif not first_comp:
                        why = "`%s` does not select the offset component of iter_args()" % norm(off_src)[:60]
                    elif not same_k:
                        why = "offsets and ranges are zipped from different start indices %s: every part is placed at a neighbour's offset" % [k for (_s, k) in srcs]
                elif amount.id in tn and isinstance(itx, ast.Call) and isinstance(itx.func, ast.Attribute) and itx.func.attr == "iter_args":
                    ok = tn.index(amount.id) == 0
                    why = "the shift uses the argument, not the offset, of iter_args()"
        ck.ob("R4", "expr_range:compose:shift-is-start-offset", ok, em.where(sh), "in `%s`: %s" % (norm(sh)[:70], why))
    # slice branch
    sl = None
    for n in ast.walk(fn):
        if isinstance(n, ast.If) and norm(n.test) in ("expr.is_slice()", "isinstance(expr, ExprSlice)"):
            sl = n
    ck.need(sl is not None, "expr_range: slice branch not found")
    rets = [n for n in walk_local(ast.Module(body=sl.body, type_ignores=[])) if isinstance(n, ast.Return)]
    ok = False
    for r in rets:
        v = res.expand_node(r.value)
        for x in ast.walk(v):
            if isinstance(x, ast.BinOp) and isinstance(x.op, ast.RShift) and norm(x.right) == "expr.start":
                ok = True
    ck.ob("R4", "expr_range:slice:shifted-by-start", ok, em.where(sl), "the range of a slice is not the argument's range shifted right by expr.start")
