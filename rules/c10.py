"""C10 - range analysis over-approximates every concrete value: two clauses only.

 R1 operator-table agreement: each entry of _op_range_handler applies the ModularIntervals operation of the
    same IR operator (operator -> Python operator / method -> _interval_* wrapper -> _range_* worker or
    shift/rotate tag), with the operands in order
 R2 sound default: identifiers, memory and every operator outside the table yield the full range; a
    conditional yields the union of both arms; modulo is refined only for a single-valued modulus; slices
    mask-then-shift; composes OR the shifted parts
 R3 multi-wrap workers (x*y, x<<s): once their overflow test holds, the returned interval is independent of the operand
    bounds (or the branch tests the operand span) - monotonicity is lost modulo 2^size
 (the rest of the interval arithmetic inside modularintervals.py is not decided)
"""
import ast

from sa.astutil import walk_body, walk_local, dotted, norm, callee_attr

ER = "miasm/analysis/expression_range.py"
MI = "miasm/analysis/modularintervals.py"
LEVEL_TEXT = ("Table agreement between expression_range's operator handlers and ModularIntervals' methods (resolved down to "
              "the _range_* worker / the shift-rotate tag) and default-to-top rules for everything the analysis does not "
              "model; overflow branches of the multiply / shift-left workers must not depend on the operand bounds. The rest of the "
              "workers' arithmetic is not decided.")
LEVEL_TEXT += ' Also: the interval primitives used by the range operations abandon a pairing of two closed members only on a strict hi < lo.'
ASSUMPTIONS = ["CPython ast", "reference meaning of the IR operators as in doc/expression (OT-0)"]

# IR operator -> (python operator class or method name, worker / tag the method must reach)
REF = {
    "+": ("Add", "_range_add"), "&": ("BitAnd", "_range_and"), "|": ("BitOr", "_range_or"), "^": ("BitXor", "_range_xor"),
    "*": ("Mult", "_range_mul"), "<<": ("LShift", "shift:<<"), ">>": ("RShift", "shift:>>"),
    "a>>": ("arithmetic_shift_right", "shift:a>>"), ">>>": ("rotation_right", "rotate:>>>"), "<<<": ("rotation_left", "rotate:<<<"),
}
DUNDER = {"Add": "__add__", "BitAnd": "__and__", "BitOr": "__or__", "BitXor": "__xor__", "Mult": "__mul__", "LShift": "__lshift__",
          "RShift": "__rshift__"}


def run(ck):
    em = ck.repo.mod(ER)
    mm = ck.repo.mod(MI)
    ck.rule("R1", "each range handler applies the interval operation of its own operator", floor=6)
    ck.rule("R2", "unknown inputs and unmodelled operators yield the full range; conditionals the union of their arms", floor=4)
    _structural_rules(ck)
    ck.rule("R5", "the interval primitives the range operations are built on treat bounds as closed (shared with C26-R7)", floor=1)
    from rules.c26 import closed_bound_rules
    closed_bound_rules(ck, "R5")

    table = em.const("_op_range_handler")
    ck.need(isinstance(table, ast.Dict), "_op_range_handler is not a dict literal")
    # class-level wrappers: _interval_x = _range2interval(_range_x)
    wrappers = {}
    cls = mm.cls("ModularIntervals")
    for st in cls.body:
        if isinstance(st, ast.Assign) and isinstance(st.value, ast.Call) and callee_attr(st.value) in ("_range2interval", "_range2integer") and st.value.args:
            wrappers[norm(st.targets[0])] = norm(st.value.args[0])
    meths = mm.methods("ModularIntervals")

    def worker_of(method):
        f = meths.get(method)
        if f is None:
            return None
        for n in walk_body(f):
            if isinstance(n, ast.Return) and isinstance(n.value, ast.Call):
                d = dotted(n.value.func)
                if d and d.startswith("self."):
                    nm = d[5:]
                    if nm in wrappers:
                        return wrappers[nm]
                    if nm == "_interval_shift" and n.value.args and isinstance(n.value.args[0], ast.Constant):
                        return "shift:" + n.value.args[0].value
                    if nm == "_interval_rotate" and n.value.args and isinstance(n.value.args[0], ast.Constant):
                        return "rotate:" + n.value.args[0].value
        return None
    seen = set()
    for k, v in zip(table.keys, table.values):
        op = k.value if isinstance(k, ast.Constant) else norm(k)
        seen.add(op)
        ref = REF.get(op)
        if ref is None:
            ck.ob("R1", "handler:%s" % op, False, em.where(k), "operator %r has a range handler but no reference meaning: unclassified" % op)
            continue
        ok = False
        detail = "handler `%s` not a two-argument lambda" % norm(v)
        if isinstance(v, ast.Lambda) and len(v.args.args) == 2:
            x, y = v.args.args[0].arg, v.args.args[1].arg
            b = v.body
            got = None
            if isinstance(b, ast.BinOp) and norm(b.left) == x and norm(b.right) == y:
                got = type(b.op).__name__
                method = DUNDER.get(got)
            elif isinstance(b, ast.Call) and isinstance(b.func, ast.Attribute) and norm(b.func.value) == x and len(b.args) == 1 and norm(b.args[0]) == y:
                got = b.func.attr
                method = got
            else:
                method = None
            w = worker_of(method) if method else None
            ok = got == ref[0] and w == ref[1]
            detail = "operator %r is handled by `%s` (-> %s -> %s); the reference operation is %s -> %s" % (op, norm(b), got, w, ref[0], ref[1])
        ck.ob("R1", "handler:%s" % op, ok, em.where(k), detail)
    # the workers' shift/rotate tags are dispatched consistently
    for wname, tags in (("_range_shift_uniq", ("<<", ">>", "a>>")), ("_range_rotate_uniq", ("<<<", ">>>"))):
        f = meths.get(wname)
        ck.need(f is not None, "ModularIntervals.%s vanished" % wname)
        txt = norm(ast.Module(body=f.body, type_ignores=[]))
        ok = all(("'%s'" % t) in txt for t in tags)
        ck.ob("R1", "worker:%s" % wname, ok, mm.where(f), "%s does not distinguish the tags %s" % (wname, tags))

    # ---------------------------------------------------------------- R2 (per path of expr_range, temporaries substituted: sa/symval)
    fn = em.func("expr_range")
    ep = fn.args.args[0].arg
    _expr_range_paths(ck, em, fn, ep)

    # ---------------------------------------------------------------- R3 multi-wrap overflow branches are operand-independent
    # x*y and x<<s can exceed the modulus many times: once the overflow test holds, the extreme operands no longer bound the
    # result (monotonicity is lost modulo 2^size), so what the branch returns may not be built from x_min/x_max/y_min/y_max -
    # unless the branch itself tests the span of the operand interval (a single-wrap refinement)
    ck.rule("R3", "after the overflow test of a multiply/shift-left worker the returned interval does not depend on the operand bounds", floor=1)
    from sa.astutil import straightline_env
    BOUNDS = set(["x_min", "x_max", "y_min", "y_max"])
    for q, f in sorted(mm.funcs.items()):
        if not q.startswith("ModularIntervals._range_"):
            continue
        pre_env = {}
        for n in walk_body(f):
            from sa.astutil import less_than as _lt
            if not (isinstance(n, ast.If) and isinstance(n.test, ast.Compare) and len(n.test.ops) == 1):
                continue
            # the overflow test: <bound derived from max_bound> < <tested quantity>  (any spelling, either polarity: the overflow region is
            # the arm taken when it holds - the body, or the else arm plus what follows a body that leaves the block)
            lt_, over_region = _lt(n.test, True), None
            if lt_ is not None and "max_bound" in norm(lt_[0]):
                over_region = list(n.body)
            else:
                lt_ = _lt(n.test, False)
                if lt_ is not None and "max_bound" in norm(lt_[0]):
                    over_region = list(n.orelse)
                    par0 = getattr(n, "_parent", None)
                    for fld0 in ("body", "orelse", "finalbody"):
                        sib0 = getattr(par0, fld0, None)
                        if isinstance(sib0, list) and n in sib0 and n.body and isinstance(n.body[-1], (ast.Return, ast.Raise, ast.Continue, ast.Break)):
                            over_region += sib0[sib0.index(n) + 1:]
            if over_region is None or not over_region:
                continue
            tested_node = lt_[1]
            # the tested quantity, with the locals defined before the test substituted
            par_body = getattr(n, "_parent", None)
            sibs = getattr(par_body, "body", []) if par_body is not None else []
            if n in getattr(par_body, "orelse", []):
                sibs = par_body.orelse
            before = sibs[:sibs.index(n)] if n in sibs else []
            env0 = straightline_env(before)
            lhs = tested_node
            if isinstance(lhs, ast.Name) and lhs.id in env0:
                lhs = env0[lhs.id]
            multi = any(isinstance(x, ast.BinOp) and isinstance(x.op, (ast.Mult, ast.LShift)) and (BOUNDS & set(
                y.id for y in ast.walk(x) if isinstance(y, ast.Name))) for x in ast.walk(lhs))
            if not multi:
                continue
            env = straightline_env(over_region, env0)
            span_guard = any(isinstance(t, ast.If) and {"x_min", "x_max"} <= set(y.id for y in ast.walk(t.test) if isinstance(y, ast.Name))
                             for t in walk_local(ast.Module(body=over_region, type_ignores=[])))
            bad = []
            # may-dependencies inside the branch: every assignment to a name (on any path of the branch) contributes
            branch = ast.Module(body=over_region, type_ignores=[])
            defs_in = {}
            for a_ in ast.walk(branch):
                if isinstance(a_, ast.Assign):
                    for t_ in a_.targets:
                        if isinstance(t_, ast.Name):
                            defs_in.setdefault(t_.id, []).append(a_.value)
                elif isinstance(a_, ast.AugAssign) and isinstance(a_.target, ast.Name):
                    defs_in.setdefault(a_.target.id, []).append(a_.value)

            def deps(name, seen):
                out = set([name])
                if name in seen:
                    return out
                seen = seen | set([name])
                srcs = list(defs_in.get(name, []))
                if name in env0 and name not in defs_in:
                    srcs.append(env0[name])
                for v_ in srcs:
                    for z in ast.walk(v_):
                        if isinstance(z, ast.Name):
                            out |= deps(z.id, seen)
                return out
            for r_ in walk_local(branch):
                if isinstance(r_, ast.Return) and r_.value is not None:
                    names = set()
                    for y in ast.walk(r_.value):
                        if isinstance(y, ast.Name):
                            names |= deps(y.id, set()) if y.id not in BOUNDS else set([y.id])
                    if names & BOUNDS:
                        bad.append("%s (uses %s)" % (norm(r_.value)[:60], sorted(names & BOUNDS)))
            ck.ob("R3", "%s:overflow-branch" % q.split(".")[-1], not bad or span_guard, mm.where(n),
                  "after `%s` the result is built from the operand bounds: %s; an operand strictly inside the interval can wrap "
                  "to a value outside it" % (norm(n.test), "; ".join(bad)))


def _structural_rules(ck):
    """R4: the structural cases of expr_range place each part at its own bit position.
    compose: the shift applied to the range of part k is the start offset of part k - taken from ExprCompose.iter_args()
             (the one provider of offsets), paired with the ranges by equal slices, or from a running sum that is a correct
             exclusive prefix sum (sa/prefixsum); the result has the width of the whole expression
    slice:   the range of the argument is shifted right by expr.start and masked to the slice's width"""
    from sa.astutil import Resolver
    from sa.prefixsum import accumulators
    ck.rule("R4", "expr_range places each part of a composition at its own start offset; slices are shifted by their start", floor=1)
    em = ck.repo.mod(ER)
    fn = em.func("expr_range")
    res = Resolver(fn)
    # the provider itself
    xm = ck.repo.mod("miasm/expression/expression.py")
    it = xm.func("ExprCompose.iter_args")
    accs = accumulators(it)
    ck.need(accs, "ExprCompose.iter_args: running offset not found")
    for a in accs:
        yielded_before = any(when == "before" and isinstance(getattr(x, "_parent", None), ast.Tuple) for x, when in a["uses"])
        ck.ob("R4", "ExprCompose.iter_args:exclusive-prefix-sum", a["ok"] and yielded_before, xm.where(a["stmt"]),
              "iter_args does not yield the start offset of each argument: %s" % (a["why"] or "the offset is not yielded before the update"))
    # compose branch of expr_range
    branch = None
    for n in ast.walk(fn):
        if isinstance(n, ast.If) and norm(n.test) in ("expr.is_compose()", "isinstance(expr, ExprCompose)"):
            branch = n
    ck.need(branch is not None, "expr_range: compose branch not found")
    body = ast.Module(body=branch.body, type_ignores=[])
    for a in accumulators(body):
        ck.ob("R4", "expr_range:compose:running-offset", a["ok"], em.where(a["stmt"]),
              "the running offset `%s` of the compose branch is not the start offset of the current part: %s" % (a["acc"], a["why"]))
    shifts = [n for n in walk_local(body) if isinstance(n, ast.BinOp) and isinstance(n.op, ast.LShift)]
    ck.need(shifts, "expr_range: compose branch no longer shifts the sub ranges")
    for sh in shifts:
        amount = sh.right
        ok = False
        why = "`%s` is not an offset provided by iter_args()" % norm(amount)
        if isinstance(amount, ast.Name):
            # loop variable of a for over zip(offsets[k:], ranges[k:]) or over iter_args()
            loop = getattr(sh, "_parent", None)
            while loop is not None and not isinstance(loop, ast.For):
                loop = getattr(loop, "_parent", None)
            accs_here = [a for a in accumulators(body) if a["acc"] == amount.id]
            if accs_here:
                ok = all(a["ok"] for a in accs_here)
                why = accs_here[0]["why"]
            elif loop is not None:
                tn = [x.id for x in ast.walk(loop.target) if isinstance(x, ast.Name)]
                itx = loop.iter
                if amount.id in tn and isinstance(itx, ast.Call) and dotted(itx.func) in ("zip", "izip") and len(itx.args) == len(tn):
                    pos = tn.index(amount.id)
                    srcs = []
                    for a_ in itx.args:
                        k = 0
                        base = a_
                        if isinstance(a_, ast.Subscript) and isinstance(a_.slice, ast.Slice) and a_.slice.upper is None:
                            lo = a_.slice.lower
                            k = lo.value if isinstance(lo, ast.Constant) else (0 if lo is None else None)
                            base = a_.value
                        srcs.append((res.expand_node(base), k))
                    off_src, k_off = srcs[pos]
                    from_iter = any(isinstance(c, ast.Call) and isinstance(c.func, ast.Attribute) and c.func.attr == "iter_args" for c in ast.walk(off_src))
                    first_comp = isinstance(off_src, (ast.ListComp, ast.GeneratorExp)) and (
                        (isinstance(off_src.elt, ast.Subscript) and norm(off_src.elt.slice) == "0") or
                        (isinstance(off_src.generators[0].target, ast.Tuple) and norm(off_src.elt) == norm(off_src.generators[0].target.elts[0])))
                    same_k = all(k == k_off for (_s, k) in srcs)
                    ok = from_iter and first_comp and same_k
                    if not from_iter:
                        why = "the offsets `%s` do not come from iter_args()" % norm(off_src)[:60]
                    elif not first_comp:
                        why = "`%s` does not select the offset component of iter_args()" % norm(off_src)[:60]
                    elif not same_k:
                        why = "offsets and ranges are zipped from different start indices %s: every part is placed at a neighbour's offset" % [k for (_s, k) in srcs]
                elif amount.id in tn and isinstance(itx, ast.Call) and isinstance(itx.func, ast.Attribute) and itx.func.attr == "iter_args":
                    ok = tn.index(amount.id) == 0
                    why = "the shift uses the argument, not the offset, of iter_args()"
        ck.ob("R4", "expr_range:compose:shift-is-start-offset", ok, em.where(sh), "in `%s`: %s" % (norm(sh)[:70], why))
    # slice branch
    sl = None
    for n in ast.walk(fn):
        if isinstance(n, ast.If) and norm(n.test) in ("expr.is_slice()", "isinstance(expr, ExprSlice)"):
            sl = n
    ck.need(sl is not None, "expr_range: slice branch not found")
    rets = [n for n in walk_local(ast.Module(body=sl.body, type_ignores=[])) if isinstance(n, ast.Return)]
    ok = False
    for r in rets:
        v = res.expand_node(r.value)
        for x in ast.walk(v):
            if isinstance(x, ast.BinOp) and isinstance(x.op, ast.RShift) and norm(x.right) == "expr.start":
                ok = True
    ck.ob("R4", "expr_range:slice:shifted-by-start", ok, em.where(sl), "the range of a slice is not the argument's range shifted right by expr.start")



def _expr_range_paths(ck, em, fn, ep):
    """Each returning path of expr_range is classified by the node-kind facts it established and its value - with every temporary
    substituted - compared with the reference range of that kind.  A value of a kind the rule does not know is reported as not
    understood (exit 2); a range literal that is not the full range where the full range is due is a violation."""
    from sa import symval
    from sa.repo import AnalysisError
    E = ep
    FULL = "ModularIntervals(%s.size, [(0, (1 << %s.size) - 1)])" % (E, E)
    RANGES = "[expr_range(arg) for arg in %s.args]" % E
    where = em.where(fn)

    def facts(conds):
        out = {}

        def add(t, v):
            if isinstance(t, ast.BoolOp) and ((isinstance(t.op, ast.And) and v) or (isinstance(t.op, ast.Or) and not v)):
                for x in t.values:
                    add(x, v)
            elif isinstance(t, ast.UnaryOp) and isinstance(t.op, ast.Not):
                add(t.operand, not v)
            elif isinstance(t, ast.BoolOp) and isinstance(t.op, ast.Or) and v:
                out["|".join(sorted(norm(x) for x in t.values))] = True
            else:
                out[norm(t)] = v
        for t, v in conds:
            add(t, v)
        return out
    seen = set()
    for p in symval.paths(fn.body, env={}):
        if p.kind != "return" or p.value is None:
            continue
        f = facts(p.conds)
        v = norm(p.value)

        def T(x):
            return f.get(x) is True
        if T("%s.is_int()" % E):
            seen.add("int")
            ck.ob("R2", "int:singleton", v == "ModularIntervals(%s.size, [(int(%s), int(%s))])" % (E, E, E), where,
                  "a constant's range must be the singleton of its value, got `%s`" % v[:80])
        elif T("%s.is_id()" % E) or T("%s.is_mem()" % E) or T("%s.is_id()|%s.is_mem()" % (E, E)):
            seen.add("idmem")
            ck.ob("R2", "id-and-mem:full", v == FULL, where, "identifiers and memory must get the full range [0, 2^size - 1], got `%s`" % v[:80])
        elif T("%s.is_slice()" % E):
            seen.add("slice")
            m1 = "(1 << %s.start) - 1 ^ (1 << %s.stop) - 1" % (E, E)
            m2 = "(1 << %s.stop) - 1 ^ (1 << %s.start) - 1" % (E, E)
            okv = v in ["((expr_range(%s.arg) & (%s)) >> %s.start).size_update(%s.size)" % (E, mk, E, E) for mk in (m1, m2)] + \
                       ["(((%s) & expr_range(%s.arg)) >> %s.start).size_update(%s.size)" % (mk, E, E, E) for mk in (m1, m2)]
            ck.ob("R2", "slice:mask-then-shift", okv, where, "a slice's range must be ((arg & mask[start:stop]) >> start) resized, got `%s`" % v[:120])
        elif T("%s.is_compose()" % E):
            seen.add("compose")
            binds = [e_ for e_ in p.effects if isinstance(e_, ast.Call) and norm(e_.func) == "__bind__"]
            loops = [e_ for e_ in p.effects if isinstance(e_, ast.Call) and norm(e_.func) == "__loop__"]
            okv = False
            for b_ in binds:
                acc, val = norm(b_.args[0]), b_.args[1]
                if isinstance(val, ast.BinOp) and isinstance(val.op, ast.BitOr):
                    sides = [val.left, val.right]
                    other = [x for x in sides if norm(x) != acc]
                    if len(other) == 1 and isinstance(other[0], ast.BinOp) and isinstance(other[0].op, ast.LShift):
                        part, sh = other[0].left, norm(other[0].right)
                        if isinstance(part, ast.Call) and isinstance(part.func, ast.Attribute) and part.func.attr == "size_update" and norm(part.args[0]) == "%s.size" % E:
                            # where the shift amount and the part's range come from is C10-R4 (offsets of iter_args / running sum)
                            okv = True
            first = any(isinstance(n, ast.Call) and isinstance(n.func, ast.Attribute) and n.func.attr == "size_update" and norm(n.args[0]) == "%s.size" % E
                        and isinstance(n.func.value, ast.Subscript) and norm(n.func.value.slice) == "0" for n in walk_body(fn))
            ck.ob("R2", "compose:or-shifted", okv and first, where,
                  "a compose's range must be the OR of each part's range resized to the result and shifted to the part's own position")
        elif T("%s.is_op()" % E):
            if v.startswith("reduce("):
                seen.add("op-table")
                okv = T("%s.op in _op_range_handler" % E) and v == "reduce(_op_range_handler[%s.op], (sub_range for sub_range in %s[1:]), %s[0])" % (E, RANGES, RANGES)
                if not okv and T("%s.op in _op_range_handler" % E) and v.startswith("reduce(_op_range_handler[%s.op]," % E) and RANGES in v:
                    okv = True
                ck.ob("R2", "table-guard", okv, where, "handlers must be applied only to operators present in the table, to the ranges of all the operands in order")
            elif v == FULL:
                seen.add("op-full")
                ck.ob("R2", "unmodelled-operator:full", True, where, "")
            elif v.startswith("ModularIntervals("):
                seen.add("op-full")
                ck.ob("R2", "unmodelled-operator:full", False, where, "an operator without handler must fall through to the full range, got `%s`" % v[:80])
            elif v == "-expr_range(%s.args[0])" % E:
                seen.add("neg")
                ck.ob("R2", "unary-minus", T("%s.op == '-'" % E), where, "the negated range is returned for an operator that is not known to be '-'")
            elif " % " in v:
                seen.add("mod")
                okv = T("%s.op == '%%'" % E) and T("%s[1].intervals.length == 1" % RANGES) and v == "%s[0] %% %s[1].intervals.hull()[0]" % (RANGES, RANGES)
                ck.ob("R2", "modulo:single-value-only", okv, where, "modulo may be refined only when the modulus is a single value (dividend % that value)")
            else:
                raise AnalysisError("expr_range: operator path returns `%s`, a form this rule does not know" % v[:100])
        elif T("%s.is_cond()" % E):
            seen.add("cond")
            okv = v in ("expr_range(%s.src1).union(expr_range(%s.src2))" % (E, E), "expr_range(%s.src2).union(expr_range(%s.src1))" % (E, E))
            ck.ob("R2", "cond:union", okv, where, "a conditional's range must be the union of both arms' ranges, got `%s`" % v[:80])
        else:
            raise AnalysisError("expr_range: a returning path established no node kind (%s)" % sorted(f)[:6])
    missing = set(["int", "idmem", "slice", "compose", "op-table", "op-full", "cond"]) - seen
    ck.need(not missing, "expr_range: no returning path found for %s" % sorted(missing))
