"""C06 - SMT-LIB2 translation agrees with the reference semantics (ir/translators/smt2.py, expression/smt2_helper.py).

 R1 operator-table agreement: every branch of TranslatorSMT2.from_ExprOp is reduced to the smt2_helper
    function it applies; the helper is read through its template to the SMT-LIB head symbol it emits; the
    symbol's meaning in the bit-vector theory is compared with the reference meaning of the operator (OT-0).
    Composite translations (parity, zero counts, rotations) are compared with their z3 siblings' skeleton
    (zero-input case yielding the width, bit 0 counted, even parity = 1)
 R2 node kinds and shapes: all Expr classes; slice extract (stop-1, start); compose later-high; condition
    tested `distinct 0`
 R3 memory model: SMT2Mem.get addresses byte i at addr+i in both byte orders and concatenates in the
    configured order; every name used in a branch is bound on that branch
"""
import ast
import re

from sa.astutil import walk_body, walk_local, dotted, norm, callee_attr
from sa.dispatch import is_single_operand_branch, op_branches, tok_consts
from sa.optable import OT0, SMT2
from sa.exprmodel import KINDS
from sa.repo import AnalysisError

T = "miasm/ir/translators/smt2.py"
H = "miasm/expression/smt2_helper.py"
LEVEL_TEXT = ("Extraction of the SMT-LIB symbol emitted per operator branch (through the helper's format template) and "
              "comparison with the reference operator table using the SMT-LIB bit-vector theory's meaning of the symbol; "
              "sibling skeleton comparison for composite translations; shape rules; unbound-name rule in the memory model.")
ASSUMPTIONS = ["CPython ast", "SMT-LIB 2 bit-vector theory: bvsdiv truncates, bvsrem follows the dividend, bvsmod the divisor, shifts saturate",
               "OT-0 reference table in sa/optable.py"]


def _helper_symbols(hm):
    """helper function name -> SMT-LIB head symbol of its template (for one-template helpers)."""
    out = {}
    for name, fn in hm.funcs.items():
        rets = [n for n in walk_body(fn) if isinstance(n, ast.Return)]
        if len(rets) != 1:
            continue
        v = rets[0].value
        tpl = None
        if isinstance(v, ast.Call) and isinstance(v.func, ast.Attribute) and v.func.attr == "format" and isinstance(v.func.value, ast.Constant):
            tpl = v.func.value.value
            args = [norm(a) for a in v.args]
        elif isinstance(v, ast.BinOp) and isinstance(v.op, ast.Mod) and isinstance(v.left, ast.Constant):
            tpl = v.left.value
            args = [norm(a) for a in (v.right.elts if isinstance(v.right, ast.Tuple) else [v.right])]
        if tpl is None:
            continue
        mm = re.match(r"^\(\s*([^\s(){}]+)((?:\s+\{\})+)\s*\)$", tpl)
        if mm:
            params = [a.arg for a in fn.args.args]
            out[name] = (mm.group(1), args == params[:len(args)] and len(args) == tpl.count("{}"))
    return out


from rules import _composites as _cmp


def run(ck):
    m = ck.repo.mod(T)
    hm = ck.repo.mod(H)
    cls = m.cls("TranslatorSMT2")
    fn = m.func("TranslatorSMT2.from_ExprOp")
    ck.rule("R1", "each operator is translated to the SMT-LIB symbol of its reference meaning; composites match the reference skeleton", floor=14)
    ck.rule("R2", "every Expr class is translated; slice/compose/cond shapes", floor=6)
    ck.rule("R3", "memory bytes are addressed and concatenated in the configured byte order", floor=1)
    ck.rule("TC", "the translation memo table is private to the translator object, keyed by the expression itself, and filled by the class's own handler", floor=2)
    from rules._transcache import translator_cache_rules
    translator_cache_rules(ck, "TC")

    sym = _helper_symbols(hm)
    consts = tok_consts(ck.repo)
    n_br = 0
    for b in op_branches(fn, m, cls, consts=consts):
        n_br += 1
        unary = is_single_operand_branch(b)
        asg = [n for st in b["body"] for n in walk_local(st) if isinstance(n, ast.Assign) and norm(n.targets[0]) == "res"]
        for op in b["ops"]:
            key = ("u:" if unary else "b:") + op
            if not asg:
                ck.ob("R1", "smt2:%s" % key, False, m.where(b["node"]), "branch assigns nothing to res")
                continue
            v = asg[-1].value
            body = norm(ast.Module(body=list(b["body"]), type_ignores=[])).replace(" ", "")
            if not unary:
                ref = "SUB" if op == "-" else OT0.get(op)
                if isinstance(v, ast.Call) and isinstance(v.func, ast.Name) and v.func.id in sym and [norm(a) for a in v.args] == ["res", "arg"]:
                    s_, order_ok = sym[v.func.id]
                    got = SMT2.get(s_, "?" + s_)
                    ck.ob("R1", "smt2:%s" % key, got == ref and order_ok, m.where(b["node"]),
                          "operator %r is translated with %s -> `(%s a b)` = %s in SMT-LIB; miasm's meaning is %s" % (op, v.func.id, s_, got, ref))
                elif isinstance(v, ast.Call) and callee_attr(v) in ("bv_rotate_left", "bv_rotate_right"):
                    want = {"<<<": "bv_rotate_left", ">>>": "bv_rotate_right"}.get(op)
                    ok = callee_attr(v) == want and [norm(a) for a in v.args] == ["res", "arg", "expr.size"]
                    ck.ob("R1", "smt2:%s" % key, ok, m.where(b["node"]), "rotation %r is translated with %s" % (op, norm(v)))
                elif op == "==":
                    ok = body == "res=self.from_expr(ExprCond(expr.args[0]-expr.args[1],ExprInt(0,1),ExprInt(1,1)))"
                    ck.ob("R1", "smt2:%s" % key, ok, m.where(b["node"]), "equality must be (a - b) ? 0 : 1 on one bit")
                else:
                    raise AnalysisError("TranslatorSMT2.from_ExprOp: branch for %r not understood: %s" % (op, norm(v)[:60]))
            else:
                if op == "-":
                    ok = isinstance(v, ast.Call) and callee_attr(v) in sym and SMT2.get(sym[callee_attr(v)][0]) == "NEG" and [norm(a) for a in v.args] == ["res"]
                    ck.ob("R1", "smt2:%s" % key, ok, m.where(b["node"]), "unary minus must be bvneg")
                elif op == "parity":
                    _cmp.parity_rule(ck, "R1", "smt2", m.where(b["node"]))
                elif op in ("cnttrailzeros", "cntleadzeros"):
                    _cmp.zero_count_rule(ck, "R1", "smt2", op, m.where(b["node"]))
                else:
                    ck.ob("R1", "smt2:%s" % key, False, m.where(b["node"]), "unary operator %r has no reference skeleton" % op)
    if n_br < 20:
        raise AnalysisError("TranslatorSMT2.from_ExprOp: only %d operator branches extracted" % n_br)
    # rotations: decided on the term the helpers build (helper extraction / renaming / operand order do not matter)
    _cmp.smt_rotation_rule(ck, "R1", hm.where(hm.func("bv_rotate_left")))

    # ---------------------------------------------------------------- R2
    meths = m.methods("TranslatorSMT2")
    for k in KINDS:
        ck.ob("R2", "from_%s" % k, "from_" + k in meths, m.where(cls), "TranslatorSMT2 has no from_%s" % k)
    _cmp.structure_rules(ck, "R2", "smt2", m.where(cls))

    # ---------------------------------------------------------------- R3
    _cmp.memory_rules(ck, "R3", "smt2", m.where(m.func("SMT2Mem.get")))
