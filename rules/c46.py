"""C46 - the sandboxed file system never escapes its base directory.

 R1 containment sanitiser: each guest->host path function returns only values for which '..'
    components cannot survive: accepted idioms are (A) normalise AFTER joining with the base and test
    containment, (B) make the guest path absolute, normalise, strip, then join (chroot style),
    (C) drop '..' components before joining. A containment test on the un-normalised join is not one.
 R1s symlinks: a sanitiser that consults the host file system for links must resolve links in every
    component (realpath) before the containment test, not only in the last component
 R1t terminal link: a sanitiser that tests the joined host path with os.path.islink never returns that
    path along a branch on which the test did not come out false (e.g. a depth or flag conjunct that skips the
    resolution): the host kernel would follow the link in the host name space
 R2 sinks: every host file-system call in the emulated OS layers takes a path produced by one of the
    sanitisers (def-use), the configured exceptions being listed with a reason
"""
import ast

from sa.astutil import walk_body, walk_local, dotted, norm, callee_attr, Resolver
from sa.cfg import CFG, node_calls

ENV = "miasm/os_dep/linux/environment.py"
COM = "miasm/os_dep/common.py"
WIN = "miasm/os_dep/win_api_x86_32.py"
LEVEL_TEXT = ("Taint/sanitiser rules: every guest->host path function must use one of three enumerated containment "
              "idioms that make '..' harmless (checked on its AST/def-use), link resolution must cover every component, the joined path is never returned where its islink test did not come out false, "
              "and every host file-system call in os_dep must receive a sanitised path. Decides these clauses for all "
              "guest paths; performs no file-system access.")
LEVEL_TEXT += " Accepted idioms include a component stack built by a module helper whose append is guarded by != '..' (must-facts)."
ASSUMPTIONS = ["CPython ast; os.path.normpath/join/realpath semantics as documented",
               "host file-system sinks are the os/open calls enumerated in SINKS (re-derived per run over os_dep)"]

SANITISERS = [(ENV, "FileSystem.resolve_path"), (COM, "windows_to_sbpath"), (COM, "unix_to_sbpath")]
SINKS = set(["open", "os.open", "os.stat", "os.lstat", "os.listdir", "os.readlink", "os.unlink", "os.remove", "os.mkdir",
             "os.makedirs", "os.path.exists", "os.path.isdir", "os.path.islink", "os.path.isfile", "os.access", "os.rename",
             "os.rmdir", "os.symlink", "os.path.getsize", "os.chmod", "os.utime", "io.open"])
# path expressions accepted at a sink without a local sanitiser call, one reason each
EXEMPT = {
    "self.real_path": "FileDescriptorDirectory.real_path is the already resolved path handed over by FileSystem.open_",
    "winobjs.module_fname_nux": "host-side path of the emulated module configured by the analyst, not guest input",
    "wh.name": "name of a host file object that was itself opened from a sanitised path",
}


def _analyse_sanitiser(fn):
    """Returns (idiom or None, detail, uses_links, links_ok)."""
    res = Resolver(fn)
    joins = [c for c in walk_body(fn) if isinstance(c, ast.Call) and dotted(c.func) == "os.path.join" and c.args]
    joins = [c for c in joins if "base" in norm(c.args[0]).lower() or "BASE" in norm(c.args[0])]
    if not joins:
        return None, "no join with the base directory found", False, True
    # (C) component filter excluding '..'
    for n in walk_body(fn):
        if isinstance(n, (ast.ListComp, ast.GeneratorExp)):
            for g in n.generators:
                for cond in g.ifs:
                    t = norm(cond)
                    if "'..'" in t or '".."' in t:
                        return "C", "", False, True
    # (C') component resolution through a module helper: the list joined after the base is built by a helper in which every component
    # appended to the result is known to differ from '..' at the append (a '..' pops instead): nothing can climb above the base
    mod = getattr(fn, "_module", None)
    if mod is not None:
        from sa.facts import guard_facts, has_cmp
        for j in joins:
            for a in j.args[1:]:
                v = a.value if isinstance(a, ast.Starred) else a
                if isinstance(v, ast.Name):
                    # the binding that reaches the join (straight-line function: the last assignment before it)
                    from sa.astutil import straightline_env
                    st_ = j
                    while not isinstance(st_, ast.stmt):
                        st_ = st_._parent
                    env_ = straightline_env(fn.body[:fn.body.index(st_)]) if st_ in fn.body else {}
                    v = env_.get(v.id, v)
                if isinstance(v, ast.Call) and isinstance(v.func, ast.Name) and v.func.id in mod.funcs and "." not in v.func.id:
                    h = mod.funcs[v.func.id]
                    rets = [r for r in walk_body(h) if isinstance(r, ast.Return)]
                    if len(rets) != 1 or not isinstance(rets[0].value, ast.Name):
                        continue
                    acc = rets[0].value.id
                    inits = [n for n in walk_body(h) if isinstance(n, ast.Assign) and norm(n.targets[0]) == acc]
                    if len(inits) != 1 or norm(inits[0].value) not in ("[]", "list()"):
                        continue
                    hcfg = CFG(h)
                    facts = guard_facts(hcfg)
                    ok = True
                    n_app = 0
                    for nd in hcfg.nodes:
                        for c in node_calls(nd):
                            if isinstance(c.func, ast.Attribute) and norm(c.func.value) == acc:
                                if c.func.attr == "append" and len(c.args) == 1:
                                    n_app += 1
                                    e = norm(c.args[0])
                                    if not (has_cmp(facts.get(nd.id, frozenset()), e, "!=", "'..'") or has_cmp(facts.get(nd.id, frozenset()), e, "!=", '".."')):
                                        ok = False
                                elif c.func.attr in ("extend", "insert", "__iadd__"):
                                    ok = False
                        if nd.kind == "stmt" and isinstance(nd.ast, ast.AugAssign) and norm(nd.ast.target) == acc:
                            ok = False
                    if ok and n_app:
                        return "C", "", False, True
    # containment tests
    tests = []
    for n in walk_body(fn):
        if isinstance(n, ast.Call) and isinstance(n.func, ast.Attribute) and n.func.attr == "startswith":
            tests.append((n, n.func.value))
        if isinstance(n, ast.Call) and dotted(n.func) in ("os.path.commonpath", "os.path.commonprefix"):
            tests.append((n, n.args[0] if n.args else None))
    # (A) test applied to a normalised version of the join
    norm_calls = ("os.path.normpath", "os.path.realpath", "os.path.abspath")
    for (t, subj) in tests:
        if subj is None:
            continue
        s = res.expand_node(subj)
        # subject must contain normpath(...join(...)...) nesting
        for c in walk_local(s):
            if isinstance(c, ast.Call) and dotted(c.func) in norm_calls:
                if any(isinstance(x, ast.Call) and dotted(x.func) == "os.path.join" for x in walk_local(c)):
                    return "A", "", False, True
        # or the tested name is assigned (anywhere) from a normalisation of itself after the join
        if isinstance(subj, ast.Name):
            for d in res.all_defs(subj.id):
                if isinstance(d, ast.Call) and dotted(d.func) in norm_calls and d.args and norm(d.args[0]) == subj.id:
                    return "A", "", False, True
    # (B) absolute-ise then normalise before the join
    for n in walk_body(fn):
        if isinstance(n, ast.Call) and dotted(n.func) == "os.path.normpath" and n.args:
            a = n.args[0]
            t = norm(a)
            if isinstance(a, ast.BinOp) and isinstance(a.op, ast.Add) and ("sep" in norm(a.left) or norm(a.left) in ("'/'", "b'/'")):
                return "B", "", False, True
            if isinstance(a, ast.Call) and dotted(a.func) == "os.path.join" and a.args and ("sep" in norm(a.args[0]) or norm(a.args[0]) in ("'/'",)):
                return "B", "", False, True
    detail = "the joined path is %s" % ("tested with %s before any normalisation: 'base/../../x' passes a prefix test" % norm(tests[0][0])
                                         if tests else "returned without any containment test and '..' components are kept")
    return None, detail, False, True


def run(ck):
    ck.rule("R1", "a guest->host path function makes '..' components harmless (idiom A, B or C)", floor=1)
    ck.rule("R1s", "link resolution before the containment test covers every path component", floor=1)
    ck.rule("R2", "every host file-system call in os_dep takes a sanitised path", floor=15)

    san_names = set()
    for rel, q in SANITISERS:
        m = ck.repo.mod(rel)
        fn = m.func(q)
        san_names.add(q.split(".")[-1])
        idiom, detail, _ul, _lo = _analyse_sanitiser(fn)
        ck.ob("R1", q, idiom is not None, m.where(fn),
              "%s: %s" % (q, detail))
        # symlink clause
        uses_links = any(isinstance(c, ast.Call) and dotted(c.func) in ("os.path.islink", "os.readlink") for c in walk_body(fn))
        if uses_links:
            real = any(isinstance(c, ast.Call) and dotted(c.func) == "os.path.realpath" for c in walk_body(fn))
            ck.ob("R1s", q, real, m.where(fn),
                  "%s follows a link only when the last component is one (os.path.islink on the joined path): a directory link "
                  "inside the sandbox pointing outside is traversed by the host open()" % q)

    # ------------------------------------------------------------------ R1j: no joined component can be absolute
    ck.rule("R1j", "no component joined after the base can contain '/': os.path.join drops the base when a component is absolute", floor=1)
    from sa.astutil import straightline_env, clone
    for rel, q in SANITISERS:
        m = ck.repo.mod(rel)
        fn = m.func(q)
        for c in [c for c in walk_body(fn) if isinstance(c, ast.Call) and dotted(c.func) == "os.path.join" and c.args and any(isinstance(a, ast.Starred) for a in c.args)]:
            st = c
            while not isinstance(st, ast.stmt):
                st = st._parent
            body = fn.body
            env = straightline_env(body[:body.index(st)]) if st in body else {}

            class _T(ast.NodeTransformer):
                def visit_Name(self, nm):
                    if isinstance(nm.ctx, ast.Load) and nm.id in env:
                        return env[nm.id]
                    return nm
            for a in c.args:
                if not isinstance(a, ast.Starred):
                    continue
                e = _T().visit(clone(a.value))
                splits = [x for x in ast.walk(e) if isinstance(x, ast.Call) and isinstance(x.func, ast.Attribute) and x.func.attr == "split" and x.args]
                ok = False
                why = "the components `%s` are not produced by a split" % norm(e)[:60]
                for sp in splits:
                    sep = sp.args[0]
                    if isinstance(sep, ast.Constant) and sep.value in ("/", b"/"):
                        ok = True
                    else:
                        # split on another separator: '/' must have been replaced in the string before
                        inner = sp.func.value
                        rep = [x for x in ast.walk(inner) if isinstance(x, ast.Call) and isinstance(x.func, ast.Attribute) and x.func.attr == "replace"
                               and x.args and isinstance(x.args[0], ast.Constant) and x.args[0].value in ("/", b"/")
                               and len(x.args) > 1 and isinstance(x.args[1], ast.Constant) and "/" not in str(x.args[1].value)]
                        ok = bool(rep)
                        why = "the path is split on %s without '/' having been replaced first: a component such as '/etc/hostname' is absolute " \
                              "and makes os.path.join forget the sandbox base" % norm(sep)
                ck.ob("R1j", "%s:join-components" % q, ok, m.where(c), "%s: %s" % (q, why))
    # discarded results of pure string methods (x.replace(...) as a statement changes nothing)
    PURE = ("replace", "lower", "upper", "strip", "lstrip", "rstrip", "split", "encode", "decode", "format", "join", "translate", "rsplit", "title", "ljust", "rjust")
    nlint = 0
    for rel in sorted(set(r for r, _q in SANITISERS)):
        m = ck.repo.mod(rel)
        for q, fn in sorted(m.funcs.items()):
            for n in walk_body(fn):
                nlint += 1 if isinstance(n, ast.Expr) else 0
                if isinstance(n, ast.Expr) and isinstance(n.value, ast.Call) and isinstance(n.value.func, ast.Attribute) and n.value.func.attr in PURE \
                        and isinstance(n.value.func.value, (ast.Name, ast.Attribute, ast.Subscript)):
                    recv = norm(n.value.func.value)
                    if recv.split(".")[0] in ("log", "logging", "os", "self", "fd", "sys") and n.value.func.attr in ("format", "join", "split"):
                        continue
                    ck.ob("R1j", "%s:discarded-%s" % (q, n.value.func.attr), False, m.where(n),
                          "the result of `%s` is discarded: strings are immutable, the statement has no effect" % norm(n.value)[:60])
    ck.note("R1j: %d expression statements scanned for discarded string results" % nlint)

    # ------------------------------------------------------------------ R1t
    ck.rule("R1t", "the joined host path is returned only where its islink() test came out false or it was rebound", floor=1)
    for rel, q in SANITISERS:
        m = ck.repo.mod(rel)
        fn = m.func(q)
        tested = set()
        for c in walk_body(fn):
            if isinstance(c, ast.Call) and dotted(c.func) == "os.path.islink" and c.args and isinstance(c.args[0], ast.Name):
                tested.add(c.args[0].id)
        for v in sorted(tested):
            cfg = CFG(fn)
            is_join = lambda val: isinstance(val, ast.Call) and dotted(val.func) == "os.path.join"

            def flow(node, st, v=v):
                if node.kind == "stmt" and isinstance(node.ast, (ast.Assign, ast.AugAssign)):
                    tg = node.ast.targets if isinstance(node.ast, ast.Assign) else [node.ast.target]
                    if any(isinstance(t, ast.Name) and t.id == v for t in tg):
                        # rebinding: the joined path itself is 'unsafe until tested'; anything else (recursive
                        # resolution, the guest-side link text for lstat-like callers) is not the untested join
                        return "unsafe" if is_join(node.ast.value) else "safe"
                return st

            def edge(node, label, st, v=v):
                if node.kind == "test" and isinstance(node.ast, ast.Call) and dotted(node.ast.func) == "os.path.islink" \
                        and node.ast.args and norm(node.ast.args[0]) == v:
                    return "safe" if label is False else st
                if node.kind == "test" and isinstance(node.ast, ast.UnaryOp) and isinstance(node.ast.op, ast.Not) \
                        and isinstance(node.ast.operand, ast.Call) and dotted(node.ast.operand.func) == "os.path.islink" \
                        and node.ast.operand.args and norm(node.ast.operand.args[0]) == v:
                    return "safe" if label is True else st
                return st

            join = lambda a, b: "safe" if a == b == "safe" else ("unsafe" if "unsafe" in (a, b) else a)
            IN, _OUT = cfg.forward("na", flow, join, edge)
            for nd in cfg.nodes:
                if nd.kind == "stmt" and isinstance(nd.ast, ast.Return) and isinstance(nd.ast.value, ast.Name) \
                        and nd.ast.value.id == v and nd.id in IN:
                    ck.ob("R1t", "%s:return %s" % (q, v), IN[nd.id] != "unsafe", m.where(nd.ast),
                          "%s can return the joined host path `%s` along a branch where os.path.islink(%s) was not found "
                          "false and the link was not resolved: consumers hand it to the host kernel, which follows the link "
                          "outside the sandbox" % (q, v, v))

    # ------------------------------------------------------------------ R2
    files = [r for r in ck.repo.pyfiles("miasm/os_dep") if r.endswith(".py")]
    for rel in files:
        m = ck.repo.mod(rel)
        for q, fn in sorted(m.funcs.items()):
            if q in [s[1] for s in SANITISERS if s[0] == rel]:
                continue
            sinks = []
            for c in walk_body(fn):
                if isinstance(c, ast.Call):
                    d = dotted(c.func)
                    if d in SINKS and c.args:
                        sinks.append(c)
            if not sinks:
                continue
            res = Resolver(fn)
            for c in sinks:
                a = c.args[0]
                t = norm(a)
                ok = False
                why = ""
                if t in EXEMPT:
                    ok = True
                    ck.note("R2 exempt %s in %s: %s" % (t, q, EXEMPT[t]))
                elif isinstance(a, ast.Name):
                    defs = res.defs.get(a.id, [])
                    real = [d for d in defs if d is not None]
                    if real and len(real) == len(defs) - (1 if a.id in res.params else 0):
                        ok = all(isinstance(d, ast.Call) and callee_attr(d) in san_names for d in real)
                    elif a.id in res.params and real:
                        # parameter rebound from a sanitiser before use: every path to the sink must pass the rebinding
                        cfg = CFG(fn)
                        is_san = lambda nd: nd.kind == "stmt" and isinstance(nd.ast, ast.Assign) and any(
                            isinstance(tg, ast.Name) and tg.id == a.id for tg in nd.ast.targets) and isinstance(nd.ast.value, ast.Call) \
                            and callee_attr(nd.ast.value) in san_names
                        ok = True
                        for nd in cfg.node_containing(c):
                            if not cfg.must_pass(is_san, targets=[nd.id])[nd.id]:
                                ok = False
                    why = "`%s` is defined by %s" % (a.id, [norm(d)[:50] for d in real] or "a parameter")
                else:
                    why = "path expression `%s`" % t[:60]
                ck.ob("R2", "%s:%s(%s)" % (q, dotted(c.func), t[:40]), ok, m.where(c),
                      "host call %s receives a path that does not come from a sandbox path function: %s" % (dotted(c.func), why))
