"""C13 - symbolic memory behaves as a little-endian byte store (ir/symbexec.py: MemArray, MemSparse, SymbolMngr).

 R1 wrap-mask consistency: every key that indexes / tests / deletes a per-base byte map and is computed as
    offset + i is reduced modulo the address space (& mask) - the writer does, so every reader must
 R2 byte-order agreement between write (byte k of the value <-> stored index k at offset+k) and read (slice
    off*8:(off+n)*8 of the stored value, integer parts merged low-address-low-bits, parts composed in address
    order)
 R3 restore-on-original: writing a cell's own original content back removes the stored byte
 R4 export/import symmetry: get_state exports every identifier and memory binding; set_state imports each
    through the write API into a fresh manager
"""
import ast

from sa.astutil import walk_body, walk_local, dotted, norm, callee_attr, cmp_parts

REL = "miasm/ir/symbexec.py"
LEVEL_TEXT = ("Static rules over the symbolic memory classes: masked-offset consistency between sibling methods, "
              "index/slice agreement of writer and reader, original-cell restoration, export/import through the same "
              "API. Necessary clauses; no read is evaluated.")
ASSUMPTIONS = ["CPython ast"]


def _offset_sums(fn):
    """(node, text) of additive offset expressions used as keys of a memarray / byte map in fn."""
    out = []
    for n in walk_body(fn):
        keys = []
        if isinstance(n, ast.Compare) and len(n.ops) == 1 and isinstance(n.ops[0], (ast.In, ast.NotIn)):
            tgt = norm(n.comparators[0])
            if "memarray" in tgt or "_offset_to_expr" in tgt:
                keys.append(n.left)
        if isinstance(n, ast.Subscript):
            tgt = norm(n.value)
            if tgt in ("memarray", "self._offset_to_expr"):
                keys.append(n.slice)
        if isinstance(n, ast.Call) and isinstance(n.func, ast.Attribute) and n.func.attr in ("get", "pop", "setdefault", "__contains__", "__getitem__") and n.args:
            tgt = norm(n.func.value)
            if tgt in ("memarray", "self._offset_to_expr"):
                keys.append(n.args[0])
        for k in keys:
            out.append((n, k))
    return out


def run(ck):
    m = ck.repo.mod(REL)
    ck.rule("R1", "an offset + i key of a per-base byte map is always reduced with & mask", floor=5)
    ck.rule("R2", "writer and reader agree on byte order", floor=4)
    ck.rule("R3", "writing a cell's original content back removes the stored byte", floor=1)
    ck.rule("R4", "state export/import goes through the same read/write API and covers ids and memory", floor=2)
    ck.rule("R6", "SymbolMngr store discipline: every path of write() updates the matching table; no bypass, no removal instead of a store", floor=8)
    from rules._symstore import symstore_rules
    symstore_rules(ck, "R6")

    # ---------------------------------------------------------------- R1
    from sa.astutil import Resolver
    for cls in ("MemSparse", "MemArray"):
        for name, fn in sorted(m.methods(cls).items()):
            res = Resolver(fn)
            for (n, k) in _offset_sums(fn):
                ke = res.expand_with_elements(k)
                has_sum = any(isinstance(x, ast.BinOp) and isinstance(x.op, ast.Add) and "offset" in norm(x) for x in walk_local(ke))
                if not has_sum:
                    continue
                masked = isinstance(ke, ast.BinOp) and isinstance(ke.op, ast.BitAnd) and "mask" in norm(ke.right) or \
                    (isinstance(ke, ast.BinOp) and isinstance(ke.op, ast.BitAnd) and "mask" in norm(ke.left))
                ck.ob("R1", "%s.%s:%s" % (cls, name, norm(k)[:40]), masked, m.where(n),
                      "`%s` uses the key `%s` without `& mask`: a cell written across the end of the address space is stored at the "
                      "wrapped offsets, so this lookup misses it" % (norm(n)[:70], norm(ke)))

    # ---------------------------------------------------------------- R2
    w = m.func("MemArray.write")
    byte_order_rules(ck, m, "R2")
    # ---------------------------------------------------------------- R3
    # the stored byte is removed exactly where the byte written is known to be the original cell of that very offset:
    # (base', off') = get_expr_base_offset(<byte>.ptr) with base' == self.base and off' == <the store key> as must-facts at the deletion
    from sa.facts import guard_facts as _gf
    from sa.cfg import CFG as _CFG
    wcfg = _CFG(w)
    wfacts = _gf(wcfg)
    ok = False
    pairs = []
    for n in walk_body(w):
        if isinstance(n, ast.Assign) and isinstance(n.targets[0], ast.Tuple) and len(n.targets[0].elts) == 2 and isinstance(n.value, ast.Call) \
                and (dotted(n.value.func) or "").split(".")[-1] == "get_expr_base_offset" and n.value.args and norm(n.value.args[0]).endswith(".ptr"):
            pairs.append((norm(n.targets[0].elts[0]), norm(n.targets[0].elts[1])))
    store_keys = set(norm(n.targets[0].slice) for n in walk_body(w) if isinstance(n, ast.Assign) and isinstance(n.targets[0], ast.Subscript)
                     and norm(n.targets[0].value) == "self._offset_to_expr")
    for nd in wcfg.nodes:
        if nd.kind == "stmt" and isinstance(nd.ast, ast.Delete) and any(isinstance(t, ast.Subscript) and norm(t.value) == "self._offset_to_expr" for t in nd.ast.targets):
            dk = [norm(t.slice) for t in nd.ast.targets if isinstance(t, ast.Subscript)][0]
            f = wfacts.get(nd.id, frozenset())
            eqs = [(x[1], x[3]) for x in f if x[0] == "cmp" and x[2] == "=="]

            def eq(a, b):
                return (a, b) in eqs or (b, a) in eqs
            ok = dk in store_keys and any(eq(bp, "self.base") and eq(op_, dk) for (bp, op_) in pairs)
    ck.ob("R3", "MemArray.write:restore-original", ok, m.where(w), "writing @8[base+off] at base+off does not remove the stored byte")

    # ---------------------------------------------------------------- R4
    g = m.func("SymbolicExecutionEngine.get_state")
    ok = any(isinstance(n, ast.Assign) and norm(n.value) == "self.StateEngine(dict(self.symbols))" for n in walk_body(g)) or \
        any(isinstance(n, ast.Return) and norm(n.value) == "self.StateEngine(dict(self.symbols))" for n in walk_body(g))
    ck.ob("R4", "get_state", ok, m.where(g), "get_state must export dict(self.symbols)")
    s = m.func("SymbolicExecutionEngine.set_state")
    fresh = any(isinstance(n, ast.Assign) and norm(n.targets[0]) == "self.symbols" and callee_attr(n.value) == "SymbolMngr" for n in walk_body(s))
    imp = any(isinstance(n, ast.For) and "state" in norm(n.iter) and any(
        (isinstance(x, ast.Assign) and norm(x.targets[0]).startswith("self.symbols[")) or
        (isinstance(x, ast.Call) and dotted(x.func) == "self.symbols.write") for x in walk_local(n)) for n in walk_body(s))
    ck.ob("R4", "set_state", fresh and imp, m.where(s), "set_state must start from a fresh manager and write every exported binding")
    it = m.func("SymbolMngr.iteritems")
    txt = norm(ast.Module(body=it.body, type_ignores=[]))
    ck.ob("R4", "SymbolMngr.iteritems", "self.ids()" in txt and "self.memory()" in txt, m.where(it), "iteration must cover identifiers and memory")
    st = m.func("SymbolMngr.__setitem__")
    ok = any(isinstance(c, ast.Call) and dotted(c.func) == "self.write" for c in walk_body(st))
    ck.ob("R4", "SymbolMngr.__setitem__", ok, m.where(st), "item assignment must go through write()")
    wr = m.func("SymbolMngr.write")
    ok = any(isinstance(c, ast.Call) and dotted(c.func) == "self.symbols_mem.write" and [norm(a) for a in c.args] == ["dst.ptr", "src"] for c in walk_body(wr)) and \
        any(isinstance(n, ast.Assign) and norm(n.targets[0]) == "self.symbols_id[dst]" and norm(n.value) == "src" for n in walk_body(wr))
    ck.ob("R4", "SymbolMngr.write", ok, m.where(wr), "write must store identifiers in symbols_id and memory through symbols_mem.write(dst.ptr, src)")

    # ---------------------------------------------------------------- R5 the export walk covers every stored byte once
    _r5_export_partition(ck, m)
    _base_offset_rules(ck, m)


def byte_order_rules(ck, m, RID):
    """Writer/reader byte-order agreement of the per-base byte map (shared by C13-R2 and C12-R5).  Every comparison is made on
    normal forms (sa/normal: single-definition locals expanded, polynomial index arithmetic, commutative operators sorted) and, for
    the reader's per-byte step, on the path summaries of the loop body (sa/symval), so that temporaries, hoisted sub-expressions,
    if/else vs continue, `in` + index vs .get() are the same code."""
    from sa.astutil import Resolver, straightline_env
    from sa.normal import canon, poly
    from sa import symval
    w = m.func("MemArray.write")
    wres = Resolver(w)
    wp = [a.arg for a in w.args.args]
    ck.need(len(wp) == 3, "MemArray.write(self, offset, expr): signature changed")
    off_p, val_p = wp[1], wp[2]
    nbytes = "range(P[%s])" % "1*" + "FloorDiv(%s.size, P[8])" % val_p
    loops = []
    for n in walk_body(w):
        if isinstance(n, ast.For):
            it = wres.expand_node(n.iter)
            if isinstance(it, ast.Call) and dotted(it.func) == "range" and len(it.args) == 1 and canon(it.args[0]) in ("FloorDiv(%s.size, P[8])" % val_p,):
                loops.append(n)
    ck.need(loops, "MemArray.write: byte loop over range(%s.size // 8) not found" % val_p)
    loop = loops[0]
    idx = norm(loop.target)
    stores = [n for n in walk_local(loop) if isinstance(n, ast.Assign) and isinstance(n.targets[0], ast.Subscript) and norm(n.targets[0].value) == "self._offset_to_expr"]
    env = straightline_env(loop.body)

    def in_loop(e):
        class _T(ast.NodeTransformer):
            def visit_Name(self, nm):
                if isinstance(nm.ctx, ast.Load) and nm.id in env:
                    return env[nm.id]
                return nm
        from sa.astutil import clone
        return _T().visit(clone(e))
    ok_v = bool(stores) and all(canon(in_loop(st.value)) == "(%s, %s)" % (idx, val_p) for st in stores)
    ck.ob(RID, "MemArray.write:stored-index", ok_v, m.where(w), "byte %s of the value must be stored as (%s, %s)" % (idx, idx, val_p))
    want_k = canon(ast.parse("(%s + %s) & self._mask" % (off_p, idx), mode="eval").body)
    ok_k = bool(stores) and all(canon(in_loop(st.targets[0].slice)) == want_k for st in stores)
    ck.ob(RID, "MemArray.write:address", ok_k, m.where(w), "byte %s must be stored at (%s + %s) & mask; found key `%s`"
          % (idx, off_p, idx, norm(in_loop(stores[0].targets[0].slice))[:60] if stores else "none"))
    # ---- reader
    r = m.func("MemArray.read")
    rp = [a.arg for a in r.args.args]
    roff, rsize = rp[1], rp[2]
    rres = Resolver(r)
    rloops = []
    for n in walk_body(r):
        if isinstance(n, ast.For):
            it = rres.expand_node(n.iter)
            if isinstance(it, ast.Call) and dotted(it.func) == "range" and len(it.args) == 1 and canon(it.args[0]) == "FloorDiv(%s, P[8])" % rsize:
                rloops.append(n)
    ck.need(rloops, "MemArray.read: byte loop over range(%s // 8) not found" % rsize)
    rl = rloops[0]
    ridx = norm(rl.target)
    want_rk = canon(ast.parse("(%s + %s) & self._mask" % (roff, ridx), mode="eval").body)
    known_ok = unknown_ok = False
    n_paths = 0
    for pth in symval.paths(rl.body, limit=16):
        n_paths += 1
        apps = [e for e in pth.effects if isinstance(e, ast.Call) and isinstance(e.func, ast.Attribute) and e.func.attr == "append" and e.args and isinstance(e.args[0], ast.Tuple)
                and len(e.args[0].elts) == 3]
        for a in apps:
            t0, t1, t2 = a.args[0].elts
            c0, c2 = canon(t0), canon(t2)
            # known byte: (entry[0], 1, entry[1]) with entry = table[(offset + index) & mask] (subscript or .get)
            if norm(t1) == "1" and "self._offset_to_expr" in c0 and "self._offset_to_expr" in c2:
                e0 = c0.replace("[P[0]]", "").replace(", None)", ")")
                e2 = c2.replace("[P[1]]", "").replace(", None)", ")")
                if e0 == e2 and c0 != c2 and want_rk in e0 and c0.endswith("[P[0]]") and c2.endswith("[P[1]]"):
                    known_ok = True
            # unknown byte: (0, 1, ExprMem(<ptr of that offset>, 8))
            if norm(t1) == "1" and norm(t0) == "0" and isinstance(t2, ast.Call) and (dotted(t2.func) or "").split(".")[-1] == "ExprMem" and len(t2.args) == 2 \
                    and norm(t2.args[1]) == "8" and want_rk in canon(t2.args[0]):
                unknown_ok = True
    ck.ob(RID, "MemArray.read:part", known_ok, m.where(r),
          "a stored byte must be read back as (stored index, 1, stored value) of the entry at (%s + %s) & mask" % (roff, ridx))
    ck.ob(RID, "MemArray.read:unknown-part", unknown_ok, m.where(r),
          "a byte that was never written must read as the 8-bit memory cell at base + ((%s + %s) & mask)" % (roff, ridx))
    # final extraction of each part: value[8*off : 8*(off + n)] (little endian)
    ok = False
    scopes = []                       # (3-tuple target, nodes in which the parts are consumed): for statements and comprehensions alike
    for n in ast.walk(r):
        if isinstance(n, ast.For) and isinstance(n.target, ast.Tuple) and len(n.target.elts) == 3:
            scopes.append((n.target, n.body))
        if isinstance(n, (ast.ListComp, ast.GeneratorExp)) and len(n.generators) == 1 and isinstance(n.generators[0].target, ast.Tuple) \
                and len(n.generators[0].target.elts) == 3:
            scopes.append((n.generators[0].target, [n.elt]))
    for tgt_, body_ in scopes:
        o_, n_, d_ = [norm(x) for x in tgt_.elts]
        want = canon(ast.parse("%s[%s * 8:(%s + %s) * 8]" % (d_, o_, o_, n_), mode="eval").body)
        for b_ in body_:
            for x in ast.walk(b_):
                if isinstance(x, ast.Subscript) and isinstance(x.slice, ast.Slice) and canon(x) == want:
                    ok = True
    ck.ob(RID, "MemArray.read:slice", ok, m.where(r), "a part must be extracted as value[off*8:(off+n)*8] (little endian)")
    # merge of two adjacent integer parts
    ok = False
    okb = False
    detail = "integer merge branch not found"
    for n in walk_body(r):
        if isinstance(n, ast.If) and "is_int()" in norm(n.test) and norm(n.test).count("is_int()") >= 2:
            env3 = straightline_env(n.body)
            merged = [c for c in walk_local(ast.Module(body=n.body, type_ignores=[])) if isinstance(c, ast.Call) and callee_attr(c) == "ExprInt" and len(c.args) >= 2]
            for c in merged:
                v = c.args[0]

                class _T3(ast.NodeTransformer):
                    def visit_Name(self, nm):
                        if isinstance(nm.ctx, ast.Load) and nm.id in env3:
                            return env3[nm.id]
                        return nm
                from sa.astutil import clone
                vx = _T3().visit(clone(v))
                if not (isinstance(vx, ast.BinOp) and isinstance(vx.op, ast.BitOr)):
                    continue
                hi = vx.left if isinstance(vx.left, ast.BinOp) and isinstance(vx.left.op, ast.LShift) else vx.right
                lo = vx.right if hi is vx.left else vx.left
                if not (isinstance(hi, ast.BinOp) and isinstance(hi.op, ast.LShift)):
                    continue
                ok = poly(hi.right) == poly(ast.parse("size_a * 8", mode="eval").body) and "data_b" in norm(hi.left) and "data_a" in norm(lo) and \
                    poly(_T3().visit(clone(c.args[1]))) == poly(ast.parse("(size_a + size_b) * 8", mode="eval").body)
                t = canon(lo)
                okb = "data_a[P[8*off_a]:P[8*off_a + 8*size_a]]" in t or ("RShift" in t and ("BitAnd" in t or "Mod" in t))
                detail = "the first (low-address) integer part is taken as `%s`: it is not limited to its size_a bytes" % norm(lo)[:70]
    ck.ob(RID, "MemArray.read:int-merge", ok, m.where(r), "adjacent integer parts must merge as (second << 8*size_first) | first, on 8*(size_first+size_second) bits")
    ck.ob(RID, "MemArray.read:int-merge-low-part-bounded", okb, m.where(r), detail)
    sr = m.func("MemSparse.read")
    sres = Resolver(sr)
    ok = False
    for n in walk_body(sr):
        if isinstance(n, ast.Call) and (dotted(n.func) or "").split(".")[-1] == "ExprCompose" and n.args and isinstance(n.args[0], ast.Starred):
            src = sres.expand_node(n.args[0].value)
            if isinstance(src, ast.Call) and isinstance(src.func, ast.Attribute) and src.func.attr == "read" and len(src.args) == 2:
                ok = True
    ck.ob(RID, "MemSparse.read:compose-order", ok, m.where(sr), "parts must be composed in address order (lowest address = lowest bits)")



class _Opaque(object):
    pass


def _ev(node, env):
    """Tiny evaluator for the index arithmetic of MemArray.memory(): ints, names, + -, len(), subscripts of the
    offset list, and the two part-count calls (classified by their arguments). Anything else is opaque."""
    if isinstance(node, ast.Constant):
        return node.value
    if isinstance(node, ast.Name):
        return env.get(node.id, _Opaque())
    if isinstance(node, ast.Tuple):
        return tuple(_ev(e, env) for e in node.elts)
    if isinstance(node, ast.UnaryOp) and isinstance(node.op, ast.USub):
        v = _ev(node.operand, env)
        return -v if isinstance(v, int) else _Opaque()
    if isinstance(node, ast.BinOp) and isinstance(node.op, (ast.Add, ast.Sub)):
        a, b = _ev(node.left, env), _ev(node.right, env)
        if isinstance(a, int) and isinstance(b, int):
            return a + b if isinstance(node.op, ast.Add) else a - b
        return _Opaque()
    if isinstance(node, ast.Call):
        if callee_attr(node) == "len" and node.args and isinstance(_ev(node.args[0], env), list):
            return len(_ev(node.args[0], env))
        if callee_attr(node) == "_get_variable_parts" and len(node.args) >= 2:
            start = _ev(node.args[0], env)
            fwd = True
            if len(node.args) > 2:
                fwd = _ev(node.args[2], env)
            for kw in node.keywords:
                if kw.arg == "forward":
                    fwd = _ev(kw.value, env)
            n = len(env["__offsets"])
            if start == 0 and fwd is True:
                return env["__H"]
            if start == n - 1 and fwd is False:
                return env["__T"]
            if isinstance(start, int) and fwd is True:
                return ("parts-from", start)
            return _Opaque()
        if callee_attr(node) == "_build_value_at_offset" and len(node.args) == 4:
            env.setdefault("__built", []).append((_ev(node.args[1], env), _ev(node.args[3], env)))
            return (_Opaque(), _Opaque())
        return _Opaque()
    if isinstance(node, ast.Subscript):
        base = _ev(node.value, env)
        idx = _ev(node.slice, env)
        if isinstance(base, list) and isinstance(idx, int) and -len(base) <= idx < len(base):
            return base[idx]
        return _Opaque()
    return _Opaque()


def _r5_export_partition(ck, m):
    ck.rule("R5", "MemArray.memory() walks every stored offset exactly once: the wrapped variable takes the first H and the last T "
                  "offsets, the walk covers [H, len - T)", floor=1)
    fn = m.func("MemArray.memory")
    special = None
    for n in walk_body(fn):
        if isinstance(n, ast.If) and sum(1 for c in walk_local(n) if isinstance(c, ast.Call) and callee_attr(c) == "_get_variable_parts") == 2 \
                and not any(isinstance(x, ast.If) and x is not n and sum(1 for c in walk_local(x) if isinstance(c, ast.Call) and callee_attr(c) == "_get_variable_parts") == 2
                            for x in walk_local(n)):
            special = n
    loops = [n for n in walk_body(fn) if isinstance(n, ast.While)]
    ck.need(special is not None and loops, "MemArray.memory: wrap-around special case or the walk loop not found")
    lp = loops[0]
    t = cmp_parts(lp.test)
    ck.need(t is not None and t[1] == "<" and isinstance(t[0], ast.Name) and isinstance(t[2], ast.Name), "MemArray.memory: walk loop is not `while <index> < <limit>`")
    idx_name, lim_name = t[0].id, t[2].id
    # straight-line prefix (before the special case) + the special-case body
    pre = []
    for st in fn.body:
        if any(x is special for x in ast.walk(st)):
            break
        pre.append(st)
    bad = []
    cases = 0
    for n in range(3, 7):
        for h in range(1, n):
            for tl in range(1, n - h + 1):
                env = {"__offsets": None, "__H": h, "__T": tl}
                offs = [100 + i for i in range(n)]
                env["__offsets"] = offs
                ko = None
                for st in pre + list(special.body):
                    if isinstance(st, ast.Assign):
                        if isinstance(st.value, ast.Call) and callee_attr(st.value) == "sorted":
                            ko = st.targets[0].id
                            env[ko] = offs
                            continue
                        v = _ev(st.value, env)
                        for tg in st.targets:
                            if isinstance(tg, ast.Name):
                                env[tg.id] = v
                            elif isinstance(tg, ast.Tuple) and isinstance(v, tuple) and len(v) == len(tg.elts):
                                for e, vv in zip(tg.elts, v):
                                    if isinstance(e, ast.Name):
                                        env[e.id] = vv
                            elif isinstance(tg, ast.Tuple):
                                for e in tg.elts:
                                    if isinstance(e, ast.Name):
                                        env[e.id] = _Opaque()
                cases += 1
                built = env.get("__built", [])
                got = (env.get(idx_name), env.get(lim_name), built[-1] if built else None)
                want = (h, n - tl, (offs[n - tl], h + tl))
                if got != want and len(bad) < 3:
                    bad.append("n=%d head=%d tail=%d: walk [%r, %r) first element %r; expected [%d, %d) and (offset, parts) %r"
                               % (n, h, tl, got[0], got[1], got[2], want[0], want[1], want[2]))
    ck.ob("R5", "MemArray.memory:wrap-partition", not bad, m.where(special),
          "with a value wrapped over the end of the address space (%d shapes folded) the walk does not cover the remaining offsets exactly: %s"
          % (cases, "; ".join(bad)))
    # the walk advances by the number of parts it just output
    adv = [s for s in lp.body if isinstance(s, ast.AugAssign) and isinstance(s.op, ast.Add) and norm(s.target) == idx_name]
    pn = [s for s in lp.body if isinstance(s, ast.Assign) and isinstance(s.value, ast.Call) and callee_attr(s.value) == "_get_variable_parts"]
    ok = bool(adv) and bool(pn) and norm(adv[0].value) == norm(pn[0].targets[0]) and norm(pn[0].value.args[0]) == idx_name and len(pn[0].value.args) == 2
    built = [c for c in walk_local(lp) if isinstance(c, ast.Call) and callee_attr(c) == "_build_value_at_offset"]
    ok = ok and bool(built) and norm(built[0].args[3]) == norm(pn[0].targets[0])
    ck.ob("R5", "MemArray.memory:walk-advance", ok, m.where(lp), "the walk must output `parts` bytes from the current index and advance by the same count")
    ys = [n for n in walk_body(fn) if isinstance(n, ast.Yield)]
    ok = any(norm(y.value) == "first_element" for y in ys)
    ck.ob("R5", "MemArray.memory:wrapped-yielded", ok, m.where(fn), "the merged wrapped value is never output")


# ---------------------------------------------------------------------------------------------------------------------------
# R7  get_expr_base_offset is a lossless split: base + offset denotes the pointer, and two pointers that differ by a constant
#     only get the same base.  Decided per path of the function (sa/symval): the returned pair must be one of
#       (E, 0)                                     - nothing split
#       (<fresh id>, int(E))       under E.is_int()
#       (ExprOp('+', *E.args[:-1]), int(E.args[-1]))  under E.is_op('+'), E.args[-1].is_int() and "more than one term remains"
#       (E.args[0], int(E.args[-1]))                  under the same facts and "exactly one term remains"
#     the number of remaining terms being decided from the length comparisons on the path (len(E.args) / len(E.args[:-1])
#     against constants), for every n = len(E.args) >= 2.
def _flat_conds(conds):
    out = []

    def add(t, v):
        if isinstance(t, ast.BoolOp) and isinstance(t.op, ast.And) and v:
            for x in t.values:
                add(x, True)
        elif isinstance(t, ast.BoolOp) and isinstance(t.op, ast.Or) and not v:
            for x in t.values:
                add(x, False)
        elif isinstance(t, ast.UnaryOp) and isinstance(t.op, ast.Not):
            add(t.operand, not v)
        else:
            out.append((t, v))
    for t, v in conds:
        add(t, v)
    return out


def _len_models(conds, E):
    """the values n in 2..40 of len(E.args) compatible with the length comparisons among `conds` (comparisons of len(E.args) or
    len(E.args[:-1]) with integer constants; anything else is ignored = weaker facts)"""
    def lin(x):
        t = norm(x)
        if t == "len(%s.args)" % E:
            return lambda n: n
        if t in ("len(%s.args[:-1])" % E, "len(%s.args) - 1" % E):
            return lambda n: n - 1
        if isinstance(x, ast.Constant) and isinstance(x.value, int):
            return lambda n, c=x.value: c
        return None
    import operator
    OPS = {ast.Eq: operator.eq, ast.NotEq: operator.ne, ast.Lt: operator.lt, ast.LtE: operator.le, ast.Gt: operator.gt, ast.GtE: operator.ge}
    ns = set(range(2, 41))
    for t, v in conds:
        if isinstance(t, ast.Compare) and len(t.ops) == 1 and type(t.ops[0]) in OPS:
            a, b = lin(t.left), lin(t.comparators[0])
            if a is None or b is None:
                continue
            f = OPS[type(t.ops[0])]
            ns = set(n for n in ns if bool(f(a(n), b(n))) == v)
    return ns


def _base_offset_rules(ck, m):
    from sa import symval
    ck.rule("R7", "get_expr_base_offset splits a pointer without loss: base + offset is the pointer, the base of A + .. + cst is A + ..", floor=3)
    fn = m.func("get_expr_base_offset")
    E = fn.args.args[0].arg
    ps = symval.paths(fn.body, env={})
    ck.need(ps, "get_expr_base_offset: no path found")
    k = 0
    for p in ps:
        if p.kind == "raise":
            continue
        where = m.where(fn)
        if p.kind != "return" or not isinstance(p.value, ast.Tuple) or len(p.value.elts) != 2:
            ck.ob("R7", "get_expr_base_offset:returns-a-pair", False, where, "a path of get_expr_base_offset does not return (base, offset)")
            continue
        conds = _flat_conds(p.conds)
        holds = set(norm(t) for t, v in conds if v)
        B, O = p.value.elts
        b, o = norm(B), norm(O)
        k += 1
        label = "get_expr_base_offset:%s" % o
        if b == E and o == "0":
            continue
        if o == "int(%s)" % E:
            ck.ob("R7", label, "%s.is_int()" % E in holds, where, "the whole pointer is taken as the offset on a path where it is not known to be an integer")
            continue
        if o == "int(%s.args[-1])" % E:
            facts_ok = "%s.is_op('+')" % E in holds and "%s.args[-1].is_int()" % E in holds
            ns = _len_models(conds, E)
            if b in ("ExprOp('+', *%s.args[:-1])" % E,):
                good = all(n >= 3 for n in ns)
                why = "the sum of the remaining terms is rebuilt on a path where only one term may remain (len(args) in %s)" % sorted(ns)[:4]
            elif b in ("%s.args[0]" % E, "%s.args[:-1][0]" % E):
                good = all(n == 2 for n in ns)
                why = ("the first term alone is taken as the base on a path where more terms may remain (len(args) in %s...): A + B + cst "
                       "gets base A, so it aliases A + cst and is separated from A + B" % sorted(ns)[:4])
            else:
                from sa.repo import AnalysisError
                raise AnalysisError("get_expr_base_offset: base `%s` of a split pointer is a form this rule does not know" % b)
            ck.ob("R7", "get_expr_base_offset:base:%s" % b, facts_ok and bool(ns) and good, where,
                  why if facts_ok else "the last argument is split off on a path where the pointer is not known to be a sum ending with an integer")
            continue
        from sa.repo import AnalysisError
        raise AnalysisError("get_expr_base_offset: returned pair (%s, %s) is a form this rule does not know" % (b, o))
    ck.need(k >= 3, "get_expr_base_offset: fewer than 3 returning paths understood (%d)" % k)
