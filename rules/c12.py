"""C12 - symbolic execution is a sound abstraction of concrete execution: the "parallel" clause and
evaluator completeness.

 R1 read-all-before-write-any: in eval_updt_assignblk the evaluation of every source and destination
    pointer dominates the first state write, and the call closure of that evaluation contains no write to
    the symbolic state (effect analysis over the engine's methods and the emulated engine's overrides)
 R2 the evaluation cache is local to one assignment block (created in eval_assignblk / eval_expr, never
    stored on the engine)
 R3 the evaluator dispatch covers every expression class, and each visitor re-evaluates every child and
    rebuilds the node with its own class and every field in constructor order
 R4 a block is executed assignment block by assignment block, in order, and its destination is evaluated
    after the last one
"""
import ast

from sa.astutil import walk_body, walk_local, dotted, norm, callee_attr
from sa.cfg import CFG, node_calls
from sa.exprmodel import ExprModel, KINDS

SE = "miasm/ir/symbexec.py"
ES = "miasm/jitter/emulatedsymbexec.py"
LEVEL_TEXT = ("Effect and ordering rules over SymbolicExecutionEngine: the evaluation closure is write-free and "
              "dominates all writes of an assignment block; per-block cache; dispatch and visitor completeness against the "
              "Expr classes' fields. Soundness w.r.t. concrete execution is not decided.")
LEVEL_TEXT += " Also: the emulated engine's VM bridge lays values out big endian at the access width and reverses last, only for little-endian VMs."
ASSUMPTIONS = ["CPython ast", "the symbolic state is self.symbols (SymbolMngr); state writes are symbols.write / item assignment / mem_write / apply_change"]
CLS = "SymbolicExecutionEngine"


def _direct_state_write(fn):
    for n in walk_body(fn):
        if isinstance(n, ast.Call) and dotted(n.func) in ("self.symbols.write", "self.symbols.symbols_mem.write", "self.symbols.clear",
                                                           "self.symbols.symbols_id.clear"):
            return norm(n)
        if isinstance(n, (ast.Assign, ast.AugAssign, ast.Delete)):
            tg = n.targets if isinstance(n, (ast.Assign, ast.Delete)) else [n.target]
            for t in tg:
                b = t
                while isinstance(b, ast.Subscript):
                    b = b.value
                d = dotted(b)
                if d and d.startswith("self.symbols") and isinstance(t, ast.Subscript):
                    return norm(n)
                if d == "self.symbols" and not isinstance(t, ast.Subscript):
                    return norm(n)
    return None


def run(ck):
    em = ExprModel(ck.repo)
    m = ck.repo.mod(SE)
    meths = m.methods(CLS)
    ck.rule("R1", "sources and destination pointers of an assignment block are all evaluated before any state write; evaluation is write-free", floor=2)
    ck.rule("R2", "the evaluation cache lives for one assignment block only", floor=1)
    ck.rule("R3", "every expression class has a visitor that re-evaluates every child and rebuilds the same node", floor=10)
    ck.rule("R4", "assignment blocks execute in order; the destination is evaluated last", floor=1)
    ck.rule("R5", "symbolic memory returns the bytes that were written: writer/reader byte-order agreement of MemArray (rules shared with C13-R2)", floor=4)
    from rules.c13 import byte_order_rules
    byte_order_rules(ck, ck.repo.mod(SE), "R5")
    ck.rule("R7", "the emulated engine lays a value out big endian at its access width and reverses it last, only for little-endian VMs", floor=4)
    emulated_byte_order_rules(ck, "R7")
    ck.rule("R6", "SymbolMngr store discipline: every path of write() updates the matching table; no bypass, no removal instead of a store", floor=8)
    from rules._symstore import symstore_rules
    symstore_rules(ck, "R6")

    # effect summaries: which methods may write the symbolic state (transitively through self.* calls)
    writes = dict((n, _direct_state_write(f)) for n, f in meths.items())
    # expr_to_visitor targets are called through `func(...)` in eval_expr_visitor
    init = meths["__init__"]
    disp = {}
    for n in walk_body(init):
        if isinstance(n, ast.Assign) and norm(n.targets[0]) == "self.expr_to_visitor" and isinstance(n.value, ast.Dict):
            for k, v in zip(n.value.keys, n.value.values):
                disp[norm(k)] = dotted(v)[5:] if dotted(v) and dotted(v).startswith("self.") else None
    ck.need(disp, "SymbolicExecutionEngine.__init__: expr_to_visitor table not found")
    calls = {}
    for n, f in meths.items():
        cs = set()
        for c in walk_body(f):
            if isinstance(c, ast.Call):
                d = dotted(c.func)
                if d and d.startswith("self.") and d[5:] in meths:
                    cs.add(d[5:])
        if n == "eval_expr_visitor":
            cs |= set(v for v in disp.values() if v)
        calls[n] = cs
    # overrides in the emulated engine
    em2 = ck.repo.mod(ES)
    over = em2.methods("EmulatedSymbExec")

    def closure(root):
        seen = set()
        stack = [root]
        while stack:
            x = stack.pop()
            if x in seen:
                continue
            seen.add(x)
            stack.extend(calls.get(x, ()))
        return seen
    clo = closure("eval_assignblk")
    dirty = [(n, writes[n]) for n in sorted(clo) if writes.get(n)]
    # mem_write / apply_change are writers by definition
    dirty += [(n, "is a state writer") for n in sorted(clo) if n in ("mem_write", "apply_change", "eval_updt_assignblk", "eval_updt_expr", "set_state")]
    ck.ob("R1", "eval_assignblk:write-free-closure", not dirty, m.where(meths["eval_assignblk"]),
          "evaluating an assignment block can modify the state through %s: later sources would see earlier writes" % dirty[:3])
    for name in ("mem_read",):
        if name in over:
            w = _direct_state_write(over[name])
            cs = [dotted(c.func) for c in walk_body(over[name]) if isinstance(c, ast.Call)]
            bad = w or any(d in ("self.mem_write", "self.apply_change", "self.vm.set_mem") for d in cs)
            ck.ob("R1", "EmulatedSymbExec.%s:write-free" % name, not bad, em2.where(over[name]),
                  "the emulated engine's %s override modifies state (%s)" % (name, w or cs))
    fn = meths["eval_updt_assignblk"]
    cfg = CFG(fn)
    ev = [nd for nd in cfg.nodes if any(dotted(c.func) == "self.eval_assignblk" for c in node_calls(nd))]
    wr = [nd for nd in cfg.nodes if any(dotted(c.func) in ("self.apply_change", "self.mem_write", "self.symbols.write") for c in node_calls(nd))]
    ok = len(ev) == 1 and bool(wr) and all(ev[0].id in cfg.dominators()[w.id] for w in wr) and not cfg.can_reach(wr[0].id, ev[0].id)
    ck.ob("R1", "eval_updt_assignblk:evaluate-then-apply", ok, m.where(fn),
          "the block's evaluation does not dominate its state writes (sources must all be read before any destination is written)")
    # the values applied are the evaluated ones
    from sa.astutil import Resolver
    res_ = Resolver(fn)
    ok = any(isinstance(n, ast.For) and "self.eval_assignblk(" in res_.expand(n.iter) and
             any(dotted(c.func) in ("self.apply_change", "self.mem_write", "self.symbols.write") for c in ast.walk(n) if isinstance(c, ast.Call))
             for n in walk_body(fn))
    ck.ob("R1", "eval_updt_assignblk:applies-evaluated", ok, m.where(fn), "the writes do not iterate over the evaluated (destination, value) pairs")
    fn = meths["eval_assignblk"]
    ok = False
    blk = fn.args.args[1].arg
    for n in walk_body(fn):
        if isinstance(n, ast.For) and blk in [x.id for x in ast.walk(n.iter) if isinstance(x, ast.Name)] and isinstance(n.target, ast.Tuple) and len(n.target.elts) == 2 \
                and all(isinstance(e, ast.Name) for e in n.target.elts):
            d_, s_ = n.target.elts[0].id, n.target.elts[1].id
            evs = [norm(c.args[0]) for c in ast.walk(n) if isinstance(c, ast.Call) and dotted(c.func) == "self.eval_expr" and c.args]
            ok = s_ in evs and ("%s.ptr" % d_) in evs
    ck.ob("R1", "eval_assignblk:evaluates-src-and-ptr", ok, m.where(fn), "sources and memory destination pointers must both be evaluated in the pre-state")

    # ---------------------------------------------------------------- R2
    fn = meths["eval_assignblk"]
    fresh = any(isinstance(n, ast.Assign) and norm(n.targets[0]) == "eval_cache" and norm(n.value) in ("{}", "dict()") for n in walk_body(fn))
    passed = all(len(c.args) >= 2 and norm(c.args[1]) == "eval_cache" for c in walk_body(fn) if isinstance(c, ast.Call) and dotted(c.func) == "self.eval_expr")
    ck.ob("R2", "eval_assignblk:fresh-cache", fresh and passed, m.where(fn), "each assignment block must use its own fresh evaluation cache")
    stored = []
    for n, f in meths.items():
        for x in walk_body(f):
            if isinstance(x, ast.Assign) and any(isinstance(t, ast.Attribute) and dotted(t) and dotted(t).startswith("self.") and "cache" in t.attr for t in x.targets):
                stored.append("%s: %s" % (n, norm(x)[:50]))
    # the cache answers "what does this expression, READ IN THE PRE-STATE, evaluate to": its keys are the expression asked for (and its
    # simplified form), never the value found - a value is written over the initial symbols, and `cache[value] = value` claims that every
    # register named in it still holds its initial content
    ev_ = meths["eval_expr_visitor"]
    ep_ = ev_.args.args[1].arg
    from sa.astutil import Resolver as _Rc
    rc_ = _Rc(ev_)
    ret_names = set(norm(n.value) for n in walk_body(ev_) if isinstance(n, ast.Return) and isinstance(n.value, ast.Name))
    key_bad = []
    n_keys = 0
    for n in walk_body(ev_):
        if isinstance(n, ast.Assign):
            for t in n.targets:
                if isinstance(t, ast.Subscript) and norm(t.value) == "cache":
                    n_keys += 1
                    k0 = norm(t.slice)
                    # a key taken from a loop over a display of names stands for each of them: `for key in (expr, simplified): cache[key] = v`
                    ks = [k0]
                    for lp_ in walk_body(ev_):
                        if isinstance(lp_, ast.For) and isinstance(lp_.target, ast.Name) and lp_.target.id == k0 and isinstance(lp_.iter, (ast.Tuple, ast.List)):
                            ks = [norm(e_) for e_ in lp_.iter.elts]
                    for k in ks:
                        # accepted keys: the parameter, or a local defined once as expr_simp(parameter) / the parameter itself
                        d_ = rc_.unique_def(k) if k.isidentifier() else None
                        from_input = k == ep_ or (d_ is not None and ep_ in [x.id for x in ast.walk(d_) if isinstance(x, ast.Name)] and
                                                  not any(isinstance(c, ast.Call) and isinstance(c.func, ast.Name) and c.func.id == "func" for c in ast.walk(d_)))
                        if not from_input or k in ret_names:
                            key_bad.append("%s (key %s)" % (norm(n)[:50], k))
    ck.ob("R2", "eval_expr_visitor:cache-keys-are-inputs", n_keys >= 1 and not key_bad, m.where(ev_),
          "the evaluation cache is filled under a key that is not the expression asked for (%s): a result, expressed over the initial symbols, "
          "would be looked up as if it were read in the current state" % "; ".join(key_bad))
    ck.ob("R2", "engine:no-persistent-cache", not stored, m.where(meths["eval_expr_visitor"]),
          "an evaluation cache is kept on the engine (%s): values cached before a state write would be reused after it" % stored[:2])

    # ---------------------------------------------------------------- R3
    for k in KINDS:
        if k == "ExprAssign":
            continue
        ck.ob("R3", "dispatch:%s" % k, k in disp and disp[k] in meths, m.where(init), "no visitor registered for %s" % k)
        if k not in disp or disp[k] not in meths:
            continue
        f = meths[disp[k]]
        ep = f.args.args[1].arg
        children = em.children(k)
        if not children:
            continue
        for ch in children:
            if ch == "args":
                ok = any(isinstance(l, ast.For) and norm(l.iter) == "%s.args" % ep and any(
                    isinstance(c, ast.Call) and dotted(c.func) == "self.eval_expr_visitor" and norm(c.args[0]) == norm(l.target) for c in walk_local(l))
                    for l in walk_body(f)) or any(isinstance(c, ast.ListComp) and "self.eval_expr_visitor(" in norm(c) and "%s.args" % ep in norm(c) for c in walk_body(f))
            else:
                ok = any(isinstance(c, ast.Call) and dotted(c.func) == "self.eval_expr_visitor" and c.args and norm(c.args[0]) == "%s.%s" % (ep, ch)
                         for c in walk_body(f))
            ck.ob("R3", "%s:child:%s" % (disp[k], ch), ok, m.where(f), "child `%s` of %s is not re-evaluated in the current state" % (ch, k))
        # rebuild with own class, fields in order (ExprMem goes through mem_read(ExprMem(ptr, size)))
        build = [c for c in walk_body(f) if isinstance(c, ast.Call) and callee_attr(c) in KINDS]
        ok = bool(build) and callee_attr(build[0]) == k
        if ok:
            local = {}
            for s in walk_body(f):
                if isinstance(s, ast.Assign) and isinstance(s.targets[0], ast.Name):
                    local[s.targets[0].id] = s.value
            got = []
            for a in build[0].args:
                a2 = a.value if isinstance(a, ast.Starred) else a
                if isinstance(a2, ast.Name) and a2.id in local and not isinstance(local[a2.id], ast.List):
                    a2 = local[a2.id]
                fm = [x.attr for x in walk_local(a2) if isinstance(x, ast.Attribute) and norm(x.value) == ep and x.attr in em.fields[k]]
                if not fm and isinstance(a, ast.Starred):
                    fm = ["args"]
                got.append(fm[0] if fm else "?")
            ok = got == em.fields[k]
        ck.ob("R3", "%s:rebuild" % disp[k], ok, m.where(f), "%s does not rebuild a %s from its fields %s in order" % (disp[k], k, em.fields[k]))

    # ---------------------------------------------------------------- R4
    fn = meths["eval_updt_irblock"]
    cfg = CFG(fn)
    loop = [nd for nd in cfg.nodes if nd.kind == "for" and norm(nd.ast.iter) in ("irb", "irb.assignblks")]
    upd = [nd for nd in cfg.nodes if any(dotted(c.func) == "self.eval_updt_assignblk" for c in node_calls(nd))]
    dst = [nd for nd in cfg.nodes if any(dotted(c.func) == "self.eval_expr" and "IRDst" in norm(c) for c in node_calls(nd))]
    ok = bool(loop) and bool(upd) and bool(dst) and all(not cfg.can_reach(d.id, u.id) for d in dst for u in upd) and \
        all(cfg.can_reach(u.id, d.id) for d in dst for u in upd)
    ck.ob("R4", "eval_updt_irblock", ok, m.where(fn), "assignment blocks must be applied in order and IRDst evaluated after the last one")


def emulated_byte_order_rules(ck, rid):
    """The emulated engine's bridge to the concrete VM (EmulatedSymbExec.mem_write / mem_read): a value of `size` bytes is laid out most
    significant byte first, brought to exactly `size` bytes, and THEN reversed when the VM is little endian - the reversal is the last
    thing that happens to the bytes before vm.set_mem / the first after vm.get_mem.  A padding added after the reversal ends up on the
    wrong side for big-endian targets; a reversal that is not tied to is_little_endian() swaps bytes on the wrong targets."""
    from sa.facts import guard_facts, truthy
    em2 = ck.repo.mod(ES)
    meths = em2.methods("EmulatedSymbExec")
    for mname, sink, src in (("mem_write", "self.vm.set_mem", None), ("mem_read", None, "self.vm.get_mem")):
        fn = meths.get(mname)
        if fn is None:
            ck.ob(rid, "EmulatedSymbExec.%s:byte-order" % mname, False, ES, "method vanished")
            continue
        cfg = CFG(fn)
        facts = guard_facts(cfg)

        def reversal_of(nd):
            """name reversed at this node, or None: an assignment whose value takes `<expr>[::-1]`"""
            a = nd.ast
            if nd.kind == "stmt" and isinstance(a, ast.Assign) and len(a.targets) == 1 and isinstance(a.targets[0], ast.Name):
                for x in ast.walk(a.value):
                    if isinstance(x, ast.Subscript) and isinstance(x.slice, ast.Slice) and x.slice.lower is None and x.slice.upper is None \
                            and x.slice.step is not None and norm(x.slice.step) == "-1":
                        return a.targets[0].id, x
            return None, None
        revs = [(nd,) + reversal_of(nd) for nd in cfg.nodes if reversal_of(nd)[0]]
        ck.ob(rid, "EmulatedSymbExec.%s:reversal-present" % mname, len(revs) >= 1, em2.where(fn), "no byte reversal for little-endian VMs found")
        for nd, name, sub in revs:
            # tied to the VM's byte order: a must-fact at the node, or the reversal sits in the arm of a conditional expression on it
            tied = truthy(facts.get(nd.id, frozenset()), "self.vm.is_little_endian()")
            p = getattr(sub, "_parent", None)
            ch = sub
            while p is not None and p is not nd.ast and not tied:
                if isinstance(p, ast.IfExp) and norm(p.test) == "self.vm.is_little_endian()" and any(x is ch for x in ast.walk(p.body)):
                    tied = True
                ch, p = p, getattr(p, "_parent", None)
            ck.ob(rid, "EmulatedSymbExec.%s:reversal-iff-little-endian" % mname, tied, em2.where(nd.ast),
                  "the bytes are reversed at a point where the VM is not known to be little endian")
            if sink is not None:
                sinks = [s_ for s_ in cfg.nodes if any(dotted(c.func) == sink and len(c.args) >= 2 and norm(c.args[1]) == name for c in node_calls(s_))]
                ck.ob(rid, "EmulatedSymbExec.%s:stores-reversed-bytes" % mname, bool(sinks), em2.where(fn), "%s does not receive `%s`" % (sink, name))
                late = []
                for o in cfg.nodes:
                    if o is nd or o.kind != "stmt":
                        continue
                    a = o.ast
                    rebind = (isinstance(a, ast.Assign) and any(isinstance(t, ast.Name) and t.id == name for t in a.targets)) or \
                        (isinstance(a, ast.AugAssign) and isinstance(a.target, ast.Name) and a.target.id == name)
                    if rebind and cfg.can_reach(nd.id, o.id) and any(cfg.can_reach(o.id, s_.id) for s_ in sinks):
                        late.append(norm(a)[:60])
                ck.ob(rid, "EmulatedSymbExec.%s:reversal-is-last" % mname, not late, em2.where(nd.ast),
                      "`%s` is changed after the byte-order reversal and before the store (%s): bytes added or removed there sit on the "
                      "wrong end for one of the two byte orders" % (name, "; ".join(late)))
            else:
                # reader: the bytes reversed are the bytes of vm.get_mem, and nothing else happens to them (the reversed bytes may get a
                # name of their own: `msb_first = raw[::-1] if little endian else raw`)
                operand = norm(sub.value)
                srcs = [s_ for s_ in cfg.nodes if s_.kind == "stmt" and isinstance(s_.ast, ast.Assign) and any(dotted(c.func) == src for c in node_calls(s_))
                        and isinstance(s_.ast.targets[0], ast.Name) and s_.ast.targets[0].id == operand]
                direct = isinstance(sub.value, ast.Call) and dotted(sub.value.func) == src
                ck.ob(rid, "EmulatedSymbExec.%s:reverses-read-bytes" % mname, bool(srcs) or direct, em2.where(fn),
                      "the reversed bytes `%s` are not the bytes returned by %s" % (operand, src))
                early = []
                for o in cfg.nodes:
                    if o is nd or o.kind != "stmt" or o in srcs:
                        continue
                    a = o.ast
                    for nm_ in set([name, operand]):
                        rebind = (isinstance(a, ast.Assign) and any(isinstance(t, ast.Name) and t.id == nm_ for t in a.targets)) or \
                            (isinstance(a, ast.AugAssign) and isinstance(a.target, ast.Name) and a.target.id == nm_)
                        if rebind and any(cfg.can_reach(s_.id, o.id) for s_ in srcs):
                            early.append(norm(a)[:60])
                ck.ob(rid, "EmulatedSymbExec.%s:only-reversal" % mname, not early, em2.where(nd.ast),
                      "the bytes read from the VM are changed (%s) besides the byte-order reversal" % "; ".join(early))
                used = any(isinstance(x, ast.Name) and x.id == name for r_ in walk_body(fn) if isinstance(r_, ast.Return) and r_.value is not None
                           for x in ast.walk(r_.value))
                ck.ob(rid, "EmulatedSymbExec.%s:returns-reversed-bytes" % mname, used, em2.where(fn),
                      "the value returned is not built from the byte-order corrected bytes `%s`" % name)
