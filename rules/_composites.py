"""Composite translations decided on the TERM the translator builds (sa/transterm, sa/peval), not on its source text:
helper extraction, renamed temporaries, loops vs unrolled code, reordered commutative operands leave the term unchanged.

 parity          : the term is an XOR chain whose one-bit pieces are exactly bits 0..7 of the operand and whose constant is 1
 cnttrailzeros   : an if-chain of single-bit tests; for every k the inputs whose LOWEST set bit is k give k; no bit set gives the width
 cntleadzeros    : same with the HIGHEST set bit k giving width-1-k
 rotations (SMT) : (a SH1 s) | (a SH2 (W - s)) with s = b reduced modulo W, SH1/SH2 = shl/lshr for <<< and lshr/shl for >>>
 sdiv / smod (z3): UDiv(|a|, |b|) * sign with sign = If(sext(a) * sext(b) >= 0, 1, -1);  smod = a - b * sdiv
A term outside these families is reported as "formulation not understood" (analysis error), never as a violation.
"""
from sa.peval import Term, Undetermined, UnboundLocal
from sa.repo import AnalysisError
from sa import transterm as tt


def _term(ck, lang, op, nargs, size):
    try:
        return (tt.z3_term if lang == "z3" else tt.smt2_term)(ck.repo, op, nargs, size)
    except UnboundLocal as e:
        ck.ob("R1", "%s:%s:runs" % (lang, op), False, "", "translating %r at %d bits: %s" % (op, size, e))
        raise AnalysisError("%s translation of %r: %s" % (lang, op, e))
    except Undetermined as e:
        raise AnalysisError("%s translation of %r at %d bits: construct not understood by the partial evaluator (%s)" % (lang, op, size, e))


def parity_rule(ck, rid, lang, where):
    for W in (8, 16):
        t = _term(ck, lang, "parity", 1, W)
        xc = tt.xor_chain(t, lang)
        if xc is None:
            raise AnalysisError("%s parity: the term is not an XOR chain of one-bit pieces: %r" % (lang, t))
        const, bits = xc
        want = [("a", i) for i in range(8)]
        ck.ob(rid, "%s:u:parity@%d" % (lang, W), const == 1 and bits == want, where,
              "parity is translated as %d xor bits %s of the operand; miasm's parity is 1 xor bits 0..7 (even parity of the low byte gives 1)"
              % (const, [b for (_n, b) in bits]))


def zero_count_rule(ck, rid, lang, op, where):
    kind = "low" if op == "cnttrailzeros" else "high"
    for W in (4, 5, 8):
        t = _term(ck, lang, op, 1, W)
        dl = tt.bit_decision_list(t, lang, W)
        if dl is None:
            raise AnalysisError("%s %s: the term is not a chain of single-bit tests: %r" % (lang, op, t))
        chain, default = dl
        bad = []
        for k in [None] + list(range(W)):
            want = W if k is None else (k if kind == "low" else W - 1 - k)
            got = tt.decision_list_value(chain, default, kind, k, W)
            if got != ("value", want):
                bad.append("%s set bit %s -> %s (expected %d)" % ("lowest" if kind == "low" else "highest", "none" if k is None else k,
                                                                 got[1] if got[0] == "value" else "depends on bit %d tested earlier" % got[1], want))
        tested = sorted(set(b for (b, _v) in chain))
        if tested != list(range(W)):
            bad.append("bits tested: %s (the operand has bits 0..%d)" % (tested, W - 1))
        ck.ob(rid, "%s:u:%s@%d" % (lang, op, W), not bad, where, "%s at %d bits: %s" % (op, W, "; ".join(bad[:3])))


def _sx(t, head, n):
    return isinstance(t, Term) and t.head == "sx" and len(t.args) == n + 1 and t.args[0] == head


def _is_leaf(t, name):
    return isinstance(t, Term) and t.head == "leaf" and t.args[0] == name


def _reduced_count(s, W):
    """Is s = leaf b reduced modulo W?  (bvand b (W-1)) for a power of two, or (bvurem b W)."""
    if _sx(s, "bvand", 2):
        for x, y in ((s.args[1], s.args[2]), (s.args[2], s.args[1])):
            c = tt._smt_const(y)
            if _is_leaf(x, "b") and c is not None and c[0] == W - 1 and W & (W - 1) == 0:
                return True
    if _sx(s, "bvurem", 2) and _is_leaf(s.args[1], "b"):
        c = tt._smt_const(s.args[2])
        return c is not None and c[0] == W
    return False


def smt_rotation_rule(ck, rid, where):
    W = 8
    for op, first, second in (("<<<", "bvshl", "bvlshr"), (">>>", "bvlshr", "bvshl")):
        t = _term(ck, "smt2", op, 2, W)
        if not _sx(t, "bvor", 2):
            raise AnalysisError("smt2 rotation %r: the term is not an OR of two shifts: %r" % (op, t))
        parts = [t.args[1], t.args[2]]
        if not all(isinstance(p, Term) and p.head == "sx" and len(p.args) == 3 and p.args[0] in ("bvshl", "bvlshr") for p in parts):
            raise AnalysisError("smt2 rotation %r: the term is not an OR of two shifts: %r" % (op, t))
        # the "direct" part shifts by the reduced count, the "wrap" part by W - reduced count
        direct = [p for p in parts if _reduced_count(p.args[2], W)]
        wrap = [p for p in parts if _sx(p.args[2], "bvsub", 2)]
        why = []
        if len(direct) != 1 or len(wrap) != 1:
            why.append("expected one shift by the count reduced modulo the width and one by width minus it; got %r and %r" % (parts[0].args[2], parts[1].args[2]))
        else:
            d, w = direct[0], wrap[0]
            if d.args[0] != first or w.args[0] != second:
                why.append("%s / %s used where %s / %s are expected" % (d.args[0], w.args[0], first, second))
            if not (_is_leaf(d.args[1], "a") and _is_leaf(w.args[1], "a")):
                why.append("the rotated value is not the first operand in both parts")
            c = tt._smt_const(w.args[2].args[1])
            if c is None or c[0] != W:
                why.append("the complement is not taken from the width")
            if not _reduced_count(w.args[2].args[2], W):
                why.append("the complementary shift uses `%r`, not the count reduced modulo the width: for counts above the width the "
                           "wrapped-around bits are lost" % (w.args[2].args[2],))
        ck.ob(rid, "smt2:b:%s:composition" % op, not why, where, "rotation %r: %s" % (op, "; ".join(why)))


def _z3_abs_of(t, name):
    if not (isinstance(t, Term) and t.head == "z3.If" and len(t.args) == 3 and isinstance(t.args[0], Term) and t.args[0].head == "cmp"):
        return False
    c = t.args[0].args
    neg = lambda x: isinstance(x, Term) and x.head == "op" and x.args[0] == "neg" and _is_leaf(x.args[1], name)
    # 0 <= x ? x : -x      |      x < 0 ? -x : x
    if c[0] == "<=" and c[1] == 0 and _is_leaf(c[2], name):
        return _is_leaf(t.args[1], name) and neg(t.args[2])
    if c[0] == "<" and _is_leaf(c[1], name) and c[2] == 0:
        return neg(t.args[1]) and _is_leaf(t.args[2], name)
    return False


def _z3_sdiv_shape(t, W):
    """None when t is UDiv(|a|, |b|) * If(sext(a) * sext(b) >= 0, 1, -1) (either order); else a reason."""
    if not (isinstance(t, Term) and t.head == "op" and t.args[0] == "*"):
        return "not a product of magnitude quotient and sign"
    parts = [t.args[1], t.args[2]]
    q = [p for p in parts if isinstance(p, Term) and p.head == "z3.UDiv"]
    s = [p for p in parts if isinstance(p, Term) and p.head == "z3.If"]
    if len(q) != 1 or len(s) != 1:
        return "not a product of an unsigned quotient and a sign selection"
    q, s = q[0], s[0]
    if not (_z3_abs_of(q.args[0], "a") and _z3_abs_of(q.args[1], "b")):
        return "the quotient is not |first operand| / |second operand|"
    c = s.args[0]
    pos_first = None
    prod = None
    if isinstance(c, Term) and c.head == "cmp":
        if c.args[0] == "<=" and c.args[1] == 0:
            prod, pos_first = c.args[2], True          # 0 <= product ? +1 : -1
        elif c.args[0] == "<" and c.args[2] == 0:
            prod, pos_first = c.args[1], False         # product < 0 ? -1 : +1
    ok_c = prod is not None and isinstance(prod, Term) and prod.head == "op" and prod.args[0] == "*"
    if not ok_c:
        return "the sign is not decided by `product of the sign-extended operands >= 0`"
    f = sorted(repr(x) for x in prod.args[1:])
    want = sorted(repr(Term("sext", 2 * W, Term("leaf", n, W))) for n in "ab")
    if f != want:
        return "the sign test multiplies %s, expected the operands sign-extended to %d bits (a narrower product overflows)" % (f, 2 * W)
    plus, minus = (s.args[1], s.args[2]) if pos_first else (s.args[2], s.args[1])
    if tt._z3_const(plus) != (1, W) or tt._z3_const(minus) != (-1, W):
        return "the sign factor is not +1 / -1 on %d bits" % W
    return None


def z3_sdiv_rules(ck, rid, where):
    W = 8
    t = _term(ck, "z3", "sdiv", 2, W)
    why = _z3_sdiv_shape(t, W)
    ck.ob(rid, "z3:b:sdiv:composition", why is None, where, "sdiv: %s" % why)
    t = _term(ck, "z3", "smod", 2, W)
    ok = isinstance(t, Term) and t.head == "op" and t.args[0] == "-" and _is_leaf(t.args[1], "a") and isinstance(t.args[2], Term) \
        and t.args[2].head == "op" and t.args[2].args[0] == "*"
    why = "not `a - b * sdiv(a, b)`"
    if ok:
        parts = [t.args[2].args[1], t.args[2].args[2]]
        b = [p for p in parts if _is_leaf(p, "b")]
        d = [p for p in parts if not _is_leaf(p, "b")]
        if len(b) == 1 and len(d) == 1:
            why = _z3_sdiv_shape(d[0], W)
        else:
            why = "not `a - b * sdiv(a, b)`"
    ck.ob(rid, "z3:b:smod:composition", ok and why is None, where, "smod: %s" % why)


def z3_extension_rules(ck, rid, where):
    for op, head in (("zeroExt_16", "z3.ZeroExt"), ("signExt_16", "z3.SignExt")):
        try:
            t = tt.z3_term(ck.repo, op, 1, 16, arg_sizes=[8])
        except Undetermined as e:
            raise AnalysisError("z3 %s: %s" % (op, e))
        ok = isinstance(t, Term) and t.head == head and len(t.args) == 2 and t.args[0] == 8 and _is_leaf(t.args[1], "a")
        ck.ob(rid, "z3:u:%s:composition" % op.split("_")[0], ok, where, "%s of an 8-bit operand is translated as %r, expected %s(8, operand)" % (op, t, head))


# ---------------------------------------------------------------------------------------------------------------------
# structural handlers and memory models, decided on the built term

def _leafname(t):
    return t.args[0] if isinstance(t, Term) and t.head == "leaf" else None


def structure_rules(ck, rid, lang, where):
    from sa.peval import FakeExpr
    L = lang
    # slice
    sl = FakeExpr("slice", 8, extra={"arg": FakeExpr("id", 32, name="a"), "start": 4, "stop": 12})
    try:
        t = tt.handler_term(ck.repo, L, "from_ExprSlice", sl)
        ex = tt.extract_of(t, L)
        ck.ob(rid, "slice:extract", ex is not None and ex[0] == 11 and ex[1] == 4 and _leafname(ex[2]) == "a", where,
              "a[4:12] is translated as %r: expected the extraction of bits 11..4 of the operand" % (t,))
        # compose: later arguments are more significant, each contributes all of its bits
        comp = FakeExpr("compose", 32, args=[FakeExpr("id", 8, name="a"), FakeExpr("id", 16, name="b"), FakeExpr("id", 8, name="c")])
        t = tt.handler_term(ck.repo, L, "from_ExprCompose", comp)
        pieces = []
        for x in tt.concat_list(t, L):
            ex = tt.extract_of(x, L)
            if ex is not None:
                pieces.append((_leafname(ex[2]), ex[0], ex[1]))
            else:
                pieces.append((_leafname(x), None, 0))
        want = [("c", 7, 0), ("b", 15, 0), ("a", 7, 0)]
        norm_p = [(n, (hi if hi is not None else {"a": 7, "b": 15, "c": 7}.get(n)), lo) for (n, hi, lo) in pieces]
        ck.ob(rid, "compose:later-high", norm_p == want, where,
              "{a(8), b(16), c(8)} is translated with pieces %s (most significant first): expected c, b, a, each with all of its bits" % (pieces,))
        # cond: non-zero condition selects src1
        cd = FakeExpr("cond", 8, extra={"cond": FakeExpr("id", 4, name="c"), "src1": FakeExpr("id", 8, name="x"), "src2": FakeExpr("id", 8, name="y")})
        t = tt.handler_term(ck.repo, L, "from_ExprCond", cd)
        ok = False
        it = tt._ite(t, L)
        if it is not None:
            c, a, b = it
            if L == "z3":
                nz = isinstance(c, Term) and c.head == "cmp" and c.args[0] == "!=" and _leafname(c.args[1]) == "c" and c.args[2] == 0
                z = isinstance(c, Term) and c.head == "cmp" and c.args[0] == "==" and _leafname(c.args[1]) == "c" and c.args[2] == 0
            else:
                def is_nz(x):
                    if isinstance(x, Term) and x.head == "sx" and len(x.args) == 3 and x.args[0] == "distinct":
                        zc = tt._smt_const(x.args[2])
                        return _leafname(x.args[1]) == "c" and zc is not None and zc[0] == 0
                    if isinstance(x, Term) and x.head == "sx" and x.args[0] == "and":
                        rest = [y for y in x.args[1:] if y != "true"]
                        return len(rest) == 1 and is_nz(rest[0])
                    return False
                nz, z = is_nz(c), False
            ok = (nz and _leafname(a) == "x" and _leafname(b) == "y") or (z and _leafname(a) == "y" and _leafname(b) == "x")
        ck.ob(rid, "cond:nonzero-selects-src1", ok, where, "c ? x : y is translated as %r: a non-zero condition must select the first source" % (t,))
    except UnboundLocal as e:
        ck.ob(rid, "structure:runs", False, where, "a structural handler cannot build its term: %s" % e)
    except Undetermined as e:
        raise AnalysisError("%s structural handlers: construct not understood by the partial evaluator (%s)" % (lang, e))


def memory_rules(ck, rid, lang, where):
    try:
        for endian, want, label in (("<", [3, 2, 1, 0], "little"), (">", [0, 1, 2, 3], "big")):
            t = tt.mem_term(ck.repo, lang, endian, 32)
            offs = [tt.byte_offset(x, lang) for x in tt.concat_list(t, lang)]
            ck.ob(rid, "mem.get:%s" % label, offs == want, where,
                  "a 32-bit %s-endian read concatenates the bytes at offsets %s (most significant first); expected %s" % (label, offs, want))
        t = tt.mem_term(ck.repo, lang, "<", 12)
        ex = tt.extract_of(t, lang)
        offs = [tt.byte_offset(x, lang) for x in tt.concat_list(ex[2], lang)] if ex else None
        ck.ob(rid, "mem.get:unaligned-size", ex is not None and ex[0] == 11 and ex[1] == 0 and offs == [1, 0], where,
              "a 12-bit read is translated as %r: expected the low 12 bits of the two bytes read" % (t,))
    except UnboundLocal as e:
        ck.ob(rid, "mem.get:runs", False, where, "the memory model cannot build its term: %s" % e)
    except Undetermined as e:
        raise AnalysisError("%s memory model: construct not understood by the partial evaluator (%s)" % (lang, e))


# ---------------------------------------------------------------------------------------------------------------------
# the C translator, decided on the text it emits (operands symbolic)

def _pow2(n):
    n = max(n, 8)
    p = 1
    while p < n:
        p <<= 1
    return p


def c_compare_rules(ck, rid, where):
    """Each native comparison is emitted as ((CAST)a OP (CAST)b)?1:0 with OP the C token of the comparison, CAST intN_t for the signed
    and uintN_t for the unsigned / equality ones, N the C integer width holding the operands, and both operands extended to N."""
    import re
    REF = {"==": ("==", "u"), "<u": ("<", "u"), "<=u": ("<=", "u"), "<s": ("<", ""), "<=s": ("<=", "")}
    try:
        for op, (tok, sgn) in sorted(REF.items()):
            for asz in (8, 12, 32, 64):
                t = tt.c_term(ck.repo, op, 2, 1, arg_sizes=[asz, asz])
                text, terms = tt.ctext_flat(t)
                W = _pow2(asz)
                m = re.match(r"^\(\(\((u?)int(\d+)_t\)\s*§0§\s*(==|<=|<|>=|>|!=)\s*\((u?)int(\d+)_t\)\s*§1§\)\s*\?\s*1\s*:\s*0\)$", text)
                why = None
                if not m:
                    why = "emitted text `%s` is not ((CAST)a OP (CAST)b)?1:0" % text
                else:
                    if m.group(3) != tok:
                        why = "C operator `%s`, expected `%s`" % (m.group(3), tok)
                    elif m.group(1) != sgn or m.group(4) != sgn:
                        why = "operands cast to %sint / %sint, expected %sint (a %s comparison)" % (m.group(1), m.group(4), sgn, "signed" if sgn == "" else "unsigned")
                    elif int(m.group(2)) != W or int(m.group(5)) != W:
                        why = "cast width %s / %s, expected %d for %d-bit operands" % (m.group(2), m.group(5), W, asz)
                    else:
                        for k, name in enumerate("ab"):
                            x = terms[k]
                            inner = x.args[1] if isinstance(x, Term) and x.head in ("sext", "zext") else x
                            wx = x.args[0] if isinstance(x, Term) and x.head in ("sext", "zext") else asz
                            if not _is_leaf(inner, name) or wx != W or (sgn == "" and isinstance(x, Term) and x.head == "zext" and asz != W):
                                why = "operand %d is `%r`, expected operand %s %s-extended to %d bits" % (k, x, name, "sign" if sgn == "" else "sign- or zero", W)
                ck.ob(rid, "c:%s@%d:emitted" % (op, asz), why is None, where, "comparison %r on %d-bit operands: %s" % (op, asz, why))
    except Undetermined as e:
        raise AnalysisError("C translation of comparisons: construct not understood by the partial evaluator (%s)" % e)


def c_associative_rules(ck, rid, where):
    """An associative operator with three operands is emitted as (((a&M) OP (b&M) OP (c&M))&M), OP being the operator's own C token."""
    import re
    try:
        for op in ("+", "*", "^", "&", "|"):
            t = tt.c_term(ck.repo, op, 3, 16)
            text, terms = tt.ctext_flat(t)
            o = re.escape(op)
            m = re.match(r"^\(\(\(§0§&0xffff\)\s*%s\s*\(§1§&0xffff\)\s*%s\s*\(§2§&0xffff\)\)&0xffff\)$" % (o, o), text)
            ok = bool(m) and [_leafname(x) for x in terms] == ["a", "b", "c"]
            ck.ob(rid, "c:%s:n-ary:emitted" % op, ok, where, "%r over three 16-bit operands is emitted as `%s` on %s" % (op, text, [repr(x) for x in terms]))
    except Undetermined as e:
        raise AnalysisError("C translation of associative operators: construct not understood by the partial evaluator (%s)" % e)


# ---------------------------------------------------------------------------------------------------------------------
# LLVM back end (C20-R6): what LLVMFunction.add_ir asks the IRBuilder to build, as a term

def _ll(t):
    """builder term -> plain tuples: ("const", width, value) / ("leaf", name) / (builder op, operands...) / ("type", width)"""
    if isinstance(t, Term):
        if t.head == "leaf":
            return ("leaf", t[1])
        if t.head == "apply" and isinstance(t[1], Term) and t[1].head.endswith("IntType") and len(t) == 3 and isinstance(t[2], int):
            w = t[1][1]
            return ("const", w, t[2] & ((1 << w) - 1)) if isinstance(w, int) else ("const", w, t[2])
        if t.head.endswith(".Constant") and len(t) == 3 and isinstance(t[1], Term) and t[1].head.endswith("IntType") and isinstance(t[2], int):
            w = t[1][1]
            return ("const", w, t[2] & ((1 << w) - 1))
        if t.head.endswith("IntType") and len(t) == 2:
            return ("type", t[1])
        if t.head.startswith("B."):
            return (t.head[2:],) + tuple(_ll(x) for x in t.args)
        return (t.head,) + tuple(_ll(x) for x in t.args)
    if isinstance(t, (list, tuple)):
        return tuple(_ll(x) for x in t)
    return t


def _ll_cond(c):
    """comparison term -> (signedness, relation in == < <=, left, right), negations and > >= folded away; None when not a comparison"""
    if not (isinstance(c, tuple) and c and c[0] in ("icmp_unsigned", "icmp_signed") and len(c) == 4):
        return None
    sg = "u" if c[0] == "icmp_unsigned" else "s"
    tok, l, r = c[1], c[2], c[3]
    if tok == ">":
        tok, l, r = "<", r, l
    elif tok == ">=":
        tok, l, r = "<=", r, l
    if tok == "==":
        sg = "u"
    return (sg, tok, l, r)


def _ll_negate(cc):
    sg, tok, l, r = cc
    if tok == "<":
        return (sg, "<=", r, l)
    if tok == "<=":
        return (sg, "<", r, l)
    return (sg, {"==": "!=", "!=": "=="}[tok], l, r)


def _ll_bool(t, size):
    """a 0/1 result: select(c, 1, 0), select(c, 0, 1), zext(c) or the i1 comparison itself -> canonical comparison"""
    if isinstance(t, tuple) and t and t[0] == "select" and len(t) == 4:
        cc = _ll_cond(t[1])
        if cc is not None and t[2][0] == "const" and t[3][0] == "const":
            if (t[2][2], t[3][2]) == (1, 0):
                return cc
            if (t[2][2], t[3][2]) == (0, 1):
                return _ll_negate(cc)
        return None
    if isinstance(t, tuple) and t and t[0] == "zext":
        return _ll_cond(t[1])
    return _ll_cond(t)


def _ll_modlin(t, size):
    """shift amount as (k, c, reduced): k*b + c modulo `size` (a power of two, so the wrap of the machine width is invisible);
    reduced = the value is known to be < size"""
    if not isinstance(t, tuple) or not t:
        return None
    if t[0] == "leaf":
        return (1, 0, False) if t[1] == "b" else None
    if t[0] == "const":
        return (0, t[2] % size, t[2] < size)
    if t[0] == "urem" and len(t) == 3 and t[2][0] == "const" and t[2][2] == size:
        x = _ll_modlin(t[1], size)
        return None if x is None else (x[0], x[1], True)
    if t[0] == "and_" and len(t) == 3:
        for x, mk in ((t[1], t[2]), (t[2], t[1])):
            if mk[0] == "const" and mk[2] == size - 1:
                y = _ll_modlin(x, size)
                return None if y is None else (y[0], y[1], True)
        return None
    if t[0] in ("sub", "add") and len(t) == 3:
        x, y = _ll_modlin(t[1], size), _ll_modlin(t[2], size)
        if x is None or y is None:
            return None
        sgn = -1 if t[0] == "sub" else 1
        return ((x[0] + sgn * y[0]) % size, (x[1] + sgn * y[1]) % size, False)
    if t[0] == "neg" and len(t) == 2:
        x = _ll_modlin(t[1], size)
        return None if x is None else ((-x[0]) % size, (-x[1]) % size, False)
    return None


def llvm_operator_rules(ck, rid, where):
    from sa.optable import OT0, LLVM

    def term(op, nargs, size):
        try:
            return _ll(tt.llvm_term(ck.repo, op, nargs, size))
        except UnboundLocal as e:
            ck.ob(rid, "llvm:%s" % op, False, where, "translating %r at %d bits: %s" % (op, size, e))
            return None
        except Undetermined as e:
            raise AnalysisError("LLVM translation of %r at %d bits: construct not understood by the partial evaluator (%s)" % (op, size, e))
    A, Bb, C = ("leaf", "a"), ("leaf", "b"), ("leaf", "c")
    SIZES = (8, 32, 64)
    # comparisons
    CMP = {"==": ("u", "=="), "<u": ("u", "<"), "<=u": ("u", "<="), "<s": ("s", "<"), "<=s": ("s", "<=")}
    for op, (sg, tok) in sorted(CMP.items()):
        t = term(op, 2, 1)
        if t is None:
            continue
        cc = _ll_bool(t, 1)
        ck.ob(rid, "llvm:%s" % op, cc == (sg, tok, A, Bb), where,
              "comparison %r is built as %s; the reference is the %s comparison a %s b giving 1 when true"
              % (op, cc if cc is not None else t, "unsigned" if sg == "u" else "signed", tok))
    # division family and n-ary operators
    for op in ("udiv", "umod", "sdiv", "smod", "%", "/"):
        t = term(op, 2, 32)
        if t is None:
            continue
        got = LLVM.get(t[0], "?") if isinstance(t, tuple) and len(t) == 3 else "?"
        ck.ob(rid, "llvm:%s" % op, got == OT0[op], where, "operator %r is built with builder.%s = %s; miasm's meaning is %s" % (op, t[0], got, OT0[op]))
        ck.ob(rid, "llvm:division-operands:%s" % op, tuple(t[1:]) == (A, Bb), where,
              "%r must be built as op(dividend, divisor) = op(a, b); found operands %s" % (op, t[1:]))
    for op in ("*", "+", "&", "^", "|"):
        t = term(op, 3, 32)
        if t is None:
            continue
        heads, leaves = set(), []

        def rec(x):
            if isinstance(x, tuple) and x and x[0] not in ("leaf", "const") and len(x) == 3:
                heads.add(x[0])
                rec(x[1])
                rec(x[2])
            else:
                leaves.append(x)
        rec(t)
        got = LLVM.get(list(heads)[0], "?") if len(heads) == 1 else "?"
        ck.ob(rid, "llvm:%s" % op, got == OT0[op] and sorted(leaves) == [A, Bb, C], where,
              "operator %r over (a, b, c) is built as %s over %s; miasm's meaning is %s over all three operands" % (op, sorted(heads), leaves, OT0[op]))
    # shifts
    for op, prim in ((">>", "lshr"), ("<<", "shl"), ("a>>", "ashr")):
        for W in SIZES:
            t = term(op, 2, W)
            if t is None:
                continue
            sel = t if isinstance(t, tuple) and t[0] == "select" and len(t) == 4 else None
            guard = _ll_cond(sel[1]) if sel else None
            inb, oob = (sel[2], sel[3]) if sel else (t, None)
            if guard is not None and guard[1:] == ("<=", ("const", W, W), Bb):       # select(W <= b, fill, shift)
                guard, inb, oob = _ll_negate(guard), oob, inb
            got = LLVM.get(inb[0], "?") if isinstance(inb, tuple) and len(inb) == 3 else "?"
            want = {"LSHR_SAT": "LSHR_POISON", "SHL_SAT": "SHL_POISON", "ASHR_SAT": "ASHR_POISON"}[OT0[op]]
            ck.ob(rid, "llvm:%s" % op, got == want and tuple(inb[1:]) == (A, Bb), where,
                  "operator %r at %d bits shifts with builder.%s%s; miasm's meaning is %s of (a, b)" % (op, W, inb[0], inb[1:], OT0[op]))
            ck.ob(rid, "llvm:shift-saturation", guard == ("u", "<", Bb, ("const", W, W)), where,
                  "%r at %d bits: the shift must be selected only when count <u width (LLVM shifts by >= width are poison); guard found: %s" % (op, W, guard))
            if op != "a>>":
                ck.ob(rid, "llvm:shift-saturation", oob == ("const", W, 0), where, "%r at %d bits by a count >= width must give 0; found %s" % (op, W, oob))
            else:
                ok = isinstance(oob, tuple) and oob[0] == "select" and len(oob) == 4 and _ll_cond(oob[1]) == ("s", "<", A, ("const", W, 0)) and \
                    oob[2] == ("const", W, (1 << W) - 1) and oob[3] == ("const", W, 0)
                ok = ok or (isinstance(oob, tuple) and oob[0] == "ashr" and len(oob) == 3 and oob[1] == A and oob[2] == ("const", W, W - 1))
                ck.ob(rid, "llvm:ashr-sign-fill", ok, where, "a>> by a count >= width must give -1 for negative values and 0 otherwise; found %s" % (oob,))
    # rotations
    for op in ("<<<", ">>>"):
        for W in SIZES:
            t = term(op, 2, W)
            if t is None:
                continue
            bad = None
            if not (isinstance(t, tuple) and t[0] == "or_" and len(t) == 3):
                bad = "the result is not the OR of two shifted parts: %s" % (t,)
            else:
                parts = dict((p[0], p) for p in t[1:] if isinstance(p, tuple) and len(p) == 3)
                if set(parts) != set(["shl", "lshr"]) or any(p[1] != A for p in parts.values()):
                    bad = "the two parts must be a shl and a lshr of the rotated value; found %s" % (t[1:],)
                else:
                    fwd, back = ("shl", "lshr") if op == "<<<" else ("lshr", "shl")
                    f, b_ = _ll_modlin(parts[fwd][2], W), _ll_modlin(parts[back][2], W)
                    if f is None or b_ is None:
                        raise AnalysisError("LLVM rotation %r: shift amounts not understood: %s" % (op, t))
                    if f[:2] != (1, 0) or not f[2]:
                        bad = "the %s amount must be the count reduced modulo the width; found %s" % (fwd, parts[fwd][2])
                    elif b_[:2] != (W - 1, 0) or not b_[2]:
                        bad = "the %s amount must be (width - count) reduced modulo the width; found %s" % (back, parts[back][2])
            ck.ob(rid, "llvm:rotations", bad is None, where, "%r at %d bits: %s" % (op, W, bad))
    # unary minus, parity
    for W in SIZES:
        t = term("-", 1, W)
        if t is not None:
            ck.ob(rid, "llvm:neg", t in (("sub", ("const", W, 0), A), ("neg", A)), where, "unary minus at %d bits must be 0 - a; found %s" % (W, t))
        t = term("parity", 1, W)
        if t is not None:
            inner = None
            if isinstance(t, tuple) and t[0] == "not_" and len(t) == 2:
                inner = t[1]
            elif isinstance(t, tuple) and t[0] == "xor" and len(t) == 3 and ("const", 1, 1) in t[1:]:
                inner = [x for x in t[1:] if x != ("const", 1, 1)][0]
            ok = False
            if isinstance(inner, tuple) and inner[0] == "trunc" and inner[2] == ("type", 1):
                call = inner[1]
                if isinstance(call, tuple) and call[0] == "call" and isinstance(call[1], tuple) and call[1][0].endswith("get_global") and len(call[2]) == 1:
                    fname, arg = call[1][1], call[2][0]
                    ok = (fname == "llvm.ctpop.i8" and arg == ("trunc", A, ("type", 8))) or \
                         (fname == "llvm.ctpop.i%d" % W and arg in (("and_", A, ("const", W, 0xff)), ("and_", ("const", W, 0xff), A)))
            ck.ob(rid, "llvm:parity", ok, where, "parity at %d bits must be not(popcount(low byte of a) & 1); found %s" % (W, t))


# ---------------------------------------------------------------------------------------------------------------------
# explicit flag formulas (simp_flags): base formulas and the with-carry siblings

def flag_formula_rules(ck, rid, where):
    """The expression simp_flags builds for a flag operator, extracted as a term over symbolic operands (tt.flag_term).
    (1) base formulas (carry / overflow of a + b and a - b, with r the result), up to commutativity:
            ADD_CF = msb((a^b)^r ^ ((a^r) & ~(a^b)))     SUB_CF = msb((a^b)^r ^ ((a^r) & (a^b)))
            ADD_OF = msb((a^r) & ~(a^b))                  SUB_OF = msb((a^r) & (a^b))
    (2) with-carry siblings: FLAG_xxxWC_f(a, b, c) is FLAG_xxx_f(a, b) in which ONLY the result changes - r becomes a + b + zext(c),
        resp. a - (b + zext(c)); every other occurrence of b stays b (folding the carry into the operand changes the a^b terms exactly
        when b + c wraps)."""
    A, B, C = Term("leaf", "a", 32), Term("leaf", "b", 32), Term("leaf", "c", 1)

    def T(op, n):
        try:
            return tt.flag_term(ck.repo, op, [32, 32, 1][:n])
        except UnboundLocal as e:
            ck.ob(rid, "flags:%s" % op, False, where, "simp_flags(%s): %s" % (op, e))
            return None
        except Undetermined as e:
            raise AnalysisError("simp_flags(%s): construct not understood by the partial evaluator (%s)" % (op, e))
    op_ = lambda o, x, y: Term("op", o, x, y)
    ab = op_("^", A, B)
    ref = {}
    for name, r in (("ADD", op_("+", A, B)), ("SUB", op_("-", A, B))):
        third = ab if name == "SUB" else Term("op", "~", ab)
        ref["FLAG_%s_CF" % name] = Term("msb", op_("^", op_("^", ab, r), op_("&", op_("^", A, r), third)))
        ref["FLAG_%s_OF" % name] = Term("msb", op_("&", op_("^", A, r), third))
    base = {}
    for op, want in sorted(ref.items()):
        t = T(op, 2)
        base[op] = t
        if t is not None:
            ck.ob(rid, "flags:%s" % op, tt.ac_norm(t) == tt.ac_norm(want), where,
                  "%s(a, b) is built as %s; the reference formula is %s" % (op, t, want))
    zc = Term("zext", 32, C)
    wc = {"ADD": (op_("+", A, B), [op_("+", op_("+", A, B), zc), op_("+", A, op_("+", B, zc))]),
          "SUB": (op_("-", A, B), [op_("-", A, op_("+", B, zc)), op_("-", op_("-", A, B), zc)])}
    for name, (r0, r1s) in sorted(wc.items()):
        for f in ("CF", "OF"):
            b0 = base.get("FLAG_%s_%s" % (name, f))
            t = T("FLAG_%sWC_%s" % (name, f), 3)
            if b0 is None or t is None:
                continue
            wants = [tt.ac_norm(tt.term_subst(b0, r0, r1)) for r1 in r1s]
            ck.ob(rid, "flags:FLAG_%sWC_%s" % (name, f), tt.ac_norm(t) in wants, where,
                  "FLAG_%sWC_%s(a, b, c) is built as %s: it must be FLAG_%s_%s(a, b) with only the result replaced by %s "
                  "(the operand b itself stays b in the xor terms)" % (name, f, t, name, f, r1s[0]))
    # sign / zero of the with-carry result
    for op, n, want in (("FLAG_SIGN_SUB", 2, Term("msb", op_("-", A, B))),):
        t = T(op, n)
        if t is not None:
            ck.ob(rid, "flags:%s" % op, tt.ac_norm(t) == tt.ac_norm(want), where, "%s is built as %s; expected %s" % (op, t, want))
