"""C36 - IR graph simplification preserves observable behaviour: one necessary clause.

 R1 side-effect keep-set: dead-assignment removal deletes only assignments that are absent from the
    `useful` set; `useful` always contains every assignment accepted by is_unkillable_destination, and that
    predicate covers memory destinations, the IR destination, the exception-flag register and call sources;
    register definitions reaching a leaf (the calling convention's outputs) are kept
 R2 the SSA pipeline declares pc, IRDst and exception_flags immutable before the SSA transformation runs
 R3 pipeline order of the SSA simplifier: to SSA -> passes -> out of SSA -> common passes told about the SSA
    variable -> register mapping (so that output registers are tracked through their SSA names)
"""
import ast

from sa.astutil import walk_body, walk_local, dotted, norm, callee_attr
from sa.cfg import CFG, node_calls

DF = "miasm/analysis/data_flow.py"
SI = "miasm/analysis/simplifier.py"
EX = "miasm/expression/expression.py"
LEVEL_TEXT = ("Keep-set rules for DeadRemoval (what may be deleted, what must be in `useful`), immutability set and "
              "ordering of the SSA pipeline. A necessary condition only: equality of behaviour is not decided.")
LEVEL_TEXT += ' Also: a Phi source is dropped only when all the predecessor edges it flows through are deleted.'
ASSUMPTIONS = ["CPython ast", "side effects of IR are memory writes, IRDst, exception flags and call_func_* operators"]


def run(ck):
    ck.rule("R1", "only assignments outside `useful` are deleted; `useful` contains every unkillable destination and the leaf outputs", floor=5)
    ck.rule("R2", "pc, IRDst and exception_flags are immutable for the SSA transformation", floor=1)
    ck.rule("R3", "SSA simplifier pipeline order", floor=1)
    ck.rule("R4", "the aliasing test of expression propagation measures each memory access with its own base, offset and size", floor=3)
    _merge_rules(ck)
    _phi_rules(ck)
    _dummy_phi_rules(ck)

    m = ck.repo.mod(DF)
    fn = m.func("DeadRemoval.is_unkillable_destination")
    lv, rv = fn.args.args[1].arg, fn.args.args[2].arg
    tests = []
    for n in walk_body(fn):
        if isinstance(n, ast.If):
            vals = n.test.values if isinstance(n.test, ast.BoolOp) and isinstance(n.test.op, ast.Or) else [n.test]
            if any(isinstance(s, ast.Return) and norm(s.value) == "True" for s in n.body):
                tests.extend(norm(v) for v in vals)
        if isinstance(n, ast.Return) and isinstance(n.value, ast.BoolOp) and isinstance(n.value.op, ast.Or):
            tests.extend(norm(v) for v in n.value.values)
    want = {
        "memory destination": ["%s.is_mem()" % lv],
        "IR destination": ["self.lifter.IRDst == %s" % lv, "%s == self.lifter.IRDst" % lv],
        "exception flags": ["%s.is_id('exception_flags')" % lv, "%s == self.lifter.arch.regs.exception_flags" % lv],
        "call source": ["is_function_call(%s)" % rv, "%s.is_function_call()" % rv],
    }
    for what, forms in sorted(want.items()):
        ck.ob("R1", "is_unkillable_destination:%s" % what, any(f in tests for f in forms), m.where(fn),
              "assignments with a %s are not protected from dead-code removal (accepted: %s)" % (what, tests))
    em = ck.repo.mod(EX)
    f2 = em.func("is_function_call")
    ok = any(isinstance(n, ast.Return) and "startswith('call')" in norm(n.value) and "is_op()" in norm(n.value) for n in walk_body(f2))
    ck.ob("R1", "is_function_call", ok, em.where(f2), "is_function_call no longer recognises call_* operators")
    fn = m.func("DeadRemoval.get_block_useful_destinations")
    ok = False
    for lp in [n for n in walk_body(fn) if isinstance(n, ast.For) and "enumerate(block)" in norm(n.iter)]:
        for lp2 in [n for n in walk_local(lp) if isinstance(n, ast.For) and n is not lp]:
            if "viewitems(" in norm(lp2.iter) or ".items()" in norm(lp2.iter):
                ifs = [s for s in lp2.body if isinstance(s, ast.If)]
                if ifs and "self.is_unkillable_destination(" in norm(ifs[0].test) and not isinstance(ifs[0].test, ast.UnaryOp) and \
                        any(isinstance(c, ast.Call) and dotted(c.func) == "useful.add" and norm(c.args[0]).startswith("AssignblkNode(block.loc_key, ")
                            for c in walk_local(ifs[0])):
                    ok = True
    ck.ob("R1", "get_block_useful_destinations", ok, m.where(fn), "not every (index, destination) accepted by is_unkillable_destination is added to the useful set")
    fn = m.func("DeadRemoval.get_useful_assignments")
    cfg = CFG(fn)
    loops = [n for n in walk_body(fn) if isinstance(n, ast.For) and "ircfg.blocks" in norm(n.iter)]
    ok = False
    if loops:
        bcfg = CFG(loops[0].body)
        upd = [nd for nd in bcfg.nodes if any(dotted(c.func) == "useful.update" and "block_useful" in norm(c) for c in node_calls(nd))] + \
              [nd for nd in bcfg.nodes if any(dotted(c.func) == "useful.update" and "get_block_useful_destinations" in norm(c) for c in node_calls(nd))]
        # every iteration that has a block passes the update (the only bypass is `block is None`)
        ok = bool(upd)
        for nd in bcfg.nodes:
            if nd.kind == "stmt" and isinstance(nd.ast, ast.Continue):
                p = bcfg.path_avoiding(lambda x: x in upd, nd.id)
                if p is not None:
                    tests = [norm(x.ast) for x in p if x.kind == "test"]
                    if not any("is None" in t for t in tests):
                        ok = False
    ck.ob("R1", "get_useful_assignments:every-block", ok, m.where(fn), "a block's unkillable destinations are not always added to the useful set")
    # the leaf outputs are added at a point where the block is known to have no successor (two-armed test or guard + fall-through)
    from sa.facts import guard_facts as _gf, has_cmp as _hc, falsy as _falsy
    _facts = _gf(cfg)
    ok = False
    for nd in cfg.nodes:
        if any(dotted(c.func) == "self.find_out_regs_definitions_from_block" for c in node_calls(nd)):
            f_ = _facts.get(nd.id, frozenset())
            if _hc(f_, "len(successors)", "==", "0") or _hc(f_, "0", "==", "len(successors)") or _falsy(f_, "successors") or _falsy(f_, "len(successors)"):
                ok = True
    ck.ob("R1", "get_useful_assignments:leaf-outputs", ok, m.where(fn), "definitions of the output registers reaching a leaf block are not kept")
    ok = any(isinstance(n, ast.For) and "defuse.reachable_parents(" in norm(n.iter) and any(isinstance(y, ast.Yield) for y in walk_local(n)) for n in walk_body(fn))
    ck.ob("R1", "get_useful_assignments:closure", ok, m.where(fn), "the useful set is not closed under def-use dependencies")
    fn = m.func("DeadRemoval.do_dead_removal")
    # an assignment disappears only if its (block, index, destination) node is known not to be useful: either an explicit deletion under
    # the must-fact `AssignblkNode(...) not in useful`, or a rebuilt dictionary whose only filter is `AssignblkNode(...) in useful`
    from sa.facts import guard_facts as _gf
    dcfg = CFG(fn)
    dfacts = _gf(dcfg)
    dels = [nd for nd in dcfg.nodes if nd.kind == "stmt" and isinstance(nd.ast, ast.Delete)]
    comps = [n for n in walk_body(fn) if isinstance(n, ast.DictComp) and len(n.generators) == 1 and "assignblk" in norm(n.generators[0].iter)]
    ok = bool(dels) or bool(comps)
    for nd in dels:
        f = dfacts.get(nd.id, frozenset())
        ok = ok and any(x[0] == "cmp" and x[2] == "notin" and x[3] == "useful" and x[1].startswith("AssignblkNode(block.loc_key, ") for x in f)
    for c in comps:
        ifs = c.generators[0].ifs
        good = len(ifs) == 1 and isinstance(ifs[0], ast.Compare) and len(ifs[0].ops) == 1 and isinstance(ifs[0].ops[0], ast.In) and \
            norm(ifs[0].comparators[0]) == "useful" and norm(ifs[0].left).startswith("AssignblkNode(block.loc_key, ")
        # the node must be built from the very destination the comprehension keeps
        tgt = c.generators[0].target
        kname = norm(tgt.elts[0]) if isinstance(tgt, ast.Tuple) else norm(tgt)
        good = good and norm(c.key) == kname and norm(ifs[0].left).endswith(", %s)" % kname)
        ok = ok and good
    ck.ob("R1", "do_dead_removal:delete-only-useless", ok, m.where(fn), "an assignment can be deleted without being tested against the useful set")
    ok = any(isinstance(n, ast.Assign) and norm(n.targets[0]) == "useful" and "self.get_useful_assignments(" in norm(n.value) for n in walk_body(fn))
    ck.ob("R1", "do_dead_removal:useful-source", ok, m.where(fn), "`useful` is not computed by get_useful_assignments")

    # ---------------------------------------------------------------- R2
    sm = ck.repo.mod(SI)
    fn = sm.func("IRCFGSimplifierSSA.get_forbidden_regs")
    txt = norm(ast.Module(body=fn.body, type_ignores=[]))
    ok = all(x in txt for x in ("self.lifter.pc", "self.lifter.IRDst", "self.lifter.arch.regs.exception_flags"))
    ck.ob("R2", "get_forbidden_regs", ok, sm.where(fn), "pc, IRDst and exception_flags must all be immutable for SSA renaming")
    fn = sm.func("IRCFGSimplifierSSA.ircfg_to_ssa")
    cfg = CFG(fn)
    imm = [nd for nd in cfg.nodes if any(dotted(c.func) == "ssa.immutable_ids.update" and "ssa_forbidden_regs" in norm(c) for c in node_calls(nd))]
    tr = [nd for nd in cfg.nodes if any(dotted(c.func) == "ssa.transform" for c in node_calls(nd))]
    ok = bool(imm) and bool(tr) and all(any(i.id in cfg.dominators()[t.id] for i in imm) for t in tr)
    ck.ob("R2", "ircfg_to_ssa:immutables-before-transform", ok, sm.where(fn), "the immutable registers are not installed before ssa.transform()")
    ok = any(isinstance(n, ast.Assign) and "self.ssa_forbidden_regs" == norm(n.targets[0]) and "self.get_forbidden_regs()" == norm(n.value)
             for n in walk_body(sm.func("IRCFGSimplifierSSA.__init__")))
    ck.ob("R2", "IRCFGSimplifierSSA.__init__", ok, sm.where(fn), "ssa_forbidden_regs is not initialised from get_forbidden_regs()")

    # ---------------------------------------------------------------- R3
    fn = sm.func("IRCFGSimplifierSSA.simplify")
    cfg = CFG(fn)
    from sa.phases import find_events, order_violations
    ev = find_events(cfg, {
        "to_ssa": lambda nd: any(dotted(c.func) == "self.ircfg_to_ssa" for c in node_calls(nd)),
        "loop": lambda nd: any(dotted(c.func) == "self.do_simplify_loop" for c in node_calls(nd)),
        "unssa": lambda nd: any(dotted(c.func) == "self.ssa_to_unssa" for c in node_calls(nd)),
        "mapping": lambda nd: any(isinstance(c.func, ast.Attribute) and c.func.attr == "add_expr_to_original_expr" and "self.all_ssa_vars" in norm(c) for c in node_calls(nd)),
        "common": lambda nd: any(dotted(c.func) == "ircfg_simplifier.simplify" for c in node_calls(nd)),
    })
    seq = ["to_ssa", "loop", "unssa", "mapping", "common"]
    missing = [k for k in seq if not ev[k]]
    bad = order_violations(cfg, ev, seq)
    ck.ob("R3", "IRCFGSimplifierSSA.simplify:order", not missing and not bad, sm.where(fn),
          "pipeline steps missing %s / out of order %s" % (missing, [(a, b) for (a, b, _x, _y) in bad]))
    fn = sm.func("IRCFGSimplifierSSA.__init__")
    ok = any(isinstance(n, ast.Assign) and norm(n.targets[0]) == "self.deadremoval" and norm(n.value) == "DeadRemoval(self.lifter, self.all_ssa_vars)" for n in walk_body(fn))
    ck.ob("R3", "IRCFGSimplifierSSA.__init__:deadremoval-mapping", ok, sm.where(fn), "the SSA dead-removal pass does not know the SSA variable -> register mapping")

    # ---------------------------------------------------------------- R4 may_interfer: no mix-up between the two accesses
    # State.may_interfer decides whether a store kills a known equality; each access's byte interval must be built from that
    # access only (its offset, its size, its base mask). Entities are found from `<e>_base, <e>_offset = get_expr_base_offset(<e>.ptr)`.
    df = ck.repo.mod(DF)
    fn = df.func("State.may_interfer")
    ents = []
    for n in walk_body(fn):
        if isinstance(n, ast.Assign) and isinstance(n.targets[0], ast.Tuple) and isinstance(n.value, ast.Call) and callee_attr(n.value) == "get_expr_base_offset" \
                and n.value.args and isinstance(n.value.args[0], ast.Attribute) and isinstance(n.value.args[0].value, ast.Name):
            ents.append(n.value.args[0].value.id)
    ck.need(len(ents) == 2, "State.may_interfer: the two memory accesses were not identified (%s)" % ents)

    def entity_of(name):
        for e in ents:
            if name == e or name.startswith(e + "_"):
                return e
        return None
    k = 0
    for n in walk_body(fn):
        if not isinstance(n, ast.If):
            continue
        te = set(entity_of(x.id) for x in ast.walk(n.test) if isinstance(x, ast.Name)) - set([None])
        if len(te) != 1 or "mask" not in norm(n.test):
            continue
        e = list(te)[0]
        other = [x for x in ents if x != e][0]
        # the arm that builds the interval in two pieces is the wrap-around arm, whatever the polarity of the test
        def pieces(blk):
            return sum(1 for st in blk for x in ast.walk(st) if isinstance(x, ast.Call) and isinstance(x.func, ast.Name) and x.func.id == "interval")
        arms = sorted((n.body, n.orelse), key=pieces)
        for label, blk in (("fits", arms[0]), ("wraps", arms[1])):
            used = set(entity_of(x.id) for st in blk for x in ast.walk(st) if isinstance(x, ast.Name)) - set([None])
            k += 1
            ck.ob("R4", "State.may_interfer:%s-interval:%s" % (e, label), other not in used, df.where(n),
                  "the byte interval of `%s` (branch: %s) is computed with a quantity of `%s`: accesses of different widths are "
                  "compared over the wrong range and a partial overwrite is not seen" % (e, label, other))
    ck.need(k == 4, "State.may_interfer: expected the fits/wraps branches of both accesses, found %d" % k)
    # the verdict: disjoint intervals -> no interference, anything else -> interference
    txt = norm(ast.Module(body=fn.body, type_ignores=[]))
    ok = "if (interval1 & interval2).empty:\n" in txt and any(isinstance(x, ast.If) and ".empty" in norm(x.test) and any(isinstance(y, ast.Continue) for y in x.body)
                                                                for x in walk_body(fn))
    ck.ob("R4", "State.may_interfer:disjoint-means-independent", ok, df.where(fn), "only an empty intersection of the two byte intervals may clear a pair")
    ok = any(isinstance(x, ast.If) and "!=" in norm(x.test) and "_base" in norm(x.test) and any(isinstance(y, ast.Return) and norm(y.value) == "True" for y in x.body)
             for x in walk_body(fn))
    ck.ob("R4", "State.may_interfer:different-bases-interfere", ok, df.where(fn), "accesses with different symbolic bases must be assumed to alias")



def _merge_rules(ck):
    """R5: merging a block into its single predecessor keeps every effect of the predecessor except its jump.
    _do_merge_blocks iterates over ALL assignment blocks of the parent (no slice / truncation); on every path of the loop body an
    assignment block is either kept as it is (allowed only where IRDst is known not to be in it) or rebuilt from its (dst, src)
    pairs with the single filter dst != IRDst, and appended unless empty; the son's blocks follow; the merged block replaces the
    parent and the son disappears from blocks and graph."""
    from sa.pathob import undischarged, path_text
    from sa.facts import guard_facts
    ck.rule("R5", "block merging drops nothing of the parent block but its IRDst assignment", floor=3)
    m = ck.repo.mod(DF)
    from sa.prenorm import normalise_function
    fn = normalise_function(m.func("_do_merge_blocks"))
    par = fn.args.args[1].arg
    cfg = CFG(fn)
    loops = [nd for nd in cfg.nodes if nd.kind == "for" and norm(nd.ast.iter) in ("ircfg.blocks[%s]" % par, "ircfg.blocks[%s].assignblks" % par)]
    sliced = [nd for nd in cfg.nodes if nd.ast is not None and nd.kind in ("for", "stmt") and any(
        isinstance(x, ast.Subscript) and isinstance(x.slice, ast.Slice) and ("blocks[%s]" % par in norm(x.value) or norm(x.value) in _aliases(fn, par))
        for x in walk_local(nd.ast.iter if nd.kind == "for" else nd.ast))]
    ck.ob("R5", "_do_merge_blocks:walks-every-parent-assignblk", bool(loops) and not sliced, m.where(sliced[0].ast if sliced else fn),
          "the parent's assignment blocks are %s: what shares an assignment block with IRDst (a store, a pointer update) or follows it is lost"
          % ("taken by a slice `%s`" % norm(sliced[0].ast)[:60] if sliced else "not iterated one by one"))
    if not loops:
        return
    L = loops[0]
    blk = norm(L.ast.target)
    facts = guard_facts(cfg)
    appends = [nd for nd in cfg.nodes if nd.kind == "stmt" and isinstance(nd.ast, ast.Expr) and isinstance(nd.ast.value, ast.Call)
               and callee_attr(nd.ast.value) == "append" and cfg.can_reach(L.id, nd.id)]
    # every iteration appends, unless the rebuilt dictionary is empty
    def empty_edge(nd, label):
        return nd.kind == "test" and isinstance(nd.ast, ast.Name) and label is False
    p = undischarged(cfg, lambda nd: nd in appends, edge_ok=empty_edge, start=(L.id, "iter"), targets=[L.id])
    ck.ob("R5", "_do_merge_blocks:every-assignblk-kept", p is None, m.where(L.ast),
          "an assignment block of the parent can be skipped: %s" % (path_text(p) if p else ""))
    # kept unchanged only where IRDst is known not to be in it - decided per path of the loop body (the loop variable may be rebound to
    # the rebuilt block before one common append)
    from sa import symval as _sv
    n_kept = 0
    for pth in _sv.paths(L.ast.body, limit=64):
        for e in pth.effects:
            if isinstance(e, ast.Call) and callee_attr(e) == "append" and e.args and norm(e.args[0]) == blk:
                n_kept += 1
                known_absent = any((norm(t) == "ircfg.IRDst in %s" % blk and b is False) or (norm(t) == "ircfg.IRDst not in %s" % blk and b is True)
                                   for t, b in pth.conds)
                ck.ob("R5", "_do_merge_blocks:kept-unchanged-only-without-IRDst", known_absent, m.where(L.ast),
                      "an assignment block is kept unchanged on a path where it may still contain IRDst (path: %s)"
                      % ", ".join("%s is %s" % (norm(t), b) for t, b in pth.conds))
    ck.ob("R5", "_do_merge_blocks:keeps-untouched-blocks", n_kept >= 1, m.where(L.ast), "no path keeps an assignment block that does not hold IRDst")
    res5 = None
    for nd in appends:
        a = nd.ast.value.args[0] if nd.ast.value.args else None
        if a is not None and isinstance(a, ast.Name) and a.id == blk:
            # the loop variable rebound to the rebuilt block: look at that binding
            from sa.astutil import Resolver as _R5
            defs_ = [n_.value for n_ in walk_local(ast.Module(body=L.ast.body, type_ignores=[])) if isinstance(n_, ast.Assign) and norm(n_.targets[0]) == blk]
            if len(defs_) == 1:
                a = defs_[0]
            else:
                continue
        if a is not None and norm(a) == blk:
            continue
        elif a is not None and isinstance(a, ast.Call) and (dotted(a.func) or "").endswith("AssignBlock"):
            src = a.args[0]
            if isinstance(src, ast.Name):
                from sa.astutil import Resolver as _R
                d_ = _R(fn).unique_def(src.id)
                if isinstance(d_, ast.DictComp):
                    src = d_
            # the dictionary is filled for every pair but IRDst
            fills = [n for n in walk_body(fn) if isinstance(n, ast.Assign) and isinstance(n.targets[0], ast.Subscript) and norm(n.targets[0].value) == norm(src)]
            okf = False
            for fl in fills:
                fnode = cfg.node_containing(fl)
                ff = facts.get(fnode[0].id, frozenset()) if fnode else frozenset()
                base = facts.get(L.id, frozenset())
                kname = norm(fl.targets[0].slice)
                allowed = set([("cmp", kname, "!=", "ircfg.IRDst"), ("cmp", "ircfg.IRDst", "!=", kname), ("cmp", "ircfg.IRDst", "in", blk),
                               ("true", "%s != ircfg.IRDst" % kname), ("true", "ircfg.IRDst != %s" % kname), ("true", "ircfg.IRDst in %s" % blk),
                               ("false", "ircfg.IRDst not in %s" % blk), ("false", "%s == ircfg.IRDst" % kname), ("cmp", kname, "!=", "ircfg.IRDst")])
                extra = [x for x in ff if x not in base and x not in allowed]
                has = ("cmp", kname, "!=", "ircfg.IRDst") in ff or ("cmp", "ircfg.IRDst", "!=", kname) in ff
                okf = has and not extra
            comp = isinstance(src, (ast.DictComp,)) and len(src.generators) == 1 and len(src.generators[0].ifs) == 1 and \
                _is_not_irdst(src.generators[0].ifs[0], src.generators[0].target)
            ck.ob("R5", "_do_merge_blocks:rebuilt-without-IRDst-only", okf or comp, m.where(nd.ast),
                  "the rebuilt assignment block does not contain exactly the pairs whose destination is not IRDst")
    tail = any(isinstance(n, ast.AugAssign) and norm(n.value) in ("ircfg.blocks[son_loc_key].assignblks", "list(ircfg.blocks[son_loc_key])", "ircfg.blocks[son_loc_key]")
               for n in walk_body(fn)) or any(isinstance(n, ast.Call) and callee_attr(n) == "extend" and "son_loc_key" in norm(n) for n in walk_body(fn))
    ck.ob("R5", "_do_merge_blocks:son-appended", tail, m.where(fn), "the son's assignment blocks are not appended after the parent's")
    repl = any(isinstance(n, ast.Assign) and norm(n.targets[0]) == "ircfg.blocks[%s]" % par for n in walk_body(fn))
    ck.ob("R5", "_do_merge_blocks:parent-replaced", repl, m.where(fn), "the merged block is not stored as the parent")


def _is_not_irdst(test, target):
    from sa.astutil import cmp_parts
    p = cmp_parts(test)
    if not p or p[1] != "!=":
        return False
    names = [norm(e) for e in target.elts] if isinstance(target, ast.Tuple) else [norm(target)]
    a, b = norm(p[0]), norm(p[2])
    return (a == "ircfg.IRDst" and b == names[0]) or (b == "ircfg.IRDst" and a == names[0])


def _aliases(fn, par):
    out = set()
    for n in walk_body(fn):
        if isinstance(n, ast.Assign) and isinstance(n.targets[0], ast.Name) and norm(n.value) == "ircfg.blocks[%s]" % par:
            out.add(n.targets[0].id)
    return out


def _phi_rules(ck):
    """R6: when edges are deleted from an SSA graph, a Phi source disappears only if EVERY predecessor it flows through is deleted.
    update_phi_with_deleted_edges, per source: the paths of the loop body on which the source is not kept must carry a condition that
    says `parents(src) - deleted == {}` (difference empty / subset); a source reaching the join through two predecessors, one of them still
    alive, stays."""
    from sa import symval
    ck.rule("R6", "a Phi source is dropped only when all the predecessor edges it flows through are deleted", floor=1)
    m = ck.repo.mod(DF)
    fn = m.func("update_phi_with_deleted_edges")
    loops = [n for n in walk_body(fn) if isinstance(n, ast.For) and norm(n.iter).endswith(".args") and isinstance(n.target, ast.Name)]
    ck.need(loops, "update_phi_with_deleted_edges: loop over the Phi sources not found")
    lp = loops[0]
    src = lp.target.id
    # the kept set and how it starts
    par = getattr(lp, "_parent", None)
    sibs = []
    for fld in ("body", "orelse"):
        b = getattr(par, fld, None)
        if isinstance(b, list) and lp in b:
            sibs = b[:b.index(lp)]
    keep = None
    full = None
    for st in sibs:
        if isinstance(st, ast.Assign) and isinstance(st.targets[0], ast.Name) and isinstance(st.value, ast.Call) and norm(st.value.func) in ("set", "list"):
            keep = st.targets[0].id
            full = bool(st.value.args) and norm(st.value.args[0]) == norm(lp.iter)
    ck.need(keep is not None, "update_phi_with_deleted_edges: the set of kept sources was not found")
    deleted = [a.arg for a in fn.args.args][1] if len(fn.args.args) > 1 else "edges_to_del"
    n_drop = 0
    for pth in symval.paths(lp.body, limit=64):
        added = any(isinstance(e, ast.Call) and isinstance(e.func, ast.Attribute) and e.func.attr in ("add", "append") and norm(e.func.value) == keep
                    and e.args and norm(e.args[0]) == src for e in pth.effects)
        removed = any(isinstance(e, ast.Call) and isinstance(e.func, ast.Attribute) and e.func.attr in ("discard", "remove") and norm(e.func.value) == keep
                      and e.args and norm(e.args[0]) == src for e in pth.effects)
        dropped = removed if full else not added
        if not dropped:
            continue
        n_drop += 1
        ok = False
        for t, b in pth.conds:
            while isinstance(t, ast.UnaryOp) and isinstance(t.op, ast.Not):
                t, b = t.operand, not b
            tx = norm(t).replace(" ", "")
            subset = (".issubset(" in tx or "<=" in tx) and b is True
            all_in = tx.startswith("all(") and " in " in norm(t) and b is True
            no_rest = (".difference(" in tx or ("-" in tx and "[" in tx)) and b is False
            if (subset or all_in or no_rest) and ("[%s]" % src in tx or src in tx):
                ok = True
        ck.ob("R6", "update_phi_with_deleted_edges:drop-needs-all-parents-deleted", ok, m.where(lp),
              "a Phi source is dropped under [%s]: this does not say that every predecessor it flows through was deleted (a source shared by a "
              "deleted and a live predecessor must stay)" % ", ".join("%s is %s" % (norm(t), b) for t, b in pth.conds))
    ck.ob("R6", "update_phi_with_deleted_edges:drop-path-found", n_drop >= 1, m.where(lp), "no path dropping a source found (extractor blind)")


def _dummy_phi_rules(ck):
    """R7: DelDummyPhi replaces a class of equivalent SSA variables by their common value, re-evaluated at the join.  That is only sound
    for a value that does not read memory ANYWHERE inside it (a store between the original definition and the join changes what a nested
    load returns) and that is not a call: every use of the value in the replacement is reached only with the must-fact that
    `expr_has_mem(value)` is false (the deep test; `value.is_mem()` looks at the root only) and that the value is not a call."""
    from sa.facts import guard_facts
    ck.rule("R7", "a dummy-phi class is replaced by its value only when the value contains no memory read at any depth and is not a call", floor=1)
    m = ck.repo.mod(DF)
    fn = m.func("DelDummyPhi.del_dummy_phi")
    cfg = CFG(fn)
    facts = guard_facts(cfg)
    binds = [nd for nd in cfg.nodes if nd.kind == "stmt" and isinstance(nd.ast, ast.Assign) and isinstance(nd.ast.targets[0], ast.Tuple)
             and "get_equivalence_class" in norm(fn) and len(nd.ast.targets[0].elts) == 4]
    ck.need(binds, "DelDummyPhi.del_dummy_phi: unpacking of the equivalence class not found")
    val = norm(binds[0].ast.targets[0].elts[2])
    uses = []
    for nd in cfg.nodes:
        if nd.kind != "stmt" or nd is binds[0] or not cfg.can_reach(binds[0].id, nd.id):
            continue
        # the uses that matter: the value written into the rebuilt block (inside a dict display / an AssignBlock(...) argument)
        writes_it = any(isinstance(d_, (ast.Dict, ast.DictComp)) and any(isinstance(x, ast.Name) and x.id == val for x in ast.walk(d_)) for d_ in ast.walk(nd.ast)) or \
            any(isinstance(c_, ast.Call) and callee_attr(c_) in ("AssignBlock", "ExprAssign") and any(isinstance(x, ast.Name) and x.id == val for x in ast.walk(c_))
                for c_ in ast.walk(nd.ast))
        if writes_it:
            uses.append(nd)
    ck.need(uses, "DelDummyPhi.del_dummy_phi: no use of the class value `%s` found" % val)
    for nd in uses:
        f = facts.get(nd.id, frozenset())
        deep = ("false", "expr_has_mem(%s)" % val) in f
        # "not a call" is a disjunction (not an operator, or an operator whose name does not start with call): a path obligation
        from sa.pathob import undischarged as _und7

        def not_call_edge(n7, lab):
            if n7.kind != "test" or lab is not False:
                return False
            t7 = norm(n7.ast)
            if isinstance(n7.ast, ast.Name):
                # a boolean temporary standing for "is a call"
                from sa.astutil import Resolver as _R7
                d7 = _R7(fn).unique_def(n7.ast.id)
                if d7 is not None and norm(d7) in ("%s.is_op() and %s.op.startswith('call')" % (val, val), "is_function_call(%s)" % val):
                    return True
            return t7 in ("%s.is_op()" % val, "%s.op.startswith('call')" % val, "is_function_call(%s)" % val)
        nocall = _und7(cfg, lambda n7: False, edge_ok=not_call_edge, start=binds[0].id, targets=[nd.id]) is None
        ck.ob("R7", "del_dummy_phi:value-without-memory", deep, m.where(nd.ast),
              "the class value `%s` is written into the block where only %s is known: a value with a memory read inside it (`@32[p] + 1`) is "
              "re-evaluated at the join after stores the original definition did not see" % (val, sorted(x[1] for x in f if val in x[1])[:3] or "nothing"))
        ck.ob("R7", "del_dummy_phi:value-not-a-call", nocall, m.where(nd.ast), "the class value `%s` may be a call when it is propagated" % val)
