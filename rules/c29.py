"""C29 - bounded dictionary (miasm/core/utils.py: BoundedDict).

Structural clauses decided (necessary conditions of the size / callback contract):
 R1 the evicted keys (passed to the callback) and the kept keys are the two sides of ONE split
    of ONE ranking: same list, same bound; the ranking is by use count, most used first
 R2 the deletion callback for a key runs only on paths where the key is really removed
 R3 size bookkeeping: every change of the key set of the store updates the size and the use
    counters consistently (eviction: size == kept + 1 for the key being inserted)
 R4 destruction notifies every remaining key
 R5 the 'keep' count is at least 1 (otherwise the split index becomes -1 and the bound is lost)
 R6 the new value is stored on every path of __setitem__, after any eviction
 R7 eviction happens only for a new key and only when the size bound is reached
 R8 lookup returns the stored value for the key
"""
import ast

from sa.astutil import (walk_body, walk_local, dotted, norm, Resolver, callee_attr, linear, less_than,
                        cmp_parts)
from sa.cfg import CFG, node_exprs, node_calls
from sa.repo import AnalysisError

REL = "miasm/core/utils.py"
LEVEL_TEXT = ("Static rules over BoundedDict's AST/CFG: complementary eviction slices of one ranking, callback "
              "dominated by the removal it reports, size/counter bookkeeping paired with every key-set change, "
              "lower bound of the keep count, store on every path. Decides these necessary clauses for all "
              "operation sequences; does not execute any sequence.")
ASSUMPTIONS = ["CPython ast; dict/list slice semantics", "sizes passed to the constructor are positive integers"]

D, CB, SZ, CNT, MIN, MAX = "self._data", "self._delete_cb", "self._size", "self._counter", "self._min_size", "self._max_size"


def _cb_calls(node):
    return [c for c in walk_local(node) if isinstance(c, ast.Call) and dotted(c.func) == CB]


def run(ck):
    m = ck.repo.mod(REL)
    meths = m.methods("BoundedDict")
    for need in ("__init__", "__setitem__", "__delitem__", "__del__", "__getitem__"):
        ck.need(need in meths, "BoundedDict.%s vanished" % need)
    ck.rule("R1", "evicted keys and kept keys are complementary slices of one ranking ordered by use count, most used first", floor=1)
    ck.rule("R2", "the deletion callback for a key is dominated by the removal of that key", floor=1)
    ck.rule("R3", "every change of the key set updates size and use counters consistently", floor=4)
    ck.rule("R4", "__del__ calls the callback for every remaining key", floor=1)
    ck.rule("R5", "the keep count (min size) is provably >= 1 for positive constructor arguments", floor=1)
    ck.rule("R6", "the value is stored under the key on every path of __setitem__, after any eviction", floor=1)
    ck.rule("R7", "eviction only for a new key and only when size reaches the bound", floor=1)
    ck.rule("R8", "__getitem__ returns the stored value of the key", floor=1)
    ck.rule("R9", "every method that changes the key set of the store also resynchronises the size and the use counters, and reports dropped keys", floor=3)
    _sync_rules(ck, m, meths)

    # ------------------------------------------------------------------ __setitem__
    from sa.prenorm import inline_helpers
    fn = inline_helpers(meths["__setitem__"], meths)
    res = Resolver(fn)
    cfg = CFG(fn)
    key_param = fn.args.args[1].arg
    val_param = fn.args.args[2].arg
    # the eviction: rebinding of self._data to a comprehension/dict built from a slice
    rebinds = [n for n in walk_body(fn) if isinstance(n, ast.Assign) and any(dotted(t) == D for t in n.targets)]
    ck.need(len(rebinds) == 1, "BoundedDict.__setitem__: expected exactly one rebuild of %s, found %d" % (D, len(rebinds)))
    rebuild = rebinds[0]
    keep_slices = [s for s in walk_local(res.expand_node(rebuild.value)) if isinstance(s, ast.Subscript) and isinstance(s.slice, ast.Slice)]
    cb_loops = [n for n in walk_body(fn) if isinstance(n, ast.For) and _cb_calls(n)]
    ck.need(len(keep_slices) == 1, "BoundedDict.__setitem__: keep slice not recognised")
    ck.need(len(cb_loops) == 1, "BoundedDict.__setitem__: callback loop not recognised")
    keep = keep_slices[0]
    loop = cb_loops[0]
    ev_slices = [s for s in walk_local(res.expand_node(loop.iter)) if isinstance(s, ast.Subscript) and isinstance(s.slice, ast.Slice)]
    ck.need(len(ev_slices) == 1, "BoundedDict.__setitem__: evicted slice not recognised")
    ev = ev_slices[0]
    same_list = res.expand(keep.value) == res.expand(ev.value)
    kb = keep.slice
    eb = ev.slice
    shape_ok = (kb.lower is None and kb.upper is not None and kb.step is None and
                eb.upper is None and eb.lower is not None and eb.step is None)
    bound_ok = shape_ok and linear(res.expand_node(kb.upper)) == linear(res.expand_node(eb.lower))
    ck.ob("R1", "BoundedDict.__setitem__:split", same_list and bound_ok, m.where(rebuild),
          "kept = %s, evicted = %s: not the two sides [:B] / [B:] of one split of one list"
          % (norm(keep), norm(ev)))
    # callback gets the key of each evicted item
    tgt = loop.target
    first = tgt.elts[0] if isinstance(tgt, ast.Tuple) and tgt.elts else tgt
    cbc = _cb_calls(loop)[0]
    ck.ob("R1", "BoundedDict.__setitem__:callback-arg", len(cbc.args) == 1 and norm(cbc.args[0]) == norm(first),
          m.where(cbc), "callback is not called with the evicted key (%s)" % norm(cbc))
    # ranking
    rank = res.expand_node(keep.value)
    ok_rank = False
    why = "ranking expression `%s` not a sorted(...) over the use counters" % norm(rank)
    if isinstance(rank, ast.Call) and callee_attr(rank) == "sorted" and rank.args:
        over = norm(rank.args[0])
        kw = dict((k.arg, k.value) for k in rank.keywords)
        by_count = False
        k = kw.get("key")
        if k is not None:
            if isinstance(k, ast.Call) and callee_attr(k) == "itemgetter" and len(k.args) == 1 and norm(k.args[0]) == "1":
                by_count = True
            if isinstance(k, ast.Lambda) and isinstance(k.body, ast.Subscript) and norm(k.body.slice) == "1":
                by_count = True
        rev = kw.get("reverse")
        desc = isinstance(rev, ast.Constant) and rev.value is True
        src = CNT in over and ("items" in over)
        if not src and over in (CNT, "%s.keys()" % CNT, "list(%s)" % CNT, "list(%s.keys())" % CNT, "viewkeys(%s)" % CNT) and k is not None:
            # the same ranking over the keys, ordered by their count
            src = True
            by_count = norm(k) in ("%s.get" % CNT, "%s.__getitem__" % CNT) or \
                (isinstance(k, ast.Lambda) and len(k.args.args) == 1 and norm(k.body) in ("%s[%s]" % (CNT, k.args.args[0].arg), "%s.get(%s)" % (CNT, k.args.args[0].arg)))
        ok_rank = by_count and desc and src
        why = "ranking %s: over counters=%s, by count=%s, most used first=%s" % (norm(rank), src, by_count, desc)
    ck.ob("R1", "BoundedDict.__setitem__:ranking", ok_rank, m.where(keep), why)

    # R3: eviction bookkeeping
    size_assign = [n for n in walk_body(fn) if isinstance(n, ast.Assign) and any(dotted(t) == SZ for t in n.targets)]
    ok = False
    detail = "no assignment to %s in the eviction branch" % SZ
    if shape_ok and size_assign:
        kept = linear(res.expand_node(kb.upper))
        want = (kept[0], kept[1] + 1)
        got = linear(res.expand_node(size_assign[0].value))
        ok = got == want
        detail = "after eviction size is set to `%s` but kept keys = `%s` plus the inserted one" % (
            norm(size_assign[0].value), norm(kb.upper))
    ck.ob("R3", "BoundedDict.__setitem__:evict-size", ok, m.where(rebuild), detail)
    cnt_reset = [n for n in walk_body(fn) if isinstance(n, ast.Assign) and any(dotted(t) == CNT for t in n.targets)]
    ok = False
    detail = "use counters are not rebuilt from the kept keys after eviction"
    for n in cnt_reset:
        srcs = [dotted(x) for x in walk_local(n.value) if isinstance(x, ast.Attribute)]
        if D in srcs:
            # must come after the rebuild of the store
            a = cfg.node_containing(rebuild)
            b = cfg.node_containing(n)
            if a and b and cfg.can_reach(a[0].id, b[0].id) and not cfg.can_reach(b[0].id, a[0].id):
                ok = True
    ck.ob("R3", "BoundedDict.__setitem__:evict-counters", ok, m.where(rebuild), detail)

    # new-key branch: size += 1 and counter[key] = 1 ; existing key: counter += 1
    newkey_test = None
    for nd in cfg.nodes:
        if nd.kind == "test":
            p = cmp_parts(nd.ast)
            if p and p[1] in ("notin", "in") and norm(p[0]) == key_param and norm(p[2]) == D:
                newkey_test = (nd, p[1] == "notin")
    ck.need(newkey_test is not None, "BoundedDict.__setitem__: membership test of the key not found")
    tnode, new_label = newkey_test

    def branch_nodes(label):
        start = [s for (s, l) in cfg.succ[tnode.id] if l == label]
        other = [s for (s, l) in cfg.succ[tnode.id] if l == (not label)]
        seen = set()
        stack = list(start)
        while stack:
            x = stack.pop()
            if x in seen:
                continue
            seen.add(x)
            stack.extend(s for (s, _l) in cfg.succ[x])
        seen_o = set()
        stack = list(other)
        while stack:
            x = stack.pop()
            if x in seen_o:
                continue
            seen_o.add(x)
            stack.extend(s for (s, _l) in cfg.succ[x])
        return seen - seen_o
    new_nodes = branch_nodes(new_label)
    old_nodes = branch_nodes(not new_label)

    def is_stmt(nd, pred):
        return nd.kind == "stmt" and pred(nd.ast)
    inc = lambda a: isinstance(a, ast.AugAssign) and dotted(a.target) == SZ and isinstance(a.op, ast.Add) and norm(a.value) == "1"
    inc_ok = any(is_stmt(cfg.nodes[i], inc) for i in new_nodes) and not any(is_stmt(cfg.nodes[i], inc) for i in old_nodes)
    ck.ob("R3", "BoundedDict.__setitem__:size-increment", inc_ok, m.where(fn),
          "%s must be incremented by one exactly on the new-key branch" % SZ)
    cnt_new = lambda a: isinstance(a, ast.Assign) and any(
        isinstance(t, ast.Subscript) and dotted(t.value) == CNT and norm(t.slice) == key_param for t in a.targets)
    cnt_old = lambda a: isinstance(a, ast.AugAssign) and isinstance(a.target, ast.Subscript) and dotted(a.target.value) == CNT \
        and norm(a.target.slice) == key_param and isinstance(a.op, ast.Add)
    c_ok = any(is_stmt(cfg.nodes[i], cnt_new) for i in new_nodes) and any(is_stmt(cfg.nodes[i], cnt_old) for i in old_nodes)
    # the counter entry of the new key must be created after the counters are reset by an eviction
    for i in new_nodes:
        if is_stmt(cfg.nodes[i], cnt_new):
            for n in cnt_reset:
                for b in cfg.node_containing(n):
                    if cfg.can_reach(i, b.id):
                        c_ok = False
    ck.ob("R3", "BoundedDict.__setitem__:use-counter", c_ok, m.where(fn),
          "use counter of the key must be created (new key, after any counter reset) or incremented (existing key)")

    # R7: eviction guarded by new-key and size>=max
    ev_nodes = cfg.node_containing(rebuild)
    ck.ob("R7", "BoundedDict.__setitem__:evict-new-key-only", all(n.id in new_nodes for n in ev_nodes), m.where(rebuild),
          "the eviction is reachable when the key is already present")
    dom = cfg.dominators()
    ok = False
    seen = []
    for n in ev_nodes:
        for did in dom[n.id]:
            dn = cfg.nodes[did]
            if dn.kind == "test":
                lt = less_than(dn.ast, True)
                if lt is not None:
                    a, b, strict = lt
                    seen.append(norm(dn.ast))
                    if norm(a) == MAX and norm(b) == SZ:
                        # evict branch must be the true branch
                        t_succ = [s for (s, l) in cfg.succ[did] if l is True]
                        if t_succ and (t_succ[0] == n.id or cfg.can_reach(t_succ[0], n.id)):
                            ok = True
    ck.ob("R7", "BoundedDict.__setitem__:evict-at-bound", ok, m.where(rebuild),
          "eviction is not guarded by `%s >= %s` (guards seen: %s)" % (SZ, MAX, seen))
    # the size increment precedes the bound test
    # R6: store on every path, after eviction
    is_store = lambda nd: nd.kind == "stmt" and isinstance(nd.ast, ast.Assign) and any(
        isinstance(t, ast.Subscript) and dotted(t.value) == D and norm(t.slice) == key_param for t in nd.ast.targets) \
        and norm(nd.ast.value) == val_param
    mp = cfg.must_pass(is_store)[cfg.exit.id]
    after = True
    for nd in cfg.nodes:
        if is_store(nd):
            for en in ev_nodes:
                if cfg.can_reach(nd.id, en.id):
                    after = False
    ck.ob("R6", "BoundedDict.__setitem__:store", mp and after, m.where(fn),
          "a path through __setitem__ does not store the value under the key after the eviction step"
          if not mp else "the store precedes the eviction, which would drop the key just inserted")

    # ------------------------------------------------------------------ __delitem__
    fn = meths["__delitem__"]
    cfg = CFG(fn)
    kp = fn.args.args[1].arg
    is_del = lambda nd: nd.kind == "stmt" and isinstance(nd.ast, ast.Delete) and any(
        isinstance(t, ast.Subscript) and dotted(t.value) == D and norm(t.slice) == kp for t in nd.ast.targets) or (
        nd.kind == "stmt" and any(isinstance(c.func, ast.Attribute) and c.func.attr == "pop" and dotted(c.func.value) == D
                                  for c in node_calls(nd)))
    dels = [nd for nd in cfg.nodes if is_del(nd)]
    ck.need(dels, "BoundedDict.__delitem__: removal from the store not found")
    dom = cfg.dominators()
    cbn = [nd for nd in cfg.nodes if any(dotted(c.func) == CB for c in node_calls(nd))]
    ck.need(cbn, "BoundedDict.__delitem__: callback call not found")
    ok = all(any(d.id in dom.get(c.id, ()) for d in dels) for c in cbn)
    ck.ob("R2", "BoundedDict.__delitem__", ok, m.where(fn),
          "the callback runs before `del %s[%s]`, which raises KeyError for an absent key: the callback "
          "fires for a key that is not dropped" % (D, kp))
    dec = any(nd.kind == "stmt" and isinstance(nd.ast, ast.AugAssign) and dotted(nd.ast.target) == SZ
              and isinstance(nd.ast.op, ast.Sub) and norm(nd.ast.value) == "1" for nd in cfg.nodes)
    ck.ob("R3", "BoundedDict.__delitem__:size-decrement", dec, m.where(fn), "%s is not decremented on deletion" % SZ)
    delc = any(nd.kind == "stmt" and isinstance(nd.ast, ast.Delete) and any(
        isinstance(t, ast.Subscript) and dotted(t.value) == CNT and norm(t.slice) == kp for t in nd.ast.targets)
        for nd in cfg.nodes) or any(
        isinstance(c.func, ast.Attribute) and c.func.attr == "pop" and dotted(c.func.value) == CNT
        for nd in cfg.nodes for c in node_calls(nd))
    ck.ob("R3", "BoundedDict.__delitem__:counter-removed", delc, m.where(fn), "use counter of the deleted key is kept")
    # bookkeeping follows the removal: `del store[key]` raises KeyError for an absent key, and whatever was updated before it
    # stays updated (size one too small: the next evictions come late and the bound is exceeded)
    books = [nd for nd in cfg.nodes if nd.kind == "stmt" and (
        (isinstance(nd.ast, ast.AugAssign) and dotted(nd.ast.target) == SZ) or
        (isinstance(nd.ast, ast.Assign) and any(dotted(t) == SZ for t in nd.ast.targets)) or
        (isinstance(nd.ast, ast.Delete) and any(isinstance(t, ast.Subscript) and dotted(t.value) == CNT for t in nd.ast.targets)) or
        any(isinstance(c.func, ast.Attribute) and c.func.attr in ("pop", "clear") and dotted(c.func.value) == CNT for c in node_calls(nd)))]
    guarded = lambda b: any(t.kind == "test" and t.id in dom.get(b.id, ()) and kp in norm(t.ast) and
                            isinstance(t.ast, ast.Compare) and isinstance(t.ast.ops[0], (ast.In, ast.NotIn)) and D in norm(t.ast.comparators[0])
                            for t in cfg.nodes)
    ok = all(any(d.id in dom.get(b.id, ()) for d in dels) or guarded(b) for b in books)
    ck.ob("R3", "BoundedDict.__delitem__:bookkeeping-after-removal", ok, m.where(fn),
          "size/counter are updated before `del %s[%s]`; for an absent key the KeyError leaves them changed although nothing was removed" % (D, kp))
    # the callback must be called on every successful deletion path when configured
    cb_on_path = cfg.must_pass(lambda nd: nd in cbn or (nd.kind == "test" and CB in norm(nd.ast)))[cfg.exit.id]
    ck.ob("R2", "BoundedDict.__delitem__:callback-present", cb_on_path, m.where(fn),
          "a successful deletion can finish without invoking the configured callback")

    # ------------------------------------------------------------------ __del__
    fn = meths["__del__"]
    ok = False
    for n in walk_body(fn):
        if isinstance(n, ast.For) and norm(n.iter) in (D, D + ".keys()", "list(%s)" % D, "self.keys()", "self"):
            for c in _cb_calls(n):
                if len(c.args) == 1 and norm(c.args[0]) == norm(n.target):
                    ok = True
    ck.ob("R4", "BoundedDict.__del__", ok, m.where(fn), "__del__ does not call the callback for each key of the store")

    # ------------------------------------------------------------------ __init__ (R5)
    fn = meths["__init__"]
    asg = [n for n in walk_body(fn) if isinstance(n, ast.Assign) and any(dotted(t) == MIN for t in n.targets)]
    ck.need(len(asg) == 1, "BoundedDict.__init__: assignment of %s not found" % MIN)
    v = asg[0].value
    ck.ob("R5", "BoundedDict.__init__:min-size", _ge1(v), m.where(asg[0]),
          "`%s` can be 0 (e.g. max_size < 3 with the default): the split index min_size-1 becomes -1, "
          "size bookkeeping is lost and the dictionary grows past max_size" % norm(v))
    szi = [n for n in walk_body(fn) if isinstance(n, ast.Assign) and any(dotted(t) == SZ for t in n.targets)]
    ck.ob("R3", "BoundedDict.__init__:size", bool(szi) and norm(szi[0].value) == "len(%s)" % D, m.where(fn),
          "initial size is not len of the initial store")

    # ------------------------------------------------------------------ __getitem__ (R8)
    fn = meths["__getitem__"]
    res = Resolver(fn)
    kp = fn.args.args[1].arg
    rets = [n for n in walk_body(fn) if isinstance(n, ast.Return)]
    ok = bool(rets) and all(r.value is not None and res.expand(r.value) == "%s[%s]" % (D, kp) for r in rets)
    ck.ob("R8", "BoundedDict.__getitem__", ok, m.where(fn), "lookup does not return %s[%s]" % (D, kp))


def _sync_rules(ck, m, meths):
    """R9: the three synchronized structures (_data, _size, _counter) change together in EVERY method of the class - also in
    ones added later (a bulk clear(), pop() ...): a method that removes keys from / rebinds the store writes the size and the counters
    too and calls the deletion callback; who-writes: nothing outside the class touches the three fields."""
    KEYSET_MUT = ("pop", "clear", "popitem", "update", "setdefault")

    def touches(fn, field, kinds):
        out = []
        for n in walk_body(fn):
            if "assign" in kinds and isinstance(n, (ast.Assign, ast.AugAssign)):
                tgs = n.targets if isinstance(n, ast.Assign) else [n.target]
                for t in tgs:
                    b = t
                    while isinstance(b, ast.Subscript):
                        b = b.value
                    if dotted(b) == "self." + field and (t is b or "item" in kinds):
                        out.append(n)
            if "del" in kinds and isinstance(n, ast.Delete):
                for t in n.targets:
                    if isinstance(t, ast.Subscript) and dotted(t.value) == "self." + field:
                        out.append(n)
            if "call" in kinds and isinstance(n, ast.Call) and isinstance(n.func, ast.Attribute) and n.func.attr in KEYSET_MUT \
                    and dotted(n.func.value) == "self." + field:
                out.append(n)
        return out
    for name, fn in sorted(meths.items()):
        shrink = touches(fn, "_data", ("assign", "del", "call"))
        if not shrink:
            continue
        if name == "__init__":
            continue
        size_w = touches(fn, "_size", ("assign",))
        cnt_w = touches(fn, "_counter", ("assign", "item", "del", "call"))
        ck.ob("R9", "BoundedDict.%s:size-follows-store" % name, bool(size_w), m.where(shrink[0]),
              "%s changes the key set of self._data (`%s`) without updating self._size: the stale count makes __setitem__ evict "
              "live keys far below the maximum" % (name, norm(shrink[0])[:50]))
        ck.ob("R9", "BoundedDict.%s:counters-follow-store" % name, bool(cnt_w), m.where(shrink[0]),
              "%s changes the key set of self._data without updating self._counter" % name)
        cb = any(isinstance(c, ast.Call) and dotted(c.func) == "self._delete_cb" for c in walk_body(fn))
        ck.ob("R9", "BoundedDict.%s:drops-are-reported" % name, cb, m.where(shrink[0]),
              "%s drops keys from the store without calling the deletion callback" % name)


def _ge1(v):
    """Is the expression provably >= 1 assuming the constructor's size parameters are positive?"""
    if isinstance(v, ast.Constant) and isinstance(v.value, int):
        return v.value >= 1
    if isinstance(v, ast.Call) and callee_attr(v) == "max":
        return any(_ge1(a) for a in v.args)
    if isinstance(v, ast.IfExp):
        # `x if x else Y` / `x if x is not None else Y`: x truthy => positive by assumption
        t = v.test
        if isinstance(t, ast.Name) and norm(v.body) == t.id:
            return _ge1(v.orelse)
        return _ge1(v.body) and _ge1(v.orelse)
    if isinstance(v, ast.BoolOp) and isinstance(v.op, ast.Or):
        return _ge1(v.values[-1])
    if isinstance(v, ast.BinOp) and isinstance(v.op, ast.Add):
        return _ge1(v.left) or _ge1(v.right)
    if isinstance(v, ast.Name):
        return v.id in ("max_size",)
    return False
