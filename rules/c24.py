"""C24 - the virtual memory manager behaves like a byte map with permissions (C, clang AST).

 R1 check-then-use: every dereference of a page's host buffer (->ad_hp) through a page pointer obtained
    from the page lookup is preceded, on every path since that lookup, by a NULL test of the pointer and -
    in the emulated read / write primitives - by a test of the needed permission bit
 R2 a faulting emulated write leaves memory unchanged: no store into page memory can be followed by a
    fallible step (page lookup / permission test) of the same access
 R3 overlap refusal: the mapping entry point tests the new page against the table and fails before
    inserting it; the overlap predicate is the two-sided interval test
 R4 access recording: every typed primitive records width/8 bytes at the accessed address before touching
    memory
 R5 memory breakpoints use the interval-overlap test against the recorded ranges for both access kinds
"""
import re

from sa import cast
from sa.repo import AnalysisError

VMC = "miasm/jitter/vm_mngr.c"
VMPY = "miasm/jitter/vm_mngr_py.c"
LEVEL_TEXT = ("Path rules over the clang AST/CFG of vm_mngr.c and vm_mngr_py.c: must-facts data-flow for "
              "NULL/permission checks before every use of a page's host buffer, store-before-fallible-step, "
              "check-before-insert, byte-count pairing, interval-overlap shape. Decides these clauses for every "
              "access; does not model page contents, byte order or the binary search.")
ASSUMPTIONS = ["clang 14 AST with the build's include paths; macros expanded (PAGE_READ=1, PAGE_WRITE=2 are read from the macro table)",
               "page pointers come only from get_memory_page_from_address / the page array"]

LOOKUP = "get_memory_page_from_address"


def _page_var(e):
    """If e (stripped) is a DeclRefExpr of pointer-to-memory_page_node type, return its decl id + name."""
    e = cast.strip(e)
    if e and e.get("kind") == "DeclRefExpr" and "memory_page_node" in (e.get("type", {}).get("qualType", "")):
        rd = e.get("referencedDecl") or {}
        return rd.get("id"), rd.get("name")
    return None


def _facts_flow(func, cfg):
    """node id -> frozenset of facts (('nn', varid) / ('perm', varid, bit)) holding on entry."""
    def assigned_vars(nd):
        out = set()
        if nd.ast is None or nd.kind in ("loop",):
            return out
        for n in cast.walk(nd.ast):
            if n.get("kind") == "BinaryOperator" and n.get("opcode") == "=":
                pv = _page_var(n["inner"][0])
                if pv:
                    out.add(pv[0])
            if n.get("kind") == "VarDecl" and "memory_page_node" in n.get("type", {}).get("qualType", ""):
                out.add(n.get("id"))
            # pointer arithmetic on the page pointer (mpn++, mpn += 1): it no longer designates the page that was tested
            if n.get("kind") == "UnaryOperator" and n.get("opcode") in ("++", "--"):
                pv = _page_var(n["inner"][0])
                if pv:
                    out.add(pv[0])
            if n.get("kind") == "CompoundAssignOperator":
                pv = _page_var(n["inner"][0])
                if pv:
                    out.add(pv[0])
        return out

    def flow(nd, st):
        if nd.kind == "test":
            return st
        k = assigned_vars(nd)
        if not k:
            return st
        return frozenset(f for f in st if f[1] not in k)

    def edge(nd, label, st):
        if nd.kind != "test" or label not in (True, False):
            return st
        e = cast.strip(nd.ast)
        pv = _page_var(e)
        if pv:
            return st | frozenset([("nn", pv[0])]) if label else st
        if e.get("kind") == "BinaryOperator" and e.get("opcode") in ("==", "!="):
            l, r = cast.strip(e["inner"][0]), cast.strip(e["inner"][1])
            # pointer compared with NULL
            for a, b in ((l, r), (r, l)):
                pa = _page_var(a)
                if pa and cast.const_int(b) == 0:
                    if (e["opcode"] == "!=") == bool(label):
                        return st | frozenset([("nn", pa[0])])
                    return st
            # (p->access & BIT) ==/!= 0
            for a, b in ((l, r), (r, l)):
                if a.get("kind") == "BinaryOperator" and a.get("opcode") == "&" and cast.const_int(b) == 0:
                    x, y = cast.strip(a["inner"][0]), cast.strip(a["inner"][1])
                    for m, c in ((x, y), (y, x)):
                        if m.get("kind") == "MemberExpr" and m.get("name") == "access":
                            pb = _page_var(m["inner"][0])
                            bit = cast.const_int(c)
                            if pb and bit is not None:
                                if (e["opcode"] == "!=") == bool(label):
                                    return st | frozenset([("perm", pb[0], bit)])
                                return st
        if e.get("kind") == "BinaryOperator" and e.get("opcode") == "&":
            # if (p->access & BIT)
            x, y = cast.strip(e["inner"][0]), cast.strip(e["inner"][1])
            for m, c in ((x, y), (y, x)):
                if m.get("kind") == "MemberExpr" and m.get("name") == "access":
                    pb = _page_var(m["inner"][0])
                    bit = cast.const_int(c)
                    if pb and bit is not None and label:
                        return st | frozenset([("perm", pb[0], bit)])
        return st
    IN, _ = cfg.forward(frozenset(), flow, lambda a, b: a & b, edge)
    return IN


def _closure(tu, roots):
    seen = set()
    stack = list(roots)
    while stack:
        f = stack.pop()
        if f in seen or f not in tu.funcs:
            continue
        seen.add(f)
        for cn, _c in tu.funcs[f].calls():
            if cn in tu.funcs:
                stack.append(cn)
    return seen


PRELOAD_C = ['miasm/jitter/vm_mngr.c', 'miasm/jitter/vm_mngr_py.c', 'miasm/jitter/JitCore.c']


def page_pointer_rules(ck, tu, RID, rclo, wclo, PR, PW):
    """R1 (shared with C49-R5): every use of a page's host buffer is preceded, on every path since the page pointer was last
    obtained or changed (assignment, ++, +=), by its NULL test and, in an emulated access, by the permission test."""
    for name, f in sorted(tu.funcs.items()):
        derefs = []
        for n in cast.walk(f.body):
            if n.get("kind") == "MemberExpr" and n.get("name") == "ad_hp" and n.get("isArrow"):
                pv = _page_var(n["inner"][0])
                if pv:
                    derefs.append((n, pv))
        if not derefs:
            continue
        # only pointers obtained from the lookup in this function are subject to the rule
        looked = set()
        for n in cast.walk(f.body):
            if n.get("kind") == "BinaryOperator" and n.get("opcode") == "=":
                r = cast.strip(n["inner"][1])
                if r.get("kind") == "CallExpr" and cast.callee(r) == LOOKUP:
                    pv = _page_var(n["inner"][0])
                    if pv:
                        looked.add(pv[0])
        cfg = f.cfg()
        IN = _facts_flow(f, cfg)
        need_bit = None
        if name in wclo and name not in rclo:
            need_bit = PW
        elif name in rclo and name not in wclo:
            need_bit = PR
        idx = 0
        for (n, (vid, vname)) in derefs:
            if vid not in looked:
                continue
            for nd in cfg.node_containing(n):
                idx += 1
                st = IN.get(nd.id)
                if st is None:
                    continue
                loop_ctx = "loop" if cfg.can_reach(nd.id, nd.id) else "straight"
                key = "%s:%s->ad_hp:%s" % (name, vname, loop_ctx)
                ck.ob(RID, key + ":null", ("nn", vid) in st, VMC,
                      "%s dereferences %s->ad_hp on a path where %s was not tested against NULL since its lookup" % (name, vname, vname))
                if need_bit is not None:
                    ck.ob(RID, key + ":perm", ("perm", vid, need_bit) in st, VMC,
                          "%s uses %s->ad_hp on a path where the page's %s permission was not tested since the page was "
                          "(re-)looked up: an access straddling into a page without that permission goes through"
                          % (name, vname, "PAGE_WRITE" if need_bit == PW else "PAGE_READ"))



def run(ck):
    tu = cast.load(ck.repo, VMC)
    PR, PW = tu.macro_int("PAGE_READ"), tu.macro_int("PAGE_WRITE")
    ck.rule("R1", "every use of a page's host buffer is preceded by a NULL test and (emulated access) the permission test "
                  "of that same page pointer on every path since it was looked up", floor=5)
    ck.rule("R2", "no store into page memory is followed by a fallible step of the same emulated write", floor=1)
    ck.rule("R3", "a new mapping is tested for overlap and refused before insertion; two-sided interval predicate", floor=1)
    ck.rule("R4", "typed primitives record width/8 bytes at the accessed address before touching memory", floor=4)
    ck.rule("R5", "memory breakpoints are matched by interval overlap against recorded reads and writes", floor=1)
    _access_log_rules(ck, tu)

    reads = sorted(n for n in tu.funcs if re.match(r"vm_MEM_LOOKUP_\d+$", n))
    writes = sorted(n for n in tu.funcs if re.match(r"vm_MEM_WRITE_\d+$", n))
    ck.need(len(reads) >= 4 and len(writes) >= 4, "typed primitives vm_MEM_LOOKUP_N / vm_MEM_WRITE_N not found")
    rclo = _closure(tu, reads)
    wclo = _closure(tu, writes)

    page_pointer_rules(ck, tu, "R1", rclo, wclo, PR, PW)

    # ------------------------------------------------------------------ R2
    for name in sorted(wclo):
        f = tu.funcs[name]
        cfg = f.cfg()
        stores = []
        fall = []
        for nd in cfg.nodes:
            if nd.ast is None or nd.kind == "loop":
                continue
            if nd.kind == "stmt":
                for n in cast.walk(nd.ast):
                    if n.get("kind") in ("BinaryOperator", "CompoundAssignOperator") and n.get("opcode", "").endswith("="):
                        if n.get("opcode") in ("==", "!=", "<=", ">="):
                            continue
                        l = cast.strip(n["inner"][0])
                        if l.get("kind") == "UnaryOperator" and l.get("opcode") == "*":
                            stores.append(nd)
                        elif l.get("kind") == "ArraySubscriptExpr" and "ad_hp" in cast.text_names(l):
                            stores.append(nd)
                for c in cast.node_calls_c(nd):
                    if cast.callee(c) in ("memcpy", "memset") and "ad_hp" in cast.text_names(cast.call_args(c)[0]):
                        stores.append(nd)
            for c in cast.node_calls_c(nd):
                if cast.callee(c) == LOOKUP:
                    a = cast.call_args(c)
                    if len(a) >= 3 and cast.const_int(a[2]) not in (0, None):
                        fall.append(nd)
        if not stores:
            continue
        bad = None
        for s in stores:
            for l in fall:
                if cfg.can_reach(s.id, l.id):
                    bad = (s, l)
        ck.ob("R2", "%s:store-then-fallible-lookup" % name, bad is None, VMC,
              "" if bad is None else "`%s` stores into page memory and `%s` can still fault afterwards: a write straddling "
              "into an unmapped page faults after modifying the first bytes" % (cast.ctext(bad[0].ast)[:60], cast.ctext(bad[1].ast)[:60]))
    # big-number byte loops of JitCore.c
    tj = cast.load(ck.repo, "miasm/jitter/JitCore.c")
    for name, f in sorted(tj.funcs.items()):
        if not name.startswith("MEM_WRITE"):
            continue
        if any("bn_t" in p.get("type", {}).get("qualType", "") and p.get("name") in ("addr", "ad") for p in f.params):
            ck.note("R2 skips %s: only reachable with pointers wider than 64 bits, which no supported architecture has" % name)
            continue
        cfg = f.cfg()
        wn = [nd for nd in cfg.nodes if any((cast.callee(c) or "").startswith("vm_MEM_WRITE_") for c in cast.node_calls_c(nd))]
        bad = any(cfg.can_reach(a.id, b.id) for a in wn for b in wn)
        if wn:
            ck.ob("R2", "%s:byte-loop" % name, not bad, "miasm/jitter/JitCore.c",
                  "%s writes a wide value with repeated narrower emulated writes: a fault on a later piece leaves the "
                  "earlier pieces written" % name)

    # ------------------------------------------------------------------ R3
    tp = cast.load(ck.repo, VMPY)
    f = tp.func("vm_add_memory_page")
    cfg = f.cfg()
    ins = [nd for nd in cfg.nodes if any(cast.callee(c) == "add_memory_page" for c in cast.node_calls_c(nd))]
    ck.need(ins, "vm_add_memory_page: call of add_memory_page not found")
    tests = [nd for nd in cfg.nodes if nd.kind == "test" and any(cast.callee(c) == "is_mpn_in_tab" for c in cast.walk(nd.ast) if c.get("kind") == "CallExpr")]
    ok = False
    if tests:
        t = tests[0]
        dom = cfg.dominators()
        ok = all(t.id in dom[i.id] for i in ins)
        # the true edge must not reach the insertion
        for (s, l) in cfg.succ[t.id]:
            if l is True and any(s == i.id or cfg.can_reach(s, i.id) for i in ins):
                ok = False
    ck.ob("R3", "vm_add_memory_page:check-before-insert", ok, VMPY,
          "the page is inserted without a dominating is_mpn_in_tab() test whose positive outcome refuses the mapping")
    overlap_predicate_rules(ck, tu, "R3")

    # ------------------------------------------------------------------ R4
    for name in reads + writes:
        width = int(name.rsplit("_", 1)[1])
        f = tu.funcs[name]
        addr_param = f.params[1]["name"]
        rec_name = "add_mem_read" if name in reads else "add_mem_write"
        acc_name = "memory_page_read" if name in reads else "memory_page_write"
        cfg = f.cfg()
        recs = [nd for nd in cfg.nodes if any(cast.callee(c) == rec_name and cast.ctext(cast.strip(cast.call_args(c)[1])) == addr_param
                                              and cast.const_int(cast.call_args(c)[2]) == width // 8 for c in cast.node_calls_c(nd))]
        accs = [nd for nd in cfg.nodes if any(cast.callee(c) == acc_name and cast.const_int(cast.call_args(c)[1]) == width
                                              and cast.ctext(cast.strip(cast.call_args(c)[2])) == addr_param for c in cast.node_calls_c(nd))]
        ok = bool(recs) and bool(accs) and all(any(r.id in cfg.dominators()[a.id] for r in recs) for a in accs)
        ck.ob("R4", name, ok, VMC, "%s must call %s(vm, %s, %d) before %s(vm, %d, %s, ...)"
              % (name, rec_name, addr_param, width // 8, acc_name, width, addr_param))

    # ------------------------------------------------------------------ R5
    _breakpoint_match_rules(ck, tu)


def _breakpoint_match_rules(ck, tu):
    """R5 "memory breakpoints trigger exactly for accesses overlapping them": in check_memory_breakpoint - and in the helpers of the same
    file it calls from a condition - for each access kind K (read / write):
      * the list of recorded K-accesses is consulted only under the test `bp->access & BREAKPOINT_K` (dominance on the true edge);
      * the breakpoint flag is raised (or the helper answers non-zero) exactly on the two strict comparisons
            bp.ad < access.stop   and   access.start < bp.ad + bp.size
        each taken with the polarity under which the CFG reaches the hit, on linear forms (locals, helper parameters expanded);
      * the loop that holds them runs over the `num` entries of that list.
    Nothing depends on the spelling, on the nesting of the ifs or on where the loop lives."""
    from sa.repo import AnalysisError
    f = tu.func("check_memory_breakpoint")
    flag = tu.macro_int("EXCEPT_BREAKPOINT_MEMORY")

    def sets_flag(nd):
        if nd.kind != "stmt" or nd.ast is None:
            return False
        for x in cast.walk(nd.ast):
            if x.get("kind") == "CompoundAssignOperator" and x.get("opcode") == "|=" and cast.ctext(x["inner"][0]).endswith("exception_flags") \
                    and cast.const_int(x["inner"][1]) == flag:
                return True
        return False

    def returns(nonzero):
        def pred(nd):
            if nd.kind != "stmt" or nd.ast is None or nd.ast.get("kind") != "ReturnStmt" or not nd.ast.get("inner"):
                return False
            v = cast.const_int(nd.ast["inner"][0])
            return v is not None and (v != 0) == nonzero
        return pred

    def polarity(cfg, t, hits):
        """the label of test node t that decides a hit: for some hit h, h is reachable from exactly one outcome of t without
        re-evaluating t (another hit further on, reachable from both outcomes, says nothing); None when no hit is decided by t or
        two hits disagree"""
        decided = set()
        for h in hits:
            labs = set()
            for (sx, lab) in cfg.succ[t.id]:
                if lab in (True, False) and (sx == h.id or cfg.can_reach(sx, h.id, avoid=lambda n, t=t: n.id == t.id)):
                    labs.add(lab)
            if len(labs) == 1:
                decided |= labs
        return list(decided)[0] if len(decided) == 1 else None

    # contexts: (function, definitions for c_linear, hit predicate, {name prefix -> list name})
    ctxs = []
    cfg0 = f.cfg()
    hits0 = [nd for nd in cfg0.nodes if sets_flag(nd)]
    ck.need(hits0, "check_memory_breakpoint: no statement raises EXCEPT_BREAKPOINT_MEMORY")
    ctxs.append((f, cast.local_defs(f), hits0, {}))
    for t in cfg0.nodes:
        if t.kind != "test" or t.ast is None:
            continue
        e = cast.strip(t.ast)
        if e.get("kind") != "CallExpr" or cast.callee(e) not in tu.funcs:
            continue
        g = tu.funcs[cast.callee(e)]
        args = cast.call_args(e)
        params = [p_.get("name") for p_ in g.params]
        if len(params) != len(args):
            continue
        pol = polarity(cfg0, t, hits0)
        if pol is None:
            continue
        gl = cast.local_defs(g)
        inner_names = set(params) | set(gl) | set(n_.get("name") for n_ in cast.walk(g.body) if n_.get("kind") == "VarDecl")
        if any(cast.text_names(a_) & inner_names for a_ in args):
            raise AnalysisError("check_memory_breakpoint: an argument of %s() uses a name that is also a local of the helper" % g.name)
        defs = dict(cast.local_defs(f))
        defs.update(gl)
        defs.update(dict(zip(params, args)))
        gh = [nd for nd in g.cfg().nodes if returns(pol)(nd)]
        binds = dict((p_, cast.ctext(a_)) for p_, a_ in zip(params, args))
        ctxs.append((g, defs, gh, binds))

    def list_of(term, binds):
        for L in ("memory_r", "memory_w"):
            if L in term:
                return L
        head = term.split("->")[0].split(".")[0].split("[")[0].strip("(&* ")
        bound = binds.get(head, "")
        for L in ("memory_r", "memory_w"):
            if L in bound:
                return L
        return None

    found = {}        # list -> set of forms
    loops = set()
    for (g, defs, hits, binds) in ctxs:
        cfg = g.cfg()
        for t in cfg.nodes:
            if t.kind != "test" or t.ast is None:
                continue
            e = cast.strip(t.ast)
            if e.get("kind") != "BinaryOperator" or e.get("opcode") not in ("<", "<=", ">", ">="):
                continue
            # loop bound: i < <list>.num
            for side in e["inner"]:
                tx = cast.ctext(cast.strip(side))
                if tx.endswith(".num") or tx.endswith("->num"):
                    L = list_of(tx, binds)
                    if L:
                        loops.add(L)
            pol = polarity(cfg, t, hits)
            if pol is None:
                continue
            lr = cast.c_less_than(e, pol, defs)
            if lr is None:
                continue
            (lt, lc), (rt, rc) = lr
            d = dict(lt)
            for k_, v_ in rt:
                d[k_] = d.get(k_, 0) - v_
            d = dict((k_, v_) for k_, v_ in d.items() if v_)
            c = lc - rc
            acc = [k_ for k_ in d if "array[" in k_ and (k_.endswith(".stop") or k_.endswith(".start"))]
            if len(acc) != 1:
                continue
            L = list_of(acc[0], binds)
            if L is None:
                continue
            rest = dict((k_, v_) for k_, v_ in d.items() if k_ != acc[0])
            ads = [k_ for k_ in rest if k_.endswith("->ad") or k_.endswith(".ad")]
            szs = [k_ for k_ in rest if k_.endswith("->size") or k_.endswith(".size")]
            form = None
            if acc[0].endswith(".stop") and d[acc[0]] == -1 and len(rest) == 1 and len(ads) == 1 and rest[ads[0]] == 1:
                form = ("bp.ad < access.stop", c)
            if acc[0].endswith(".start") and d[acc[0]] == 1 and len(rest) == 2 and len(ads) == 1 and len(szs) == 1 and rest[ads[0]] == -1 and rest[szs[0]] == -1:
                form = ("access.start < bp.ad + bp.size", c)
            if form is None:
                form = ("other: %s < %s" % (sorted(lt), sorted(rt)), c)
            found.setdefault(L, set()).add(form)

    dom = cfg0.dominators()
    for kind, L, bit in (("read", "memory_r", tu.macro_int("BREAKPOINT_READ")), ("write", "memory_w", tu.macro_int("BREAKPOINT_WRITE"))):
        forms = found.get(L, set())
        want = set([("bp.ad < access.stop", 0), ("access.start < bp.ad + bp.size", 0)])
        ok = forms == want
        ck.ob("R5", "check_memory_breakpoint:%s" % kind, ok and L in loops, VMC,
              "%s breakpoints: the hit is decided on %s over %s (every entry: %s); expected exactly the two strict comparisons "
              "bp.ad < access.stop and access.start < bp.ad + bp.size over all recorded entries: an access that only touches the "
              "breakpoint's boundary triggers it, or an overlapping one does not"
              % (kind, sorted("%s%s" % (f_, "" if c_ == 0 else " (off by %d: non-strict)" % -c_) for f_, c_ in forms) or "nothing", L, L in loops))
        # the list is consulted only under the kind bit
        kt = []
        for t in cfg0.nodes:
            if t.kind == "test" and t.ast is not None:
                e = cast.strip(t.ast)
                if e.get("kind") == "BinaryOperator" and e.get("opcode") == "&" and any(cast.const_int(x_) == bit for x_ in e["inner"]) \
                        and any(cast.ctext(cast.strip(x_)).endswith("access") for x_ in e["inner"]):
                    kt.append(t)
        users = [nd for nd in cfg0.nodes if nd.ast is not None and nd.kind in ("test", "stmt") and L in cast.text_names(nd.ast)]
        good = bool(kt) and bool(users)
        for u in users:
            if not any(t.id in dom[u.id] and not any(lab is False and (sx == u.id or cfg0.can_reach(sx, u.id, avoid=lambda n, t=t: n.id == t.id))
                                                     for (sx, lab) in cfg0.succ[t.id]) for t in kt):
                good = False
        ck.ob("R5", "check_memory_breakpoint:%s:kind-bit" % kind, good, VMC,
              "the recorded %s accesses (%s) are matched against a breakpoint without the test `access & BREAKPOINT_%s` holding" % (kind, L, kind.upper()))


def _access_log_rules(ck, tu):
    """R6: "the recorded read and write ranges are exactly the bytes accessed since the last reset".
    add_range_to_list either appends [addr1, addr2) or extends an existing entry; an extension must not lose bytes:
      entry.stop  = addr2  only where entry.stop  == addr1 is known (the new range begins exactly where the entry ends), or the
      entry.start = addr1  only where entry.start == addr2 is known,   new bound is a max/min with the old one;
    every path records the range (extension or memory_access_list_add(access, addr1, addr2)); add_mem_read/add_mem_write pass
    (addr, addr + size) to the list of their own kind."""
    ck.rule("R7", "a typed access through the page pointer lies inside the page (linear bound on offset + width/8)", floor=1)
    typed_access_bound_rules(ck, tu, "R7")
    ck.rule("R6", "the access log never loses bytes: entries are extended only by exact concatenation (or max/min), every path records the range", floor=2)
    f = tu.func("add_range_to_list")
    ck.need(f is not None and len(f.params) == 3, "add_range_to_list(access, addr1, addr2) not found")
    a1, a2 = f.params[1]["name"], f.params[2]["name"]
    cfg = f.cfg()

    def flow(nd, st):
        return st

    def edge(nd, label, st):
        if nd.kind == "test" and label in (True, False):
            return st | frozenset([(cast.ctext(nd.ast).replace(" ", ""), label)])
        return st
    IN, _o = cfg.forward(frozenset(), flow, lambda x, y: x & y, edge)
    writes = []
    for nd in cfg.nodes:
        if nd.kind != "stmt" or nd.ast is None:
            continue
        for n in cast.walk(nd.ast):
            if n.get("kind") == "BinaryOperator" and n.get("opcode") == "=":
                lhs = cast.strip(n["inner"][0])
                if lhs.get("kind") == "MemberExpr" and lhs.get("name") in ("stop", "start"):
                    writes.append((nd, n, lhs))
    ck.need(writes, "add_range_to_list: no extension of an existing entry found (merge logic rewritten)")
    for (nd, n, lhs) in writes:
        fld = lhs.get("name")
        ltxt = cast.ctext(lhs).replace(" ", "")
        rhs = cast.strip(n["inner"][1])
        rtxt = cast.ctext(rhs).replace(" ", "")
        want_new, want_old = (a2, a1) if fld == "stop" else (a1, a2)
        facts = IN.get(nd.id, frozenset())
        concat = ("%s==%s" % (ltxt, want_old), True) in facts or ("%s==%s" % (want_old, ltxt), True) in facts
        monotone = rhs.get("kind") in ("ConditionalOperator", "CallExpr") and ltxt in rtxt and want_new in rtxt
        ok = (rtxt == want_new and concat) or monotone
        ck.ob("R6", "add_range_to_list:%s-extension" % fld, ok, VMC,
              "`%s = %s` is reached without `%s == %s` being known (conditions known: %s) and is not a max/min with the old bound: "
              "an access that starts inside the last recorded range and ends before its end shrinks the log"
              % (ltxt, rtxt, ltxt, want_old, sorted(t for (t, l) in facts if l)[:3]))
    # every path records
    from sa.pathob import undischarged

    def records(nd):
        if nd.kind != "stmt" or nd.ast is None:
            return False
        for n in cast.walk(nd.ast):
            if n.get("kind") == "CallExpr" and cast.callee(n) == "memory_access_list_add":
                args = [cast.ctext(a).replace(" ", "") for a in cast.call_args(n)]
                if args[1:] == [a1, a2]:
                    return True
        return any(w[0] is nd for w in writes)
    p = undischarged(cfg, records)
    ck.ob("R6", "add_range_to_list:every-path-records", p is None, VMC,
          "a path through add_range_to_list neither extends an entry nor appends [%s, %s)" % (a1, a2))
    for fn_, lst in (("add_mem_read", "memory_r"), ("add_mem_write", "memory_w")):
        g = tu.func(fn_)
        ck.need(g is not None, "%s not found" % fn_)
        ok = False
        for (cn, c) in g.calls():
            if cn == "add_range_to_list":
                args = [cast.ctext(a).replace(" ", "") for a in cast.call_args(c)]
                pa, ps = g.params[1]["name"], g.params[2]["name"]
                ok = lst in args[0] and args[1] == pa and args[2] in ("%s+%s" % (pa, ps), "%s+%s" % (ps, pa))
        ck.ob("R6", "%s:range" % fn_, ok, VMC, "%s must record [addr, addr + size) in %s" % (fn_, lst))


def typed_access_bound_rules(ck, tu, RID):
    """A multi-byte access through the page's host pointer (`*((uintN_t*)addr)` in memory_page_read / memory_page_write) lies inside the
    page: it is dominated by a test that says  (ad - page.ad) + my_size/8 <= page.size.  Decided on linear forms of the clang AST, with
    single-assignment locals and a boolean helper `static int fits(...) { ...; return <cmp>; }` expanded: an inclusive `last = off +
    n - 1; last < size` is the same test, `last <= size` lets an access whose last byte is one past the page through (no fault, one
    byte read or written beyond the host buffer)."""
    for fname in ("memory_page_read", "memory_page_write"):
        f = tu.func(fname)
        cfg = f.cfg()
        ldefs = cast.local_defs(f)
        # the typed dereferences: switch cases reading / writing through a cast of `addr`
        derefs = [nd for nd in cfg.nodes if nd.ast is not None and any(
            n.get("kind") == "UnaryOperator" and n.get("opcode") == "*" and any(x.get("kind") == "CStyleCastExpr" for x in cast.walk(n)) and "addr" in cast.text_names(n)
            for n in cast.walk(nd.ast))]
        if not derefs:
            ck.ob(RID, "%s:typed-access-found" % fname, False, VMC, "no typed access through the page pointer found (extractor blind)")
            continue
        sn = derefs[0]
        best = None
        seen = []
        for did in cfg.dominators()[sn.id]:
            dn = cfg.nodes[did]
            if dn.kind != "test":
                continue
            av = lambda x, did=did: x.id == did
            tsucc = [x for (x, lab) in cfg.succ[did] if lab is True]
            on_true = bool(tsucc) and (tsucc[0] == sn.id or cfg.can_reach(tsucc[0], sn.id, avoid=av))
            fsucc = [x for (x, lab) in cfg.succ[did] if lab is False]
            on_false = bool(fsucc) and (fsucc[0] == sn.id or cfg.can_reach(fsucc[0], sn.id, avoid=av))
            if not (on_true and not on_false):
                continue
            test, defs = dn.ast, dict(ldefs)
            t0 = cast.strip(test)
            if t0.get("kind") == "CallExpr":
                ih = cast.inline_bool_helper(tu, t0)
                if ih is None:
                    continue
                test, hd = ih
                defs.update(hd)
            lr = cast.c_less_than(test, True, defs)
            if lr is None:
                continue
            (lt, lc), (rt, rc) = lr
            d = dict(lt)
            for k_, v_ in rt:
                d[k_] = d.get(k_, 0) - v_
            d = dict((k_, v_) for k_, v_ in d.items() if v_)
            keys = sorted(d.items())
            seen.append((keys, lc - rc))
            size_terms = [k_ for k_, v_ in d.items() if v_ == -1 and (k_.endswith("->size") or k_.endswith(".size"))]
            width_terms = [k_ for k_, v_ in d.items() if v_ == 1 and "my_size" in k_]
            if size_terms and width_terms:
                best = (d, lc - rc)
        ok = best is not None and best[1] >= -1
        ck.ob(RID, "%s:typed-access-inside-page" % fname, ok, VMC,
              "the typed access through the page pointer is guarded by %s (as `sum + c < 0`): it must say offset + my_size/8 <= page size, "
              "i.e. c >= -1; with c = %s an access whose last byte lies one past the end of the page is performed (no fault, one byte beyond "
              "the host buffer)" % (seen[-2:], best[1] if best else "?"))


def overlap_predicate_rules(ck, tu, RID):
    """is_mpn_in_tab(new) answers "does the new page overlap a mapped one" for add_memory_page: it visits EVERY mapped page and
    declares a pair disjoint exactly on  old.ad >= new.ad + new.size  or  old.ad + old.size <= new.ad  (half-open ranges).  Decided on
    linear forms of the clang AST (locals expanded), either spelling / polarity of the two comparisons.  A lookup of the new page's
    two end points only (both ends free) misses a new page that encloses a mapped one.  Shared with C48: the allocators rely on the
    VM refusing an overlapping mapping."""
    f = tu.func("is_mpn_in_tab")
    ldefs = cast.local_defs(f)
    forms = []
    for n in cast.walk(f.body):
        if n.get("kind") == "BinaryOperator" and n.get("opcode") in (">=", "<=", "<", ">"):
            for pol in (True, False):
                lr = cast.c_less_than(n, pol, ldefs)
                if lr is None:
                    continue
                (lt, lc), (rt, rc) = lr
                d = dict(lt)
                for k_, v_ in rt:
                    d[k_] = d.get(k_, 0) - v_
                forms.append((frozenset((k_, v_) for k_, v_ in d.items() if v_), lc - rc))

    def has(new_end_le_old_start):
        for d, c in forms:
            dd = dict(d)
            pos = sorted(k_ for k_, v_ in dd.items() if v_ == 1)
            neg = sorted(k_ for k_, v_ in dd.items() if v_ == -1)
            if c != -1 or len(pos) != 2 or len(neg) != 1:
                continue
            a_side = [k_ for k_ in pos if "mpn_a" in k_]
            if new_end_le_old_start and len(a_side) == 2 and "mpn_a" not in neg[0] and neg[0].endswith("->ad"):
                return True          # new.ad + new.size <= old.ad
            if not new_end_le_old_start and len(a_side) == 0 and "mpn_a" in neg[0] and neg[0].endswith("->ad"):
                return True          # old.ad + old.size <= new.ad
        return False
    ok = has(True) and has(False)
    ck.ob(RID, "is_mpn_in_tab:predicate", ok, VMC,
          "overlap predicate is not the two-sided test (existing.start >= new.end -> disjoint; existing.end <= new.start -> disjoint)")
    loops = [n for n in cast.walk(f.body) if n.get("kind") in ("ForStmt", "WhileStmt")]
    ok = any("memory_pages_number" in cast.text_names(l) for l in loops)
    ck.ob(RID, "is_mpn_in_tab:all-pages", ok, VMC, "the overlap test does not visit every mapped page")
