"""C47 - emulated OS helper functions return the documented results: three exact lints.

 R1 high/low pair linearity: when X_high << 32 and X_low of one 64-bit argument enter a sum, they enter
    with the same sign (a - (b_high<<32) + b_low subtracts only half of b); and a 64-bit result is
    returned as (low 32 bits, high 32 bits) in that order
 R2 unchecked search sentinel: the result of str.find / rfind used arithmetically (address computation)
    must be tested against -1 first
 R3 index before bound: a loop whose condition indexes a buffer with a counter must test the counter
    against the length before the first indexing (a zero length must not index)
 R4 negative slice bound: a slice `X[:args.N - k]` (k > 0) built from a guest-supplied length is reached only
    where args.N >= k is known; otherwise N = 0 turns the bound into -k, which Python counts from the end
    (a zero-sized destination receives almost the whole string)
 R5 bounded terminated copy: when the string handed to a NUL-terminating writer (set_win_str_a/w, set_c_str,
    a set_str parameter) is bounded through a guest length L on some path (truncating slice, len() guard),
    then on every path len + 1 <= L (linear reasoning over the guards)
"""
import ast

from sa.repo import AnalysisError

from sa.astutil import walk_body, walk_local, dotted, norm, callee_attr, Resolver
from sa.cfg import CFG, node_exprs
from sa.facts import guard_facts

FILES = ["miasm/os_dep/win_api_x86_32.py", "miasm/os_dep/linux_stdlib.py", "miasm/os_dep/common.py", "miasm/os_dep/win_api_x86_32_seh.py"]
LEVEL_TEXT = ("Five repository-specific lints over the emulated OS helpers (sign linearity of high/low halves, search "
              "sentinel tested before arithmetic use, bound tested before first indexing, guest length minus constant never used as a "
              "slice bound without a lower-bound guard, NUL-terminated copies bounded by a guest length proved to fit by linear "
              "reasoning over the guards on every path), exact on the pinned tree. They "
              "decide these necessary conditions; the documented results in general are not decided.")
ASSUMPTIONS = ["CPython ast", "arguments named X_low / X_high are the halves of one 64-bit value (naming convention of func_args_stdcall lists)"]


def _flatten_sum(e, sign, out):
    if isinstance(e, ast.BinOp) and isinstance(e.op, ast.Add):
        _flatten_sum(e.left, sign, out)
        _flatten_sum(e.right, sign, out)
    elif isinstance(e, ast.BinOp) and isinstance(e.op, ast.Sub):
        _flatten_sum(e.left, sign, out)
        _flatten_sum(e.right, -sign, out)
    elif isinstance(e, ast.UnaryOp) and isinstance(e.op, ast.USub):
        _flatten_sum(e.operand, -sign, out)
    else:
        out.append((sign, e))


TERM_WRITERS = ("set_win_str_a", "set_win_str_w", "set_c_str", "set_str")


def _lin_str(lf):
    terms, c = lf
    t = " + ".join("%s%s" % ("" if k == 1 else "%d*" % k, n) for n, k in sorted(terms))
    return (t + (" %+d" % c if c else "")) if t else str(c)


def _guest_terms(lf):
    return [(n, k) for n, k in lf[0] if n.startswith("args.")]


def _nonneg_guard(facts, name, k):
    """Is `name >= k` among the must-facts (k >= 1)?"""
    for f in facts:
        if f[0] == "true" and f[1] == name and k == 1:
            return True
        if f[0] == "cmp":
            a, op, b = f[1], f[2], f[3]
            try:
                if a == name and ((op == ">=" and int(b) >= k) or (op == ">" and int(b) >= k - 1) or (op == "!=" and int(b) == 0 and k == 1)):
                    return True
            except ValueError:
                pass
            try:
                if b == name and ((op == "<=" and int(a) >= k) or (op == "<" and int(a) >= k - 1) or (op == "!=" and int(a) == 0 and k == 1)):
                    return True
            except ValueError:
                pass
    return False


def _upper_bounds(e):
    """Linear forms b such that the slice bound `e` is <= max(b...): max(A, c) contributes both A and c."""
    from sa.astutil import linear
    if isinstance(e, ast.Call) and dotted(e.func) == "max" and e.args and not e.keywords:
        out = []
        for a in e.args:
            out.extend(_upper_bounds(a))
        return out
    return [linear(e)]


def _bounded_copy_rules(ck, m, q, fn):
    from sa.astutil import linear, less_than
    cfg = None
    facts = None
    res = Resolver(fn)
    # ---------------------------------------------------------------- R4
    for sl in [n for n in walk_body(fn) if isinstance(n, ast.Subscript) and isinstance(n.slice, ast.Slice) and n.slice.upper is not None
               and n.slice.lower is None and n.slice.step is None]:
        lf = linear(sl.slice.upper)
        if lf[1] >= 0 or len(lf[0]) != 1:
            continue
        (name, coef), = tuple(lf[0])
        if coef != 1:
            continue
        k = -lf[1]
        guest = name.startswith("args.")
        ok_alias = False
        if not guest and name.isidentifier():
            d = res.unique_def(name)
            # size = args.size if args.size else 1
            if isinstance(d, ast.IfExp) and norm(d.test) == norm(d.body) and norm(d.body).startswith("args.") \
                    and isinstance(d.orelse, ast.Constant) and isinstance(d.orelse.value, int):
                guest = True
                ok_alias = d.orelse.value >= k and k == 1
            elif isinstance(d, ast.Call) and dotted(d.func) == "max" and any(isinstance(a, ast.Constant) and isinstance(a.value, int) and a.value >= k for a in d.args) \
                    and any(norm(a).startswith("args.") for a in d.args):
                guest = True
                ok_alias = True
        if not guest:
            continue
        if cfg is None:
            cfg = CFG(fn)
            facts = guard_facts(cfg)
        ok = ok_alias
        if not ok:
            nds = cfg.node_containing(sl)
            ok = bool(nds) and all(_nonneg_guard(facts.get(nd.id, frozenset()), name, k) for nd in nds)
        ck.ob("R4", "%s:%s" % (q, norm(sl)[:50]), ok, m.where(sl),
              "`%s` is reached without %s >= %d being known: a zero length makes the bound %d, which Python counts from the end of the "
              "string, so a zero-sized destination receives all but the last %d character(s)" % (norm(sl)[:60], name, k, -k, k))
    # ---------------------------------------------------------------- R5
    writes = [c for c in walk_body(fn) if isinstance(c, ast.Call) and callee_attr(c) in TERM_WRITERS and c.args]
    for w in writes:
        val = w.args[-1]
        if isinstance(val, ast.Subscript) and isinstance(val.slice, ast.Slice) and val.slice.upper is not None and val.slice.lower is None:
            bounds = set(_upper_bounds(val.slice.upper))
            var = None
        elif isinstance(val, ast.Name):
            var = val.id
            bounds = None
        else:
            continue
        if var is not None:
            if cfg is None:
                cfg = CFG(fn)
                facts = guard_facts(cfg)
            UNB = "unbounded"

            def flow(nd, st, var=var):
                a = nd.ast
                if nd.kind == "stmt" and isinstance(a, (ast.Assign, ast.AugAssign)):
                    tgs = a.targets if isinstance(a, ast.Assign) else [a.target]
                    for t in tgs:
                        names = [t.id] if isinstance(t, ast.Name) else [e.id for e in getattr(t, "elts", []) if isinstance(e, ast.Name)]
                        if var in names:
                            v = a.value
                            if isinstance(a, ast.Assign) and isinstance(v, ast.Subscript) and isinstance(v.slice, ast.Slice) and v.slice.upper is not None \
                                    and v.slice.lower is None and v.slice.step is None:
                                inner = frozenset(_upper_bounds(v.slice.upper))
                                if norm(v.value) == var and st != UNB and isinstance(st, frozenset):
                                    return inner | frozenset()   # X = X[:B]: the slice bound is the tighter statement kept
                                return inner
                            return UNB
                return st

            def edge(nd, label, st, var=var):
                if nd.kind == "test" and label in (True, False):
                    lt = less_than(nd.ast, label)
                    if lt is not None:
                        a, b, strict = lt
                        if norm(a) == "len(%s)" % var:
                            terms, c = linear(b)
                            return frozenset([(terms, c - (1 if strict else 0))])
                    # `var is None` true / `var` falsy: nothing (or the empty string) is written on this branch
                    t = nd.ast
                    if (isinstance(t, ast.Compare) and len(t.ops) == 1 and isinstance(t.ops[0], ast.Is) and norm(t.left) == var
                            and norm(t.comparators[0]) == "None" and label is True) or (isinstance(t, ast.Name) and t.id == var and label is False):
                        return frozenset([(frozenset(), 0)])
                return st

            def join(a, b):
                if a == UNB or b == UNB:
                    return UNB if a == b else frozenset(["MIXED"]) | (a if a != UNB else frozenset()) | (b if b != UNB else frozenset())
                return a | b
            IN, _o = cfg.forward(UNB, flow, join, edge)
            nds = cfg.node_containing(w)
            if not nds:
                continue
            st = IN.get(nds[0].id, UNB)
            if st == UNB:
                continue          # no bound on any path: an unbounded copy (lstrcpy) is not an instance
            bounds = set(st)
        guest_bounds = [b for b in bounds if b != "MIXED" and _guest_terms(b)]
        if not guest_bounds:
            continue
        bad = []
        for b in sorted(bounds, key=str):
            if b == "MIXED":
                bad.append("a path on which the string is not bounded at all")
                continue
            gt = _guest_terms(b)
            if len(b[0]) == 1 and gt and gt[0][1] == 1:
                if b[1] + 1 > 0:
                    bad.append("len <= %s, so with the terminator %d character(s) more than %s are written" % (_lin_str(b), b[1] + 1, gt[0][0]))
            elif not gt:
                continue          # a constant bound on this path says nothing about the guest length
            else:
                bad.append("bound %s is not comparable with the guest length" % _lin_str(b))
        Lname = _guest_terms(guest_bounds[0])[0][0]
        ck.ob("R5", "%s:%s(%s)<=%s" % (q, callee_attr(w), norm(val)[:30], Lname), not bad, m.where(w),
              "the NUL-terminating write `%s` can exceed the length argument: %s" % (norm(w)[:70], "; ".join(bad)))


_R6_FIXTURE = """
def lost_carry(a_low, b_low, a_high, b_high):
    low = (a_low + b_low) & 0xffffffff
    high = (a_high + b_high + (low >> 32)) & 0xffffffff
    return low, high

def kept_carry(a_low, b_low, a_high, b_high):
    low = a_low + b_low
    high = (a_high + b_high + (low >> 32)) & 0xffffffff
    return low & 0xffffffff, high
"""


def _dead_shift_rules(ck):
    """R6: a carry / high part obtained with `x >> k` must be able to be non-zero: if x is provably narrower than k bits (it was
    masked first) the shift is always 0 and the carry never reaches the high half - 64-bit arithmetic done on two 32-bit halves
    silently loses every overflow of the low half."""
    from sa.bitrange import dead_shifts
    ck.rule("R6", "no right shift in the OS helpers is provably always zero (a carry taken from an already masked value)", floor=1)
    fx = ast.parse(_R6_FIXTURE)
    for node in ast.walk(fx):
        for ch in ast.iter_child_nodes(node):
            ch._parent = node
    got = dict((f.name, len(dead_shifts(f))) for f in fx.body)
    if got != {"lost_carry": 1, "kept_carry": 0}:
        raise AnalysisError("R6 self-check on the built-in fixture failed: %r" % (got,))
    ck.ob("R6", "fixture:lost-carry-detected", True, "rules/c47.py:_R6_FIXTURE", "")
    for rel in FILES:
        if not ck.repo.exists(rel):
            continue
        m = ck.repo.mod(rel)
        for q, fn in sorted(m.funcs.items()):
            for (n, b) in dead_shifts(fn):
                ck.ob("R6", "%s:%s" % (q, norm(n)[:40]), False, m.where(n),
                      "`%s` is always 0: its operand has at most %d significant bit(s) (it was masked before the shift), so the carry / "
                      "high part it is meant to extract is lost" % (norm(n)[:60], b))


_R3_FIXTURE = """
def index_first(data1, data2, n):
    i = 0
    while data1[i] == data2[i] and i < n:
        i += 1
    return i

def bound_first(data1, data2, n):
    i = 0
    while i < n and data1[i] == data2[i]:
        i += 1
    return i
"""


def _r3_while(w):
    """(is an indexed-search loop, bound tested before the first indexing)"""
    subs = [s for s in walk_local(w.test) if isinstance(s, ast.Subscript) and isinstance(s.slice, ast.Name)]
    if not subs:
        return False, True
    idx = subs[0].slice.id
    bound_in_test = any(isinstance(cmp_, ast.Compare) and idx in [x.id for x in walk_local(cmp_) if isinstance(x, ast.Name)]
                        and not any(isinstance(s, ast.Subscript) for s in walk_local(cmp_)) for cmp_ in walk_local(w.test))
    if bound_in_test:
        first = w.test.values[0] if isinstance(w.test, ast.BoolOp) else w.test
        return True, not any(isinstance(s, ast.Subscript) for s in walk_local(first))
    return True, False


def _r3_fixture(ck):
    """R3 may have no instance left on a tree where the search loops were rewritten without an index (zip): the rule is kept
    honest by a built-in positive and negative example instead of an instance floor."""
    fx = ast.parse(_R3_FIXTURE)
    got = {}
    for f in fx.body:
        for w in [n for n in ast.walk(f) if isinstance(n, ast.While)]:
            got[f.name] = _r3_while(w)
    if got != {"index_first": (True, False), "bound_first": (True, True)}:
        raise AnalysisError("R3 self-check on the built-in fixture failed: %r" % (got,))
    ck.ob("R3", "fixture:index-before-bound-detected", True, "rules/c47.py:_R3_FIXTURE", "")


def run(ck):
    _dead_shift_rules(ck)
    ck.rule("R4", "a slice bound `args.N - k` is reached only where args.N >= k", floor=3)
    ck.rule("R7", "the two operands of a guest string comparison are read under the same length bound", floor=1)
    _symmetric_compare_rules(ck)
    ck.rule("R5", "a NUL-terminated copy bounded by a guest length writes at most that many characters", floor=3)
    ck.rule("R1", "the two halves of a 64-bit argument enter a sum with the same sign; results are returned low then high", floor=3)
    ck.rule("R2", "a find/rfind result is tested against -1 before it is used in arithmetic", floor=2)
    ck.rule("R3", "a counter is compared with the length before it first indexes the buffer", floor=1)
    _r3_fixture(ck)

    for rel in FILES:
        if not ck.repo.exists(rel):
            continue
        m = ck.repo.mod(rel)
        for q, fn in sorted(m.funcs.items()):
            _bounded_copy_rules(ck, m, q, fn)
            # ------------------------------------------------------------ R1
            for n in walk_body(fn):
                if isinstance(n, ast.BinOp) and isinstance(n.op, (ast.Add, ast.Sub)):
                    par = getattr(n, "_parent", None)
                    if isinstance(par, ast.BinOp) and isinstance(par.op, (ast.Add, ast.Sub)):
                        continue   # only maximal sums
                    terms = []
                    _flatten_sum(n, 1, terms)
                    halves = {}
                    for sign, t in terms:
                        tt = t
                        if isinstance(tt, ast.BinOp) and isinstance(tt.op, ast.LShift) and norm(tt.right) == "32":
                            tt = tt.left
                            kind = "high"
                        else:
                            kind = "low"
                        d = dotted(tt)
                        if d and d.endswith("_" + kind) and kind == "high":
                            halves.setdefault(d[:-5], {})["high"] = sign
                        elif d and d.endswith("_low") and kind == "low":
                            halves.setdefault(d[:-4], {})["low"] = sign
                    for base, hs in halves.items():
                        if "high" in hs and "low" in hs:
                            ck.ob("R1", "%s:%s" % (q, base), hs["high"] == hs["low"], m.where(n),
                                  "in `%s` the high half of %s enters with sign %+d and the low half with %+d: the result is off by "
                                  "2 * %s_low" % (norm(n)[:90], base, hs["high"], hs["low"], base))
            # 64-bit results: func_ret_*(ret_ad, X & 0xffffffff, (X >> 32) & 0xffffffff)
            for c in [x for x in walk_body(fn) if isinstance(x, ast.Call) and callee_attr(x) in ("func_ret_stdcall", "func_ret_cdecl") and len(x.args) == 3]:
                lo, hi = norm(c.args[1]).replace(" ", ""), norm(c.args[2]).replace(" ", "")
                if ">>32" in lo or ">>32" in hi:
                    # (low, high) = (X mod 2**32, (X >> 32) mod 2**32) of ONE value X: masks that keep at least the bits read are transparent,
                    # each half is provably below 2**32 (its own mask, or a 64-bit mask on X)
                    from sa import bitrange as _br
                    from sa.astutil import Resolver as _Rs
                    _res = _Rs(fn)

                    def strip(e, keep):
                        """drop `& m` when m has (at least) its `keep` low bits set"""
                        while isinstance(e, ast.BinOp) and isinstance(e.op, ast.BitAnd):
                            for a_, b_ in ((e.left, e.right), (e.right, e.left)):
                                if isinstance(b_, ast.Constant) and isinstance(b_.value, int) and b_.value & ((1 << keep) - 1) == (1 << keep) - 1:
                                    e = a_
                                    break
                            else:
                                break
                        return e
                    e_lo, e_hi = _res.expand_node(c.args[1]), _res.expand_node(c.args[2])
                    b_lo, b_hi = _br.bits(e_lo, _Rs(ast.parse("def f(): pass").body[0])), _br.bits(e_hi, _Rs(ast.parse("def f(): pass").body[0]))
                    x_lo = strip(e_lo, 32)
                    h_ = strip(e_hi, 32)
                    x_hi = strip(h_.left, 64) if isinstance(h_, ast.BinOp) and isinstance(h_.op, ast.RShift) and norm(h_.right) == "32" else None
                    ok = x_hi is not None and norm(strip(x_lo, 64)) == norm(x_hi) and b_lo is not None and b_lo <= 32 and b_hi is not None and b_hi <= 32
                    ck.ob("R1", "%s:result-halves" % q, ok, m.where(c), "64-bit result returned as (%s, %s): expected (low, high)" % (lo, hi))
            # ------------------------------------------------------------ R2
            finds = [c for c in walk_body(fn) if isinstance(c, ast.Call) and isinstance(c.func, ast.Attribute) and c.func.attr in ("find", "rfind")
                     and len(c.args) >= 1]
            if finds:
                cfg = None
                for c in finds:
                    par = getattr(c, "_parent", None)
                    used_arith = None
                    var = None
                    if isinstance(par, ast.BinOp) and isinstance(par.op, (ast.Add, ast.Sub, ast.Mult)):
                        used_arith = par
                    elif isinstance(par, ast.Assign) and len(par.targets) == 1 and isinstance(par.targets[0], ast.Name):
                        var = par.targets[0].id
                    if used_arith is not None:
                        # direct arithmetic on the call result: nothing can have tested it
                        ck.ob("R2", "%s:%s" % (q, norm(c)[:40]), False, m.where(c),
                              "`%s` uses the search result directly in arithmetic: when the character is absent the sentinel -1 "
                              "is added to the address instead of returning NULL" % norm(used_arith)[:80])
                        continue
                    if var is None:
                        continue
                    if cfg is None:
                        cfg = CFG(fn)
                    # may-analysis: can `var` still hold the raw sentinel -1 at a node?
                    from sa.facts import atom as _atom

                    def _excl(fs):
                        for ft in fs:
                            if ft[0] == "cmp":
                                a, op, b = ft[1], ft[2], ft[3]
                                if a == var and ((op == "!=" and b == "-1") or (op == ">=" and b == "0") or (op == ">" and b == "-1")):
                                    return True
                                if b == var and ((op == "!=" and a == "-1") or (op == "<=" and a == "0") or (op == "<" and a == "-1")):
                                    return True
                        return False

                    def _flow(nd, st, par=par):
                        a = nd.ast
                        if nd.kind == "stmt" and isinstance(a, (ast.Assign, ast.AugAssign)):
                            tg = a.targets[0] if isinstance(a, ast.Assign) else a.target
                            if isinstance(tg, ast.Name) and tg.id == var:
                                return a is par
                        return st

                    def _edge(nd, label, st):
                        if nd.kind == "test" and label in (True, False) and st and _excl(_atom(nd.ast, label)):
                            return False
                        return st
                    IN, _o = cfg.forward(False, _flow, lambda x, y: x or y, _edge)
                    facts = dict((k, (frozenset() if v else frozenset([("cmp", var, "!=", "-1")]))) for k, v in IN.items())
                    # arithmetic uses of var (directly, or scaled by a constant) with a non-constant partner
                    from sa.facts import atom

                    def scaled(e):
                        if isinstance(e, ast.Name) and e.id == var:
                            return True
                        if isinstance(e, ast.BinOp) and isinstance(e.op, ast.Mult):
                            return (scaled(e.left) and isinstance(e.right, ast.Constant)) or (scaled(e.right) and isinstance(e.left, ast.Constant))
                        return False
                    for nd in cfg.nodes:
                        for e in node_exprs(nd):
                            for x in walk_local(e):
                                if isinstance(x, ast.BinOp) and isinstance(x.op, (ast.Add, ast.Sub)) and (scaled(x.left) or scaled(x.right)):
                                    other = x.right if scaled(x.left) else x.left
                                    if isinstance(other, ast.Constant):
                                        continue   # i + 1 style slicing arithmetic: -1 + 1 == 0 is the idiom's point
                                    f = set(facts.get(nd.id, frozenset()))
                                    # conditional expressions guard their arms
                                    ch, par = x, getattr(x, "_parent", None)
                                    while par is not None and not isinstance(par, ast.stmt):
                                        if isinstance(par, ast.IfExp):
                                            if ch is par.body:
                                                f |= set(atom(par.test, True))
                                            elif ch is par.orelse:
                                                f |= set(atom(par.test, False))
                                        ch, par = par, getattr(par, "_parent", None)
                                    tested = any(ft[0] == "cmp" and var in (ft[1], ft[3]) and ("-1" in (ft[1], ft[3]) or "0" in (ft[1], ft[3]))
                                                 for ft in f)
                                    ck.ob("R2", "%s:%s=%s" % (q, var, norm(c)[:30]), tested, m.where(x),
                                          "`%s` is reached without a test of `%s` against -1" % (norm(x)[:70], var))
            # ------------------------------------------------------------ R3
            for w in [n for n in walk_body(fn) if isinstance(n, ast.While)]:
                subs = [s for s in walk_local(w.test) if isinstance(s, ast.Subscript) and isinstance(s.slice, ast.Name)]
                if not subs:
                    continue
                idx = subs[0].slice.id
                bound_in_test = any(isinstance(cmp_, ast.Compare) and idx in [x.id for x in walk_local(cmp_) if isinstance(x, ast.Name)]
                                    and not any(isinstance(s, ast.Subscript) for s in walk_local(cmp_)) for cmp_ in walk_local(w.test))
                if bound_in_test:
                    # the bound must come first in an `and` chain
                    first = w.test.values[0] if isinstance(w.test, ast.BoolOp) else w.test
                    ok = not any(isinstance(s, ast.Subscript) for s in walk_local(first))
                else:
                    ok = False
                ck.ob("R3", "%s:while %s" % (q, norm(w.test)[:50]), ok, m.where(w),
                      "the loop condition indexes with `%s` before any comparison of `%s` with the length: a zero length raises "
                      "IndexError (the bound is tested only after the increment)" % (idx, idx))


def _symmetric_compare_rules(ck):
    """R7: strcmp / strncmp / memcmp-like helpers compare two guest buffers: both are fetched with the same getter and the same bound
    (the caller's size, or none).  A bound of one operand taken from the length of the other (`get_c_str(p1, len(s2))`) cuts the first
    string right before the character that decides the result when the second is its proper prefix."""
    from sa.astutil import Resolver
    n = 0
    for rel in FILES:
        if not ck.repo.exists(rel):
            continue
        m = ck.repo.mod(rel)
        for q, fn in sorted(m.funcs.items()):
            for c in [x for x in walk_body(fn) if isinstance(x, ast.Call) and callee_attr(x) == "cmp_elts" and len(x.args) == 2]:
                res = Resolver(fn)
                defs = [res.unique_def(a.id) if isinstance(a, ast.Name) else a for a in c.args]
                if not all(isinstance(d, ast.Call) for d in defs):
                    continue
                n += 1
                g0, g1 = callee_attr(defs[0]), callee_attr(defs[1])
                b0 = [norm(a) for a in defs[0].args[1:]] + sorted("%s=%s" % (k.arg, norm(k.value)) for k in defs[0].keywords)
                b1 = [norm(a) for a in defs[1].args[1:]] + sorted("%s=%s" % (k.arg, norm(k.value)) for k in defs[1].keywords)
                ck.ob("R7", "%s:compare-operands" % q, g0 == g1 and b0 == b1, m.where(c),
                      "the compared buffers are read as %s(%s) and %s(%s): different getters or bounds - one operand can be cut before the "
                      "position that decides the comparison" % (g0, ", ".join(b0), g1, ", ".join(b1)))
    ck.ob("R7", "compare-sites-seen", n >= 1, "miasm/os_dep", "no guest string comparison found (extractor blind)")
