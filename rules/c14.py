"""C14 - lifted IR is well-formed: three clauses enforced by construction.

 R1 width and destination-kind clauses: AssignBlock's assignment table is written only in _set (and created
    in __init__); the width test and the ExprId/ExprMem test dominate that write; every construction path
    goes through _set; slice destinations are completed by a compose over the parent; the mutating mapping
    methods raise. Hence no IR assignment with unequal widths or a non register/memory destination can
    exist, whatever a lifter does.
 R2 single next destination: IRBlock.cache_dst raises on a second IRDst and is what `dst` consults; the
    lifter supplies the fall-through when none was set, before the block is added to the graph
 R3 edges: IRCFG.add_irblock adds an edge for every location / constant leaf of the tracked destination,
    and the tracking splits conditional choices into both arms
 R5 width inference over every lifter function (sa/widths): no operator / conditional / assignment is built from two expressions of
    known, different widths
 R4 (x86) every assignment of a block is rewritten to the registers of the lifter's mode, destination pointer included, before
    the block enters the graph ("every referenced register belongs to the architecture" is decided for this rewriting step only)
"""
import ast

from sa.astutil import walk_body, walk_local, dotted, norm, callee_attr, assigned_targets, MUTATORS
from sa.cfg import CFG, node_calls

IR = "miasm/ir/ir.py"
LEVEL_TEXT = ("By-construction argument checked statically: single writer of AssignBlock._assigns, guards dominating that "
              "write on every path, all constructors funnel into it, mutators disabled; IRDst uniqueness guard and "
              "fall-through completion ordering; edge creation for every leaf of the tracked destination. Holds for every "
              "lifter and every instruction because it constrains the only code that can create IR.")
LEVEL_TEXT += ' Also: destination tracking walks every assignment block and rebuilds its worklist as {blk[d] if d in blk else d}; the worklist step classifies conditional / identifier / final destinations on every path.'
ASSUMPTIONS = ["CPython ast; __slots__ prevents other attributes", "IR assignments exist only inside AssignBlock objects"]


def run(ck):
    m = ck.repo.mod(IR)
    meths = m.methods("AssignBlock")
    ck.rule("R1", "AssignBlock._assigns has one guarded writer; widths equal and destination ExprId/ExprMem on every path to it", floor=5)
    ck.rule("R2", "a second IRDst in a block is refused; a missing one is completed before the block enters the graph", floor=2)
    ck.rule("R3", "an edge is added for every location/constant leaf of the tracked destination", floor=3)
    _mode_register_rules(ck)
    _width_rules(ck)

    # ---------------------------------------------------------------- R1
    writers = {}
    for name, fn in meths.items():
        for n in walk_body(fn):
            if isinstance(n, (ast.Assign, ast.AugAssign, ast.Delete)):
                for t in assigned_targets(n):
                    b = t
                    sub = False
                    while isinstance(b, ast.Subscript):
                        b = b.value
                        sub = True
                    if dotted(b) == "self._assigns":
                        writers.setdefault(name, []).append((n, sub))
            if isinstance(n, ast.Call) and isinstance(n.func, ast.Attribute) and n.func.attr in MUTATORS and dotted(n.func.value) == "self._assigns":
                writers.setdefault(name, []).append((n, True))
    extra = sorted(k for k in writers if k not in ("__init__", "_set"))
    init_only_creates = all(not sub and norm(n.value) in ("{}", "dict()") for (n, sub) in writers.get("__init__", []))
    ck.ob("R1", "AssignBlock._assigns:who-writes", not extra and init_only_creates and "_set" in writers, m.where(meths["_set"]),
          "the assignment table is written outside _set (%s)" % (extra or "__init__ stores entries directly"))
    # writers outside the class (whole miasm in thorough, the IR users in quick)
    files = ck.repo.pyfiles("miasm") if ck.tier == "thorough" else ["miasm/ir/ir.py", "miasm/core/sembuilder.py", "miasm/analysis/data_flow.py",
                                                                   "miasm/analysis/ssa.py", "miasm/analysis/outofssa.py", "miasm/jitter/codegen.py"]
    outside = []
    for rel in files:
        mm = ck.repo.mod(rel)
        for q, f in mm.funcs.items():
            if rel == IR and q.startswith("AssignBlock."):
                continue
            for n in walk_body(f):
                if isinstance(n, ast.Attribute) and n.attr == "_assigns" and isinstance(getattr(n, "ctx", None), (ast.Store, ast.Del)):
                    outside.append("%s:%s" % (rel, q))
                if isinstance(n, ast.Subscript) and isinstance(n.value, ast.Attribute) and n.value.attr == "_assigns" and \
                        isinstance(n.ctx, (ast.Store, ast.Del)):
                    outside.append("%s:%s" % (rel, q))
    ck.ob("R1", "AssignBlock._assigns:outside-writers", not outside, IR, "_assigns is written from %s" % sorted(set(outside))[:3])
    fn = meths["_set"]
    cfg = CFG(fn)
    store = [nd for nd in cfg.nodes if nd.kind == "stmt" and isinstance(nd.ast, ast.Assign) and any(
        isinstance(t, ast.Subscript) and dotted(t.value) == "self._assigns" for t in nd.ast.targets)]
    ck.need(len(store) == 1, "AssignBlock._set: store into _assigns not found (or several)")
    st = store[0]
    dom = cfg.dominators()[st.id]
    dp, sp = fn.args.args[1].arg, fn.args.args[2].arg

    def guard(pred_text):
        for did in dom:
            dn = cfg.nodes[did]
            if dn.kind == "test" and pred_text(norm(dn.ast)):
                # the failing outcome raises
                for (s, l) in cfg.succ[did]:
                    if cfg.nodes[s].kind == "stmt" and isinstance(cfg.nodes[s].ast, ast.Raise):
                        # and the store is reached only through the other outcome
                        other = [x for (x, l2) in cfg.succ[did] if l2 != l]
                        if other and (other[0] == st.id or cfg.can_reach(other[0], st.id)):
                            return True
        return False
    ck.ob("R1", "AssignBlock._set:width-guard",
          guard(lambda t: t.replace(" ", "") in ("%s.size!=%s.size" % (dp, sp), "%s.size!=%s.size" % (sp, dp))), m.where(fn),
          "the store into the assignment table is not dominated by `dst.size != src.size -> raise`")
    key = norm([t for t in st.ast.targets if isinstance(t, ast.Subscript)][0].slice)
    kind_ok = False
    for did in dom:
        dn = cfg.nodes[did]
        if dn.kind == "test" and isinstance(dn.ast, ast.Call) and callee_attr(dn.ast) == "isinstance" and len(dn.ast.args) == 2 \
                and norm(dn.ast.args[0]) == key:
            classes = dn.ast.args[1].elts if isinstance(dn.ast.args[1], ast.Tuple) else [dn.ast.args[1]]
            names = set((c.attr if isinstance(c, ast.Attribute) else getattr(c, "id", "?")) for c in classes)
            f_succ = [x for (x, l) in cfg.succ[did] if l is False]
            t_succ = [x for (x, l) in cfg.succ[did] if l is True]
            raises = bool(f_succ) and cfg.nodes[f_succ[0]].kind == "stmt" and isinstance(cfg.nodes[f_succ[0]].ast, ast.Raise)
            if names == set(["ExprId", "ExprMem"]) and raises and t_succ and (t_succ[0] == st.id or cfg.can_reach(t_succ[0], st.id)):
                kind_ok = True
    ck.ob("R1", "AssignBlock._set:destination-kind-guard", kind_ok, m.where(fn),
          "the stored destination `%s` is not tested to be exactly an ExprId or ExprMem (else raise) before the store" % key)
    # slice completion
    ok = False
    for n in walk_body(fn):
        if isinstance(n, ast.If) and "isinstance(%s, " % dp in norm(n.test) and "ExprSlice" in norm(n.test):
            body = norm(ast.Module(body=n.body, type_ignores=[]))
            ok = "new_dst = %s.arg" % dp in body and "slice_rest(%s)" % dp in body and "ExprCompose(*args)" in body and \
                "(%s, %s.start, %s.stop)" % (sp, dp, dp) in body
    ck.ob("R1", "AssignBlock._set:slice-completion", ok, m.where(fn),
          "a slice destination must become its parent, with the source completed by the untouched slices of the parent")
    fn = meths["__init__"]
    sets = [c for c in walk_body(fn) if isinstance(c, ast.Call) and dotted(c.func) == "self._set"]
    loops = [n for n in walk_body(fn) if isinstance(n, ast.For)]
    ok = len(sets) >= 1 and len(loops) >= 1 and all(any(isinstance(c, ast.Call) and dotted(c.func) == "self._set" for c in walk_local(l)) for l in loops)
    ck.ob("R1", "AssignBlock.__init__:funnel", ok, m.where(fn), "a construction path stores assignments without going through _set")
    for name in ("__setitem__", "__delitem__", "update"):
        f = meths.get(name)
        ok = f is not None and len([s for s in f.body if not (isinstance(s, ast.Expr) and isinstance(s.value, ast.Constant))]) == 1 and \
            any(isinstance(s, ast.Raise) for s in f.body)
        ck.ob("R1", "AssignBlock.%s:disabled" % name, ok, m.where(f) if f else IR, "AssignBlock.%s must refuse mutation" % name)
    cls = m.cls("AssignBlock")
    slots = [norm(s.value) for s in cls.body if isinstance(s, ast.Assign) and norm(s.targets[0]) == "__slots__"]
    ck.ob("R1", "AssignBlock.__slots__", bool(slots) and "_assigns" in slots[0], m.where(cls), "AssignBlock no longer restricts its attributes with __slots__")

    # ---------------------------------------------------------------- R2
    fn = m.func("IRBlock.cache_dst")
    ok = False
    for n in walk_body(fn):
        if isinstance(n, ast.If) and "is_id('IRDst')" in norm(n.test).replace('"', "'"):
            for s in n.body:
                if isinstance(s, ast.If) and norm(s.test) == "final_dst is not None" and any(isinstance(x, ast.Raise) for x in s.body):
                    ok = True
    ck.ob("R2", "IRBlock.cache_dst:second-IRDst-refused", ok, m.where(fn), "a block with two IRDst assignments is accepted")
    loops = [n for n in walk_body(fn) if isinstance(n, ast.For)]
    ok = len(loops) >= 2 and "enumerate(self)" in norm(loops[0].iter)
    ck.ob("R2", "IRBlock.cache_dst:all-assignblks", ok, m.where(fn), "cache_dst does not scan every assignment block")
    fn = m.func("IRBlock.dst")
    ok = any(isinstance(n, ast.Return) and norm(n.value) == "self.cache_dst()" for n in walk_body(fn))
    ck.ob("R2", "IRBlock.dst", ok, m.where(fn), "IRBlock.dst does not go through cache_dst")
    fn = m.func("Lifter.post_add_asmblock_to_ircfg")
    cfg = CFG(fn)
    comp = [nd for nd in cfg.nodes if any(dotted(c.func) == "self.set_empty_dst_to_next" for c in node_calls(nd))]
    adds = [nd for nd in cfg.nodes if any(isinstance(c.func, ast.Attribute) and c.func.attr == "add_irblock" for c in node_calls(nd))]
    ok = bool(comp) and bool(adds) and all(any(c.id in cfg.dominators()[a.id] for c in comp) for a in adds)
    ck.ob("R2", "post_add_asmblock_to_ircfg:complete-then-add", ok, m.where(fn), "blocks are added to the graph before the missing IRDst is completed")
    fn = m.func("Lifter.set_empty_dst_to_next")
    _complete_dst_rule(ck, m, fn)

    # ---------------------------------------------------------------- R3
    from sa.prenorm import normalise_function
    from sa import symval as _sv
    import re as _re
    fn = normalise_function(m.func("IRCFG.add_irblock"))
    blkp = fn.args.args[1].arg
    loops = [n for n in walk_body(fn) if isinstance(n, ast.For) and "self.dst_trackback(" in norm(n.iter)]
    ok_loc = ok_int = False
    src_ok = True
    seen = []
    if loops and isinstance(loops[0].target, ast.Name):
        d = loops[0].target.id

        def decide(t):
            # a freshly built ExprLoc is a location, not an integer
            if isinstance(t, ast.Call) and isinstance(t.func, ast.Attribute) and isinstance(t.func.value, ast.Call) and \
                    (dotted(t.func.value.func) or "").split(".")[-1] == "ExprLoc":
                return {"is_loc": True, "is_int": False, "is_mem": False, "is_id": False}.get(t.func.attr)
            return None

        def target_of(e):
            t = norm(e).replace("m2_expr.", "")
            mm = _re.match(r"^ExprLoc\((.*), [^,]*\)\.loc_key$", t)
            return mm.group(1) if mm else t
        for pth in _sv.paths(loops[0].body, decide=decide, limit=64):
            kinds = {}
            for t, b in pth.conds:
                if isinstance(t, ast.Call) and isinstance(t.func, ast.Attribute) and norm(t.func.value) == d and t.func.attr in ("is_loc", "is_int"):
                    kinds[t.func.attr] = b
            edges = [c for c in pth.effects if isinstance(c, ast.Call) and dotted(c.func) in ("self.add_uniq_edge", "self.add_edge") and len(c.args) >= 2]
            tg = [target_of(c.args[1]) for c in edges]
            seen.append("%s -> %s" % (sorted(kinds.items()), tg))
            if any(norm(c.args[0]) != "%s.loc_key" % blkp for c in edges):
                src_ok = False
            if kinds.get("is_int") is True and "self.loc_db.get_or_create_offset_location(int(%s))" % d in tg:
                ok_int = True
            if kinds.get("is_loc") is True and kinds.get("is_int") is not True and "%s.loc_key" % d in tg:
                ok_loc = True
            if kinds.get("is_int") is True and not edges:
                ok_int = False
                break
            if kinds.get("is_loc") is True and kinds.get("is_int") is not True and not edges:
                ok_loc = False
                break
    ck.ob("R3", "IRCFG.add_irblock:edges", ok_loc and ok_int and src_ok, m.where(fn),
          "not every location / constant destination becomes an edge from the block (paths: %s)" % "; ".join(seen[:4]))
    ok = any(isinstance(n, ast.Assign) and norm(n.targets[0]) == "self.blocks[%s.loc_key]" % blkp for n in walk_body(fn))
    ck.ob("R3", "IRCFG.add_irblock:register", ok, m.where(fn), "the block is not registered under its location")
    fn = m.func("IRCFG._extract_dst")
    _extract_dst_rules(ck, m, fn)
    _trackback_rules(ck, m, m.func("IRCFG.dst_trackback"))
    _dst_rewrite_rules(ck)


def _extract_dst_rules(ck, m, fn):
    """Worklist step of the destination extraction, stated on the paths of the loop body (sa/symval) and on the elements each path adds
    to the three collections, whatever the order of the tests and the spelling of the additions (add / update / display):
      a popped value known to be a conditional puts BOTH its alternatives back on the worklist;
      a popped value known to be an identifier (and not a conditional) goes to the returned set;
      on every other path the value is kept as final in `done` (locations, integers, memory, anything else) - never dropped."""
    from sa import symval
    from sa.astutil import added_elements
    ps = [a.arg for a in fn.args.args]
    todo, done = ps[1], ps[2]
    loops = [n for n in walk_body(fn) if isinstance(n, ast.While) and norm(n.test) in (todo, "len(%s) > 0" % todo, "len(%s)" % todo, "0 < len(%s)" % todo)]
    ck.need(loops, "IRCFG._extract_dst: worklist loop `while %s` not found" % todo)
    lp = loops[0]
    pops = [st for st in lp.body if isinstance(st, ast.Assign) and isinstance(st.targets[0], ast.Name) and isinstance(st.value, ast.Call)
            and norm(st.value.func) == "%s.pop" % todo]
    ck.need(pops, "IRCFG._extract_dst: `%s.pop()` not found" % todo)
    v = pops[0].targets[0].id
    rets = [n for n in walk_body(fn) if isinstance(n, ast.Return) and isinstance(n.value, ast.Name)]
    ck.need(rets, "IRCFG._extract_dst: returned collection not found")
    out = rets[-1].value.id
    rest = lp.body[lp.body.index(pops[0]) + 1:]
    both = ids = final = True
    n_paths = 0
    detail = []
    for pth in symval.paths(rest, limit=64):
        n_paths += 1
        known = {}
        for t, b in pth.conds:
            for c in ([t] if not (isinstance(t, ast.BoolOp) and isinstance(t.op, ast.Or) and not b) else t.values):
                if isinstance(c, ast.Call) and isinstance(c.func, ast.Attribute) and norm(c.func.value) == v and c.func.attr.startswith("is_") and not c.args:
                    known[c.func.attr] = b
        adds = {}
        for e in pth.effects:
            ae = added_elements(e)
            if ae is not None:
                adds.setdefault(ae[0], set()).update(norm(x) for x in ae[1])
        desc = "path [%s] adds %s" % (", ".join("%s=%s" % kv for kv in sorted(known.items())), dict((k, sorted(x)) for k, x in adds.items()))
        if known.get("is_cond") is True:
            if not set(["%s.src1" % v, "%s.src2" % v]) <= adds.get(todo, set()):
                both = False
                detail.append(desc)
        elif known.get("is_id") is True:
            if v not in adds.get(out, set()):
                ids = False
                detail.append(desc)
        else:
            if v not in adds.get(done, set()):
                final = False
                detail.append(desc)
    ck.need(n_paths >= 3, "IRCFG._extract_dst: fewer than three classification paths found (%d)" % n_paths)
    ck.ob("R3", "IRCFG._extract_dst:both-arms", both, m.where(fn), "a conditional destination is not split into both arms: %s" % "; ".join(detail[:2]))
    ck.ob("R3", "IRCFG._extract_dst:ids-tracked", ids, m.where(fn), "an identifier destination is not handed back for tracking: %s" % "; ".join(detail[:2]))
    ck.ob("R3", "IRCFG._extract_dst:final-kept", final, m.where(fn),
          "a final destination (location, integer, memory, other) is dropped instead of being kept in `%s`: %s" % (done, "; ".join(detail[:2])))


def _complete_dst_rule(ck, m, fn):
    """A block without IRDst gets exactly one IRDst = ExprLoc(next location): on every path of the loop over the blocks, either the
    block is known to have a destination, or it is replaced by a block made of ALL its assignment blocks plus one AssignBlock
    {self.IRDst: ExprLoc(<location>, <pc / IRDst size>)}. Stated on the CFG and on expanded expressions: temporaries, comprehension vs
    loop, list + [x] vs append are the same code."""
    from sa.astutil import Resolver
    from sa.pathob import undischarged, path_text
    cfg = CFG(fn)
    res = Resolver(fn)
    loops = [nd for nd in cfg.nodes if nd.kind == "for" and "ir_blocks" in norm(nd.ast.iter)]
    ck.need(loops, "Lifter.set_empty_dst_to_next: loop over the IR blocks not found")
    L = loops[0]
    blk = [norm(e) for e in L.ast.target.elts][-1] if isinstance(L.ast.target, ast.Tuple) else norm(L.ast.target)

    def has_dst_edge(nd, label):
        if nd.kind != "test":
            return False
        t = norm(nd.ast)
        return (t == "%s.dst is not None" % blk and label is True) or (t == "%s.dst is None" % blk and label is False) or (t == "%s.dst" % blk and label is True)

    def new_dst_assignblk(e):
        """AssignBlock({self.IRDst: ExprLoc(x, size)}, ...) possibly through locals"""
        e = res.expand_node(e)
        if isinstance(e, ast.Call) and (dotted(e.func) or "").split(".")[-1] == "AssignBlock" and e.args and isinstance(e.args[0], ast.Dict) and len(e.args[0].keys) == 1 \
                and norm(e.args[0].keys[0]) == "self.IRDst":
            v = res.expand_node(e.args[0].values[0])
            return isinstance(v, ast.Call) and (dotted(v.func) or "").split(".")[-1] == "ExprLoc" and len(v.args) == 2 and norm(v.args[1]) in ("self.pc.size", "self.IRDst.size")
        return False

    def replaces(nd):
        a = nd.ast
        if not (nd.kind == "stmt" and isinstance(a, ast.Assign) and isinstance(a.targets[0], ast.Subscript) and norm(a.targets[0].value) == "ir_blocks"):
            return False
        v = a.value
        if not (isinstance(v, ast.Call) and (dotted(v.func) or "").split(".")[-1] == "IRBlock" and len(v.args) == 3 and norm(v.args[1]) == "%s.loc_key" % blk):
            return False
        lst = v.args[2]
        # all old assignment blocks + the new one
        if isinstance(lst, ast.Name):
            d = res.unique_def(lst.id)
            keeps = d is not None and "%s.assignblks" % blk in norm(d)
            appended = any(isinstance(c, ast.Call) and isinstance(c.func, ast.Attribute) and c.func.attr == "append" and norm(c.func.value) == lst.id and c.args
                           and new_dst_assignblk(c.args[0]) for c in walk_body(fn))
            inline = d is not None and any(new_dst_assignblk(x) for x in ast.walk(d) if isinstance(x, (ast.Call, ast.Name)))
            return keeps and (appended or inline)
        e = res.expand_node(lst)
        return "%s.assignblks" % blk in norm(e) and any(new_dst_assignblk(x) for x in ast.walk(lst) if isinstance(x, (ast.Call, ast.Name)))
    p = undischarged(cfg, replaces, edge_ok=has_dst_edge, start=(L.id, "iter"), targets=[L.id, cfg.exit.id])
    ck.ob("R2", "set_empty_dst_to_next", p is None and any(replaces(nd) for nd in cfg.nodes), m.where(fn),
          "a block without IRDst must be replaced by itself plus exactly one IRDst = ExprLoc(next location): %s" % (path_text(p) if p else "no such replacement found"))


def _mode_register_rules(ck):
    """R4 (x86): registers foreign to the lifter's mode are rewritten everywhere. Every block added to the graph by
    add_asmblock_to_ircfg goes through irbloc_fix_regs_for_mode; there, both the destination and the source of EVERY assignment
    are stored only after a full-expression rewrite (expr_fix_regs_for_mode = replace_expr over the mode's table): a table lookup on
    the destination alone leaves foreign registers inside the pointer of a memory destination."""
    from sa.pathob import undischarged, path_text
    X86 = "miasm/arch/x86/sem.py"
    ck.rule("R4", "every assignment of an x86 IR block has destination and source fully rewritten to the mode's registers before it is stored", floor=2)
    m = ck.repo.mod(IR)
    post = m.func("Lifter.post_add_asmblock_to_ircfg")
    cfg = CFG(post)
    adds = [nd for nd in cfg.nodes if any(dotted(c.func) == "ircfg.add_irblock" for c in node_calls(nd))]
    ck.need(adds, "Lifter.post_add_asmblock_to_ircfg: ircfg.add_irblock call not found")
    for nd in adds:
        c = [c for c in node_calls(nd) if dotted(c.func) == "ircfg.add_irblock"][0]
        arg = norm(c.args[0])
        fixed = lambda n2: n2.kind == "stmt" and isinstance(n2.ast, ast.Assign) and norm(n2.ast.targets[0]) == arg and isinstance(n2.ast.value, ast.Call) \
            and dotted(n2.ast.value.func) == "self.irbloc_fix_regs_for_mode" and len(n2.ast.value.args) >= 2 and norm(n2.ast.value.args[1]) == "self.attrib"
        inline = isinstance(c.args[0], ast.Call) and dotted(c.args[0].func) == "self.irbloc_fix_regs_for_mode"
        p = None if inline else undischarged(cfg, fixed, targets=[nd.id])
        ck.ob("R4", "Lifter.post_add_asmblock_to_ircfg:block-fixed-before-add", p is None, m.where(nd.ast),
              "a block reaches ircfg.add_irblock without irbloc_fix_regs_for_mode(block, self.attrib): %s" % (path_text(p) if p else ""))
    xm = ck.repo.mod(X86)
    ef = xm.func("Lifter_X86_16.expr_fix_regs_for_mode")
    ep = [a.arg for a in ef.args.args]
    ok = any(isinstance(n, ast.Return) and n.value is not None and norm(n.value) == "%s.replace_expr(replace_regs[%s])" % (ep[1], ep[2]) for n in walk_body(ef))
    ck.ob("R4", "Lifter_X86_16.expr_fix_regs_for_mode:full-rewrite", ok, xm.where(ef),
          "expr_fix_regs_for_mode is no longer a replace_expr of the whole expression over replace_regs[mode]")
    f = xm.func("Lifter_X86_16.irbloc_fix_regs_for_mode")
    mode = f.args.args[2].arg
    cfg = CFG(f)
    stores = [nd for nd in cfg.nodes if nd.kind == "stmt" and isinstance(nd.ast, ast.Assign) and isinstance(nd.ast.targets[0], ast.Subscript)
              and not isinstance(nd.ast.targets[0].slice, ast.Slice)]
    ck.need(stores, "irbloc_fix_regs_for_mode: store into the new assignment map not found")
    loops = [nd for nd in cfg.nodes if nd.kind == "for" and isinstance(nd.ast.target, ast.Tuple)]
    ck.need(loops, "irbloc_fix_regs_for_mode: loop over the assignments not found")
    for st in stores:
        for role, e in (("destination", st.ast.targets[0].slice), ("source", st.ast.value)):
            if isinstance(e, ast.Call) and dotted(e.func) == "self.expr_fix_regs_for_mode" and norm(e.args[1]) == mode:
                ck.ob("R4", "irbloc_fix_regs_for_mode:%s-rewritten" % role, True, xm.where(st.ast), "")
                continue
            if not isinstance(e, ast.Name):
                ck.ob("R4", "irbloc_fix_regs_for_mode:%s-rewritten" % role, False, xm.where(st.ast),
                      "the %s stored is `%s`, not the result of expr_fix_regs_for_mode" % (role, norm(e)[:50]))
                continue
            v = e.id

            def is_fix(n2, v=v):
                a = n2.ast
                return n2.kind == "stmt" and isinstance(a, ast.Assign) and norm(a.targets[0]) == v and isinstance(a.value, ast.Call) \
                    and dotted(a.value.func) == "self.expr_fix_regs_for_mode" and len(a.value.args) >= 2 and norm(a.value.args[1]) == mode

            def redefines(n2, v=v):
                return n2.kind == "stmt" and isinstance(n2.ast, (ast.Assign, ast.AugAssign)) and any(
                    isinstance(t, ast.Name) and t.id == v for t in assigned_targets(n2.ast)) and not is_fix(n2)
            # (1) every path from the loop head to the store passes the rewrite; (2) no redefinition between the rewrite and the store
            p1 = undischarged(cfg, is_fix, start=loops[-1].id, targets=[st.id])
            fixes = [n2 for n2 in cfg.nodes if is_fix(n2)]
            p2 = None
            for fx in fixes:
                for r2 in [n2 for n2 in cfg.nodes if redefines(n2)]:
                    if cfg.can_reach(fx.id, r2.id, avoid=lambda n3: n3.kind == "for") and cfg.can_reach(r2.id, st.id, avoid=lambda n3: n3.kind == "for" or is_fix(n3)):
                        p2 = r2
            ck.ob("R4", "irbloc_fix_regs_for_mode:%s-rewritten" % role, p1 is None and p2 is None, xm.where(st.ast),
                  "the %s of an assignment can be stored without the full rewrite to the mode's registers: %s - e.g. a 0x67-prefixed store "
                  "keeps EAX / BX inside its pointer in 64 / 32-bit mode" % (role, path_text(p1) if p1 else ("redefined at %s after the rewrite" % xm.where(p2.ast) if p2 else "")))


def _width_rules(ck):
    """R5: "lifting the instruction either reports it as unsupported or produces IR blocks in which both sides of every assignment have
    the same width". AssignBlock._set (R1) makes ill-formed IR impossible by raising; the remaining way to break the clause is a lifter
    function that builds an ExprOp / ExprCond / ExprAssign from two expressions of different widths and therefore raises for the
    instructions that reach it. sa/widths infers widths in every function of every sem.py (register table of the architecture
    evaluated from regs.py, forking abstract interpretation, module helpers entered for their result) and reports a combination only
    when BOTH widths are known constants and differ."""
    from sa.widths import analyse_arch
    ck.rule("R5", "no lifter function combines two expressions of known, different widths", floor=3)
    for arch in ("x86", "arm", "aarch64", "mips32", "ppc", "msp430", "mep"):
        rel = "miasm/arch/%s/sem.py" % arch
        if not ck.repo.exists(rel):
            continue
        reports, n, undecided, mm = analyse_arch(ck.repo, arch)
        ck.ob("R5", "%s:widths" % arch, not reports, rel,
              "%d definite width mismatch(es) in %d functions" % (len(reports), n))
        ck.note("R5 %s: %d functions analysed, %d left undecided (path budget)" % (arch, n, undecided))
        for (q, text, wa, wb, what, node) in reports:
            ck.ob("R5", "%s:%s:%s" % (arch, q, text[:50]), False, mm.mod.where(node),
                  "%s have widths %d and %d in `%s`: the expression constructor raises, so the instructions reaching this path are neither "
                  "lifted nor reported as unsupported" % (what, wa, wb, text))


def _trackback_rules(ck, m, fn):
    """Backward step of the destination tracking: for every assignment block, walked from the last one, the identifiers handed back by
    _extract_dst become the next worklist - an identifier the block assigns is replaced by its source, the others are kept:
           todo' = { blk[d] if d in blk else d  :  d in out }
    Accepted spellings: one set comprehension / set(generator) with that conditional element, or the loop that collects blk[d] for the
    assigned ones and then adds the unassigned rest (out - found / an else arm)."""
    from sa.astutil import Resolver, added_elements
    res = Resolver(fn)
    loops = [n for n in walk_body(fn) if isinstance(n, ast.For) and isinstance(n.iter, ast.Call) and norm(n.iter.func) == "reversed"]
    ck.need(loops, "IRCFG.dst_trackback: loop over the reversed assignment blocks not found")
    lp = loops[0]
    # ... over ALL the assignment blocks of the block: the leaves of IRDst are collected inside this loop, so a slice that can be
    # empty (IRDst set by the first assignment block) loses every edge of the block
    blkp = fn.args.args[1].arg
    whole = len(lp.iter.args) == 1 and norm(res.expand_node(lp.iter.args[0])) in (blkp, "%s.assignblks" % blkp, "list(%s)" % blkp, "list(%s.assignblks)" % blkp)
    ck.ob("R3", "IRCFG.dst_trackback:walks-every-assignblk", whole, m.where(lp),
          "the backward walk iterates over `%s`, not over all the assignment blocks of the block" % norm(lp.iter))
    blk = norm(lp.target)
    calls = [st for st in lp.body if isinstance(st, ast.Assign) and isinstance(st.value, ast.Call) and dotted(st.value.func) == "self._extract_dst"]
    ck.need(calls and isinstance(calls[0].targets[0], ast.Name), "IRCFG.dst_trackback: call of _extract_dst not found")
    out = calls[0].targets[0].id
    wl = norm(calls[0].value.args[0]) if calls[0].value.args else "?"
    # the next worklist as a set of builder pieces (sa/setalg): comprehension, conditional element, accumulation loop, update with a
    # difference of a set built the same way - all the same pieces
    from sa.setalg import pieces_after
    after = lp.body[lp.body.index(calls[0]) + 1:]
    sets_ = pieces_after(after, out)
    W = sets_.get(wl)
    follows = keeps = False
    detail = "the worklist `%s` is not rebuilt from `%s` in a way the rule understands" % (wl, out)
    if W is not None:
        got = set(W)
        follows = ("%s[$d]" % blk, frozenset(["$d in %s" % blk])) in got
        keeps = ("$d", frozenset(["$d not in %s" % blk])) in got
        extra = got - set([("%s[$d]" % blk, frozenset(["$d in %s" % blk])), ("$d", frozenset(["$d not in %s" % blk]))])
        detail = "next worklist = %s" % sorted("{%s : %s}" % (e, " and ".join(sorted(c)) or "all") for e, c in got)
        if extra:
            follows = follows and not any(e == "%s[$d]" % blk for e, _c in extra)
    ck.ob("R3", "IRCFG.dst_trackback:assigned-id-followed", follows, m.where(fn),
          "an identifier the assignment block assigns must be replaced by its source in the next worklist: %s" % detail)
    ck.ob("R3", "IRCFG.dst_trackback:unassigned-id-kept", keeps, m.where(fn),
          "an identifier the assignment block does not assign must stay on the worklist for the earlier blocks: %s" % detail)


def _dst_rewrite_rules(ck):
    """R6: an assignment's destination stays a register or a memory cell.  Lifters post-process what the semantics produced with
    `replace_expr(table)`, the table mapping a register to a constant (PC -> the instruction's address, MIPS $zero -> 0).  Applied to
    a destination, such a table turns the destination `reg` itself into an integer: it may be applied to a destination only where
    the destination is known to differ from every register the table maps to a constant (`if dst != self.pc`, `... if expr !=
    self.pc else expr`, an early return).  Sites: `dst = dst.replace_expr(T)` for a `dst` taken from `.dst`, the destination
    function of `modify_exprs`, the first argument of ExprAssign."""
    from sa.astutil import Resolver
    from sa.cfg import CFG
    from sa.facts import guard_facts
    ck.rule("R6", "a register-to-constant substitution reaches an assignment destination only where the destination is known not to be that register", floor=2)
    n_sites = 0
    for rel in [r for r in ck.repo.pyfiles("miasm/arch") if r.endswith("/sem.py")]:
        m = ck.repo.mod(rel)
        for q, fn in sorted(m.funcs.items()):
            if not any(isinstance(c, ast.Call) and isinstance(c.func, ast.Attribute) and c.func.attr == "replace_expr" for c in ast.walk(fn)):
                continue
            if any(isinstance(x, (ast.FunctionDef,)) and x is not fn and any(y is fn for y in ast.walk(x)) for x in []):
                continue
            res = Resolver(fn)

            def int_keys(tab):
                """keys of the substitution table mapped to a constant; None when the table is not a resolvable dict display"""
                t = tab
                if isinstance(t, ast.Name):
                    t = res.unique_def(t.id)
                if not isinstance(t, ast.Dict):
                    return None
                out = []
                for k, v in zip(t.keys, t.values):
                    vv = res.expand_node(v)
                    if isinstance(vv, ast.Call) and (dotted(vv.func) or "").split(".")[-1] == "ExprInt":
                        out.append(norm(k))
                return out

            def check_function_like(node, params_body, where, label):
                """node: Lambda or FunctionDef used as destination rewriter; every replace_expr(T) applied to its parameter needs param != k"""
                p0 = node.args.args[0].arg if node.args.args else None
                if p0 is None:
                    return
                if isinstance(node, ast.Lambda):
                    # body: E.replace_expr(T) [if test else other]
                    b = node.body
                    guards = []
                    while isinstance(b, ast.IfExp):
                        t = norm(b.test)
                        inner_true = any(isinstance(c, ast.Call) and isinstance(c.func, ast.Attribute) and c.func.attr == "replace_expr" for c in ast.walk(b.body))
                        guards.append((t, inner_true))
                        b = b.body if inner_true else b.orelse
                    calls = [c for c in ast.walk(node.body) if isinstance(c, ast.Call) and isinstance(c.func, ast.Attribute) and c.func.attr == "replace_expr"
                             and norm(c.func.value) == p0 and c.args]
                    for c in calls:
                        ks = int_keys(c.args[0])
                        if not ks:
                            continue
                        missing = []
                        for k in ks:
                            ok = any((t in ("%s != %s" % (p0, k), "%s != %s" % (k, p0)) and side) or (t in ("%s == %s" % (p0, k), "%s == %s" % (k, p0)) and not side)
                                     for t, side in guards)
                            if not ok:
                                missing.append(k)
                        report(where, label, missing, norm(c))
                else:
                    cfg = CFG(node)
                    facts = guard_facts(cfg)
                    for nd in cfg.nodes:
                        if nd.ast is None:
                            continue
                        for c in [x for x in ast.walk(nd.ast) if isinstance(x, ast.Call) and isinstance(x.func, ast.Attribute) and x.func.attr == "replace_expr"
                                  and norm(x.func.value) == p0 and x.args]:
                            ks = int_keys(c.args[0])
                            if not ks:
                                continue
                            f = facts.get(nd.id, frozenset())
                            missing = [k for k in ks if not (("cmp", p0, "!=", k) in f or ("cmp", k, "!=", p0) in f)]
                            report(where, label, missing, norm(c))

            def report(where, label, missing, what):
                nonlocal n_sites
                n_sites += 1
                ck.ob("R6", "%s:%s" % (q, label), not missing, where,
                      "`%s` rewrites an assignment destination with a table that maps %s to a constant, without knowing that the destination is not "
                      "that register: an instruction writing it gets an integer as destination" % (what[:60], missing))
            local_defs = dict((x.name, x) for x in ast.walk(fn) if isinstance(x, ast.FunctionDef) and x is not fn)
            # (a) dst = dst.replace_expr(T) for a dst taken from `.dst`
            cfg0 = CFG(fn)
            facts0 = guard_facts(cfg0)
            for nd in cfg0.nodes:
                a = nd.ast
                if nd.kind == "stmt" and isinstance(a, ast.Assign) and isinstance(a.targets[0], ast.Name) and isinstance(a.value, ast.Call) and \
                        isinstance(a.value.func, ast.Attribute) and a.value.func.attr == "replace_expr" and norm(a.value.func.value) == a.targets[0].id and a.value.args:
                    name = a.targets[0].id
                    from_dst = any(isinstance(d, ast.Attribute) and d.attr == "dst" for d in res.all_defs(name))
                    if not from_dst:
                        continue
                    ks = int_keys(a.value.args[0])
                    if not ks:
                        continue
                    f = facts0.get(nd.id, frozenset())
                    missing = [k for k in ks if not (("cmp", name, "!=", k) in f or ("cmp", k, "!=", name) in f)]
                    report(m.where(a), "dst-rewrite", missing, norm(a))
            # (b) modify_exprs(mod_dst, mod_src) / (mod_dst=...)
            for c in [x for x in ast.walk(fn) if isinstance(x, ast.Call) and isinstance(x.func, ast.Attribute) and x.func.attr == "modify_exprs"]:
                fdst = c.args[0] if c.args else None
                for k in c.keywords:
                    if k.arg == "mod_dst":
                        fdst = k.value
                if fdst is None:
                    continue
                node = fdst if isinstance(fdst, ast.Lambda) else (local_defs.get(fdst.id) if isinstance(fdst, ast.Name) else None)
                if node is not None:
                    check_function_like(node, None, m.where(c), "modify_exprs:mod_dst")
            # (c) ExprAssign(f(x.dst), ...) / ExprAssign(x.dst.replace_expr(T), ...)
            for c in [x for x in ast.walk(fn) if isinstance(x, ast.Call) and (dotted(x.func) or "").split(".")[-1] == "ExprAssign" and x.args]:
                d0 = c.args[0]
                if isinstance(d0, ast.Call) and isinstance(d0.func, ast.Name) and d0.func.id in local_defs:
                    check_function_like(local_defs[d0.func.id], None, m.where(c), "ExprAssign:dst")
                elif isinstance(d0, ast.Call) and isinstance(d0.func, ast.Attribute) and d0.func.attr == "replace_expr" and d0.args:
                    ks = int_keys(d0.args[0])
                    if ks:
                        report(m.where(c), "ExprAssign:dst", ks, norm(d0))
    ck.ob("R6", "destination-rewrites-seen", n_sites >= 2, "miasm/arch", "fewer destination rewrites than on the pinned tree (%d)" % n_sites)
