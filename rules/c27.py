"""C27 - graph algorithms match their mathematical definitions: two structural clauses only.

 R1 adjacency pairing / who-writes: the edge list and the two adjacency maps are written only by
    add_node/add_edge/del_edge/del_node (+ __init__) of DiGraph, and every edge mutation updates all three
    with mirrored arguments (succ[src] <- dst, pred[dst] <- src)
 R2 duality: each backward / post- variant passes exactly the mirrored callbacks of its forward twin, and the
    forward twin has the orientation its generic worker's parameter names demand
 R3 accessors: successors read the successor map, predecessors the predecessor map; heads are nodes without
    predecessors, leaves nodes without successors
The algorithms themselves (fix points, orders, SCC) are not decided.
"""
import ast

from sa.astutil import walk_body, walk_local, dotted, norm, callee_attr, MUTATORS, assigned_targets

REL = "miasm/core/graph.py"
LEVEL_TEXT = ("Who-writes and mirrored-update rules for DiGraph's adjacency state, mirror-image comparison of forward and "
              "backward algorithm wrappers (callbacks swapped successor<->predecessor), accessor orientation. These are "
              "necessary conditions; dominators, loops, SCCs etc. are not evaluated.")
LEVEL_TEXT += ' Also: recursive walks never mutate a collection received as argument.'
ASSUMPTIONS = ["CPython ast"]
STATE = ("_edges", "_nodes_succ", "_nodes_pred", "_nodes")
WRITERS = ("__init__", "add_node", "add_edge", "del_edge", "del_node")
MIRROR = {"successors_iter": "predecessors_iter", "predecessors_iter": "successors_iter", "successors": "predecessors",
          "predecessors": "successors", "reachable_sons": "reachable_parents", "reachable_parents": "reachable_sons",
          "compute_dominators": "compute_postdominators", "compute_postdominators": "compute_dominators",
          "walk_dominators": "walk_postdominators", "walk_postdominators": "walk_dominators"}


def _state_writes(fn, recv="self"):
    out = []
    for n in walk_body(fn):
        if isinstance(n, (ast.Assign, ast.AugAssign, ast.Delete)):
            for t in assigned_targets(n):
                b = t
                while isinstance(b, ast.Subscript):
                    b = b.value
                if isinstance(b, ast.Attribute) and b.attr in STATE:
                    out.append((b.attr, n))
        if isinstance(n, ast.Call) and isinstance(n.func, ast.Attribute) and n.func.attr in MUTATORS:
            b = n.func.value
            while isinstance(b, ast.Subscript):
                b = b.value
            if isinstance(b, ast.Attribute) and b.attr in STATE:
                out.append((b.attr, n))
    return out


def _mirror_text(node):
    import re
    t = norm(node)
    return re.sub(r"\b(%s)\b" % "|".join(sorted(MIRROR, key=len, reverse=True)), lambda mm: MIRROR[mm.group(1)], t)


def run(ck):
    ck.rule("R5", "no loop walks a live view of a container of the graph while removing from that container", floor=9)
    from rules.c30 import live_iteration_rules
    live_iteration_rules(ck, "R5", [("miasm/core/graph.py", "DiGraph")])
    m = ck.repo.mod(REL)
    meths = m.methods("DiGraph")
    ck.rule("R1", "adjacency state is written only by the four mutators, each edge mutation updating all three structures, mirrored", floor=6)
    ck.rule("R2", "backward/post variants are the mirror image of their forward twins; forward twins have the demanded orientation", floor=5)
    ck.rule("R4", "skeleton of cycle detection and of the dominator fix point: on-path set maintained around the back-edge test; head fixed, "
                  "intersection over in-region predecessors plus the node, successors re-queued on change", floor=5)
    ck.rule("R3", "successor/predecessor accessors and heads/leaves read the right map", floor=2)

    # ---------------------------------------------------------------- R6 recursion state
    ck.rule("R6", "a recursive walk never changes in place a collection it received as argument: sibling branches of the recursion see the "
                  "same visit state their parent saw", floor=2)
    from sa.astutil import MUTATORS as _MUT
    for name, fn in sorted(meths.items()):
        rec_calls = [c for c in walk_body(fn) if isinstance(c, ast.Call) and dotted(c.func) == "self.%s" % name]
        if not rec_calls:
            continue
        params = [a.arg for a in fn.args.args[1:]]
        rebound = set(t.id for n in walk_body(fn) if isinstance(n, ast.Assign) for t in n.targets if isinstance(t, ast.Name))
        for p_ in params:
            if p_ in rebound and not any(isinstance(n, ast.If) and "%s is None" % p_ in norm(n.test) for n in walk_body(fn)):
                continue
            muts = []
            for n in walk_body(fn):
                if isinstance(n, (ast.Assign, ast.AugAssign, ast.Delete)):
                    tg = n.targets if isinstance(n, (ast.Assign, ast.Delete)) else [n.target]
                    for t in tg:
                        if isinstance(t, ast.Subscript) and isinstance(t.value, ast.Name) and t.value.id == p_:
                            muts.append(norm(n).split("\n")[0][:50])
                if isinstance(n, ast.Call) and isinstance(n.func, ast.Attribute) and n.func.attr in _MUT and isinstance(n.func.value, ast.Name) and n.func.value.id == p_:
                    muts.append(norm(n)[:50])
            passed = any(isinstance(a, ast.Name) and a.id == p_ for c in rec_calls for a in list(c.args) + [k.value for k in c.keywords])
            used_as_state = passed or bool(muts)
            if not used_as_state:
                continue
            ck.ob("R6", "DiGraph.%s:%s-not-mutated" % (name, p_), not muts, m.where(fn),
                  "%s changes its argument `%s` in place (%s) and the recursion hands the same object on: what one branch records is seen "
                  "by its siblings (and by the caller)" % (name, p_, "; ".join(muts[:2])))

    # ---------------------------------------------------------------- R1
    for name, fn in sorted(meths.items()):
        ws = _state_writes(fn)
        if name in WRITERS:
            continue
        ck.ob("R1", "DiGraph.%s:no-direct-write" % name, not ws, m.where(fn),
              "%s writes the adjacency state directly (%s) instead of going through add_node/add_edge/del_edge/del_node"
              % (name, sorted(set(a for a, _n in ws))))
    files = ck.repo.pyfiles("miasm") if ck.tier == "thorough" else ["miasm/core/asmblock.py", "miasm/ir/ir.py", "miasm/analysis/data_flow.py",
                                                                   "miasm/analysis/depgraph.py", "miasm/analysis/ssa.py", "miasm/core/graph.py"]
    outside = []
    for rel in files:
        mm = ck.repo.mod(rel)
        for q, f in mm.funcs.items():
            if rel == REL and q.startswith("DiGraph."):
                continue
            for (attr, n) in _state_writes(f):
                outside.append("%s:%s writes %s" % (rel, q, attr))
    ck.ob("R1", "adjacency:who-writes", not outside, REL, "adjacency state written outside DiGraph's mutators: %s" % outside[:4])
    def effects(fn):
        """container effects (method, receiver, arguments) of fn with aliases / temporaries expanded"""
        from sa.prenorm import normalise_function
        from sa.astutil import Resolver
        f2 = normalise_function(fn)
        res = Resolver(f2)
        out = set()
        for n in walk_body(f2):
            if isinstance(n, ast.Call) and isinstance(n.func, ast.Attribute) and n.func.attr in ("append", "remove", "add", "discard"):
                out.add((n.func.attr, res.expand(n.func.value), tuple(res.expand(a) for a in n.args)))
        return out
    for mname, eff, verb in (("add_edge", "append", "append"), ("del_edge", "remove", "remove")):
        fn = meths[mname]
        s, d = fn.args.args[1].arg, fn.args.args[2].arg
        got = effects(fn)
        want = set([(eff, "self._edges", ("(%s, %s)" % (s, d),)), (eff, "self._nodes_succ[%s]" % s, (d,)), (eff, "self._nodes_pred[%s]" % d, (s,))])
        ck.ob("R1", "DiGraph.%s:three-structures" % mname, want <= got, m.where(fn),
              "%s must %s (src,dst) in _edges, dst in _nodes_succ[src] and src in _nodes_pred[dst]; missing: %s" % (mname, verb, sorted(want - got)))
    fn = meths["add_node"]
    ok = any(isinstance(n, ast.Assign) and norm(n.targets[0]).startswith("self._nodes_succ[") for n in walk_body(fn)) and \
        any(isinstance(n, ast.Assign) and norm(n.targets[0]).startswith("self._nodes_pred[") for n in walk_body(fn)) and \
        any(isinstance(n, ast.Call) and dotted(n.func) == "self._nodes.add" for n in walk_body(fn))
    ck.ob("R1", "DiGraph.add_node", ok, m.where(fn), "add_node must register the node and create both adjacency lists")
    fn = meths["del_node"]
    loops = [n for n in walk_body(fn) if isinstance(n, ast.For)]
    ok = len(loops) == 2 and any("predecessors" in norm(l.iter) and "self.del_edge(%s, " % norm(l.target) in norm(l) for l in loops) and \
        any("successors" in norm(l.iter) and "self.del_edge(" in norm(l) and ", %s)" % norm(l.target) in norm(l) for l in loops)
    ck.ob("R1", "DiGraph.del_node", ok, m.where(fn), "del_node must delete every incoming (pred -> node) and outgoing (node -> succ) edge")

    # ---------------------------------------------------------------- R2
    pairs = [("compute_dominators", "compute_postdominators"), ("walk_dominators", "walk_postdominators"),
             ("compute_immediate_dominators", "compute_immediate_postdominators"), ("reachable_sons", "reachable_parents"),
             ("walk_breadth_first_forward", "walk_breadth_first_backward"), ("walk_depth_first_forward", "walk_depth_first_backward")]
    import re
    for fw, bw in pairs:
        ck.need(fw in meths and bw in meths, "DiGraph.%s / %s vanished" % (fw, bw))

        def shape(fn, mirror):
            """Sequence of call shapes (callee, args) of the function, with locals renamed positionally."""
            names = {}

            def ren(t):
                def r(mm):
                    w = mm.group(0)
                    if w in ("self",) or w in MIRROR or w.startswith("_") or w in meths:
                        return w
                    if w not in names:
                        names[w] = "v%d" % len(names)
                    return names[w]
                return re.sub(r"\b[A-Za-z_]\w*\b", r, t)
            out = []
            for st in fn.body:
                if isinstance(st, ast.Expr) and isinstance(st.value, ast.Constant):
                    continue
                t = _mirror_text(st) if mirror else norm(st)
                out.append(ren(t))
            return out
        a = shape(meths[fw], False)
        b = shape(meths[bw], True)
        ck.ob("R2", "%s<->%s" % (fw, bw), a == b, m.where(meths[bw]),
              "%s is not the mirror image (successor<->predecessor) of %s:\n    forward : %s\n    mirrored: %s"
              % (bw, fw, " | ".join(a)[:200], " | ".join(b)[:200]))
    # forward orientation from the generic worker's parameter names
    gen = m.func("DiGraph._compute_generic_dominators")
    pn = [a.arg for a in gen.args.args]
    fn = meths["compute_dominators"]
    calls = [c for c in walk_body(fn) if isinstance(c, ast.Call) and dotted(c.func) == "self._compute_generic_dominators"]
    ok = False
    if calls and pn[-3:] == ["reachable_cb", "prev_cb", "next_cb"]:
        a = [norm(x) for x in calls[0].args]
        ok = a[1:] == ["self.reachable_sons", "self.predecessors_iter", "self.successors_iter"]
    ck.ob("R2", "compute_dominators:orientation", ok, m.where(fn), "compute_dominators must pass (reachable_sons, predecessors_iter, successors_iter) as (reachable_cb, prev_cb, next_cb)")
    fn = meths["walk_dominators"]
    ok = any(isinstance(c, ast.Call) and dotted(c.func) == "self._walk_generic_dominator" and norm(c.args[-1]) == "self.predecessors_iter" for c in walk_body(fn))
    ck.ob("R2", "walk_dominators:orientation", ok, m.where(fn), "walking up the dominators follows predecessors")
    for nm, flag in (("walk_breadth_first_forward", "0"), ("walk_depth_first_forward", "-1")):
        fn = meths[nm]
        ok = any(isinstance(c, ast.Call) and dotted(c.func) == "self._walk_generic_first" and norm(c.args[1]) == flag and
                 norm(c.args[2]) == "self.successors_iter" for c in walk_body(fn))
        ck.ob("R2", "%s:orientation" % nm, ok, m.where(fn), "%s must walk successors with pop index %s" % (nm, flag))
    fn = meths["reachable_sons"]
    ok = any(isinstance(c, ast.Call) and dotted(c.func) == "self._reachable_nodes" and norm(c.args[1]) == "self.successors_iter" for c in walk_body(fn))
    ck.ob("R2", "reachable_sons:orientation", ok, m.where(fn), "reachable_sons must follow successors")

    # ---------------------------------------------------------------- R3
    for nm, attr in (("successors_iter", "_nodes_succ"), ("predecessors_iter", "_nodes_pred")):
        fn = meths[nm]
        reads = set(x.attr for x in walk_body(fn) if isinstance(x, ast.Attribute) and x.attr in STATE)
        ck.ob("R3", nm, reads == set([attr]), m.where(fn), "%s reads %s, expected %s" % (nm, sorted(reads), attr))
    for nm, acc, attr in (("heads_iter", "predecessors", "_nodes_pred"), ("leaves_iter", "successors", "_nodes_succ")):
        fn = meths[nm]
        txt = norm(ast.Module(body=fn.body, type_ignores=[]))
        other = "successors" if acc == "predecessors" else "predecessors"
        oattr = "_nodes_succ" if attr == "_nodes_pred" else "_nodes_pred"
        ok = (("self.%s(" % acc) in txt or ("self.%s_iter(" % acc) in txt or ("self.%s[" % attr) in txt) and \
            ("self.%s(" % other) not in txt and ("self.%s[" % oattr) not in txt and "not " in txt
        ck.ob("R3", nm, ok, m.where(fn), "%s must select nodes without %s" % (nm, acc))

    # ---------------------------------------------------------------- R4 algorithm skeletons
    from sa.cfg import CFG, node_calls, node_calls
    fn = meths["has_loop"]
    cfg = CFG(fn)
    # the on-path set: the one tested in `succ in <set>` under a loop over the successors of the current node, returning True
    onpath = None
    back_tests = []
    for nd in cfg.nodes:
        if nd.kind == "test" and isinstance(nd.ast, ast.Compare) and isinstance(nd.ast.ops[0], ast.In) and isinstance(nd.ast.comparators[0], ast.Name):
            lp = getattr(nd.ast, "_parent", None)
            while lp is not None and not isinstance(lp, ast.For):
                lp = getattr(lp, "_parent", None)
            if lp is not None and "successors" in norm(lp.iter) and norm(nd.ast.left) == norm(lp.target):
                onpath = nd.ast.comparators[0].id
                back_tests.append(nd)
    ck.ob("R4", "has_loop:back-edge-test", onpath is not None, m.where(fn), "no test `successor in <on-path set>` found")
    if onpath is not None:
        rm = [nd for nd in cfg.nodes if any(isinstance(c.func, ast.Attribute) and c.func.attr in ("remove", "discard") and dotted(c.func.value) == onpath
                                            for c in node_calls(nd))]
        heads = [nd.id for nd in cfg.nodes if nd.kind in ("loop", "test") and isinstance(nd.ast, ast.While)] or \
            [nd.id for nd in cfg.nodes if nd.kind == "test" and getattr(nd.ast, "_parent", None) is not None and isinstance(getattr(nd.ast, "_parent"), ast.While)
             and getattr(nd.ast, "_parent").test is nd.ast]
        # within one iteration of the work loop, the node leaves the on-path set only after its successors were tested against it
        late = any(cfg.can_reach(r.id, t.id, avoid=lambda x: x.id in heads) for r in rm for t in back_tests)
        ck.ob("R4", "has_loop:scan-before-leaving-path", bool(rm) and bool(heads) and not late, m.where(fn),
              "a node is removed from the on-path set `%s` before its successors are tested against it: an edge from the node to itself "
              "is no longer seen as a cycle" % onpath)
        add = [nd for nd in cfg.nodes if any(isinstance(c.func, ast.Attribute) and c.func.attr == "add" and dotted(c.func.value) == onpath for c in node_calls(nd))]
        push = [nd for nd in cfg.nodes if any(isinstance(c.func, ast.Attribute) and c.func.attr == "append" and dotted(c.func.value) == "todo" for c in node_calls(nd))]
        ck.ob("R4", "has_loop:enter-path", bool(add) and bool(push), m.where(fn),
              "starting the visit of a node must put it on the on-path set and schedule its own end-of-branch visit")
        rets = [norm(n.value) for n in walk_body(fn) if isinstance(n, ast.Return)]
        ck.ob("R4", "has_loop:verdicts", sorted(rets) == ["False", "True"], m.where(fn), "has_loop must answer True at a back edge and False when the walk ends")

    fn = meths["_compute_generic_dominators"]
    hp, pp, np_ = fn.args.args[0].arg, fn.args.args[2].arg, fn.args.args[3].arg
    body = ast.Module(body=fn.body, type_ignores=[])
    wl = [n for n in walk_body(fn) if isinstance(n, ast.While)]
    ck.need(wl, "_compute_generic_dominators: work loop not found")
    wl = wl[0]
    ok = any(isinstance(n, ast.Assign) and norm(n.targets[0]) == "dominators[%s]" % hp and norm(n.value) in ("set([%s])" % hp, "{%s}" % hp) for n in fn.body)
    ck.ob("R4", "dominators:head-init", ok, m.where(fn), "the head must start (and stay) dominated by itself only")
    ok = any(isinstance(n, ast.If) and norm(n.test) in ("node == %s" % hp, "%s == node" % hp, "node is %s" % hp) and any(isinstance(x, ast.Continue) for x in n.body)
             for n in wl.body)
    ck.ob("R4", "dominators:head-fixed", ok, m.where(wl), "the head's dominator set is recomputed in the fix point (a head with predecessors loses itself as only dominator)")
    FULL = ("set(nodes)", "nodes.copy()", "set(nodes.copy())")
    full = any(isinstance(n, ast.For) and any(isinstance(a, ast.Assign) and norm(a.targets[0]).startswith("dominators[") and norm(a.value) in FULL
                                              for a in n.body) for n in fn.body) or \
        any(isinstance(n, ast.Assign) and norm(n.targets[0]) == "dominators" and isinstance(n.value, ast.DictComp) and len(n.value.generators) == 1
            and norm(n.value.generators[0].iter) == "nodes" and not n.value.generators[0].ifs and norm(n.value.key) == norm(n.value.generators[0].target)
            and norm(n.value.value) in FULL for n in fn.body)
    ck.ob("R4", "dominators:top-init", full, m.where(fn), "every node must start with the full node set (greatest fix point)")
    from sa.astutil import Resolver as _Res0
    _r0 = _Res0(fn)
    inner = [n for n in wl.body if isinstance(n, ast.For) and norm(n.iter) == "%s(node)" % pp]
    ok = bool(inner) and any(isinstance(c, ast.Call) and isinstance(c.func, ast.Attribute) and c.func.attr == "intersection_update" for c in walk_local(inner[0])) and \
        any(isinstance(t, ast.If) and "nodes" in norm(t.test) and any(isinstance(x, ast.Continue) for x in t.body) for t in inner[0].body)
    if not ok:
        # the same meet written as one intersection over a filtered comprehension: set.intersection(*[dominators[p] for p in prev(node) if p in nodes])
        for c in walk_local(ast.Module(body=wl.body, type_ignores=[])):
            if isinstance(c, ast.Call) and isinstance(c.func, ast.Attribute) and c.func.attr == "intersection" and c.args and isinstance(c.args[0], ast.Starred):
                seq = c.args[0].value
                if isinstance(seq, ast.Name) and _r0.unique_def(seq.id) is not None:
                    seq = _r0.unique_def(seq.id)
                if isinstance(seq, (ast.ListComp, ast.GeneratorExp)) and len(seq.generators) == 1:
                    g = seq.generators[0]
                    t_ = norm(g.target)
                    if norm(g.iter) == "%s(node)" % pp and norm(seq.elt) == "dominators[%s]" % t_ and \
                            any(norm(f_) == "%s in nodes" % t_ for f_ in g.ifs) and len(g.ifs) == 1:
                        ok = True
    ck.ob("R4", "dominators:meet-over-region-predecessors", ok, m.where(wl),
          "the new set must be the intersection over the predecessors that belong to the reachable region")
    ok = any(isinstance(c, ast.Call) and isinstance(c.func, ast.Attribute) and c.func.attr in ("update", "add") and dotted(c.func.value) == "new_dom" and "node" in norm(c)
             for c in walk_local(wl))
    ck.ob("R4", "dominators:reflexive", ok, m.where(wl), "a node must dominate itself")
    # a changed set is stored and, on every path from the store back to the loop head, every successor is re-queued
    # (a loop adding each one, or todo.update / |= with the successor sequence, possibly through a temporary or list()/set())
    from sa.astutil import Resolver as _Res
    from sa.pathob import undischarged as _und
    _res = _Res(fn)
    dcfg = CFG(fn)
    succ_call = "%s(node)" % np_

    def _is_succs(x):
        x = _res.expand_node(x)
        while isinstance(x, ast.Call) and dotted(x.func) in ("set", "list", "tuple", "iter", "sorted") and len(x.args) == 1:
            x = x.args[0]
        return norm(x) == succ_call

    def _requeues(nd):
        a = nd.ast
        if nd.kind == "for" and _is_succs(a.iter):
            tgt = norm(a.target)
            return any(isinstance(c, ast.Call) and dotted(c.func) in ("todo.add", "todo.append") and c.args and norm(c.args[0]) == tgt for st_ in a.body for c in walk_local(st_))
        if nd.kind == "stmt":
            for c in node_calls(nd):
                if dotted(c.func) in ("todo.update", "todo.extend") and c.args and _is_succs(c.args[0]):
                    return True
            if isinstance(a, ast.AugAssign) and norm(a.target) == "todo" and isinstance(a.op, ast.BitOr) and _is_succs(a.value):
                return True
        return False
    stores = [nd for nd in dcfg.nodes if nd.kind == "stmt" and isinstance(nd.ast, ast.Assign) and norm(nd.ast.targets[0]) == "dominators[node]"
              and isinstance(nd.ast.value, ast.Name)]
    heads = [nd for nd in dcfg.nodes if nd.kind == "loop" and nd.ast is wl]
    ok = bool(stores) and bool(heads)
    for st_ in stores:
        if _und(dcfg, _requeues, start=st_.id, targets=[h.id for h in heads] + [dcfg.exit.id]) is not None:
            ok = False
    ck.ob("R4", "dominators:requeue-on-change", ok, m.where(wl), "a changed set must be stored and the node's successors re-queued")

