"""C26 - integer interval sets have exact set semantics: the canonical-representation clauses only.

`interval.__eq__` compares the lists of bounds, `hull` takes the first and the last bound, `length` sums the extents: all three
are set operations only if the list is ALWAYS the canonical one (sorted, pairwise disjoint and non-adjacent, no empty member).
Decided:
 R1 who-writes: the list is (re)bound only in __init__ and cannon, never mutated in place (interval.py and every other module
    of miasm/ that touches `<x>.intervals` of an interval)
 R2 every operation that returns a set result builds it with the constructor (which canonicalises) or delegates to one that does
 R3 the constructor canonicalises unconditionally: flag cleared, list stored, cannon() called; cannon() rebuilds the list with
    cannon_list and only then sets the flag; cannon_list drops empty members and works on a sorted copy
 R4 exhaustive case analysis: every consumer of cmp_interval's verdict handles each class cmp_interval can return
 R5 readers: __eq__ compares both lists, hull reads first-low/last-high, length sums (stop - start + 1), membership of an integer
    is low <= x <= high
The case arithmetic itself (what each class computes in difference/intersection) is not decided.
"""
import ast

from sa.astutil import walk_body, walk_local, dotted, norm, callee_attr, MUTATORS, assigned_targets, Resolver

REL = "miasm/core/interval.py"
LEVEL_TEXT = ("Representation-invariant rules for miasm.core.interval: single writer of the bound list, results built through the "
              "canonicalising constructor, unconditional canonicalisation, exhaustive handling of the comparison classes, readers "
              "that rely on the canonical form. Necessary for equality/hull/length to be set operations; the per-class arithmetic of "
              "difference/intersection is not decided.")
LEVEL_TEXT += ' Also: closed bounds - a pairing of two members is abandoned only on a strict hi < lo.'
ASSUMPTIONS = ["CPython ast", "bounds are Python integers"]


def run(ck):
    m = ck.repo.mod(REL)
    meths = m.methods("interval")
    ck.rule("R1", "the bound list is bound only by __init__/cannon and never mutated in place", floor=3)
    ck.rule("R2", "set-valued operations return a canonicalised object", floor=3)
    ck.rule("R3", "construction canonicalises unconditionally", floor=2)
    ck.rule("R4", "every consumer of cmp_interval handles every class it can return", floor=1)
    ck.rule("R5", "equality, hull, length and integer membership read the canonical list as such", floor=2)
    _adjacency_rules(ck, m, meths)
    ck.rule("R7", "closed bounds: a pairing of two members is abandoned only on a strict `hi < lo`", floor=1)
    closed_bound_rules(ck, "R7")

    # ---------------------------------------------------------------- R1
    for name, fn in sorted(meths.items()):
        sp = fn.args.args[0].arg if fn.args.args else "self"
        writes = []
        for n in walk_body(fn):
            if isinstance(n, (ast.Assign, ast.AugAssign, ast.Delete, ast.AnnAssign)):
                for t in assigned_targets(n):
                    base = t
                    while isinstance(base, ast.Subscript):
                        base = base.value
                    if isinstance(base, ast.Attribute) and base.attr == "intervals":
                        writes.append((n, "store"))
            if isinstance(n, ast.Call) and isinstance(n.func, ast.Attribute) and n.func.attr in MUTATORS and \
                    isinstance(n.func.value, ast.Attribute) and n.func.value.attr == "intervals":
                writes.append((n, n.func.attr))
        if name in ("__init__", "cannon"):
            ok = all(how == "store" and isinstance(n, ast.Assign) and all(dotted(t) == "%s.intervals" % sp for t in n.targets) for n, how in writes) and bool(writes)
            ck.ob("R1", "interval.%s:binds-list" % name, ok, m.where(fn), "%s must (only) rebind %s.intervals" % (name, sp))
        else:
            ck.ob("R1", "interval.%s:no-write" % name, not writes, m.where(writes[0][0]) if writes else m.where(fn),
                  "interval.%s changes the bound list behind the constructor's back (%s): the list is no longer guaranteed canonical, and "
                  "==, hull() and length stop being set operations" % (name, ", ".join(sorted(set(h for _n, h in writes)))))
    # other modules: an in-place change of the list of an interval object
    n_ext = 0
    for rel in ck.repo.pyfiles("miasm"):
        if rel == REL:
            continue
        txt = ck.repo.text(rel)
        if ".intervals" not in txt:
            continue
        mod = ck.repo.mod(rel)
        for n in ast.walk(mod.tree):
            bad = None
            if isinstance(n, ast.Call) and isinstance(n.func, ast.Attribute) and n.func.attr in MUTATORS and isinstance(n.func.value, ast.Attribute) \
                    and n.func.value.attr == "intervals" and n.func.attr not in ("add", "update"):
                bad = n
            if isinstance(n, (ast.Assign, ast.AugAssign, ast.Delete)):
                for t in assigned_targets(n):
                    if isinstance(t, ast.Subscript) and isinstance(t.value, ast.Attribute) and t.value.attr == "intervals":
                        bad = n
            if bad is not None:
                n_ext += 1
                ck.ob("R1", "%s:%s" % (rel, norm(bad)[:50]), False, mod.where(bad), "the bound list of an interval is changed in place outside the class")
    ck.note("R1: %d in-place change(s) of a `.intervals` list outside interval.py" % n_ext)

    # ---------------------------------------------------------------- R2
    SETOPS = {"union": None, "difference": None, "intersection": None, "__add__": "union", "__and__": "intersection", "__sub__": "difference"}
    for name, deleg in sorted(SETOPS.items()):
        fn = meths.get(name)
        if fn is None:
            ck.ob("R2", "interval.%s" % name, False, m.where(m.cls("interval")), "operation %s vanished" % name)
            continue
        res = Resolver(fn)
        rets = [n for n in walk_body(fn) if isinstance(n, ast.Return)]
        ok = bool(rets)
        for r_ in rets:
            v = r_.value
            if isinstance(v, ast.Name):
                defs = res.all_defs(v.id)
                v_ok = bool(defs) and isinstance(defs[-1], ast.Call) and callee_attr(defs[-1]) == "interval"
            else:
                v_ok = isinstance(v, ast.Call) and (callee_attr(v) == "interval" or
                                                    (deleg is not None and dotted(v.func) == "self.%s" % deleg) or
                                                    (isinstance(v.func, ast.Attribute) and v.func.attr in SETOPS and dotted(v.func.value) == "self"))
            ok = ok and v_ok
        ck.ob("R2", "interval.%s" % name, ok, m.where(fn),
              "%s returns something that did not go through interval(...): a non-canonical list escapes" % name)

    # ---------------------------------------------------------------- R3
    fn = meths["__init__"]
    sp = fn.args.args[0].arg
    last = fn.body[-1]
    ok = isinstance(last, ast.Expr) and isinstance(last.value, ast.Call) and dotted(last.value.func) == "%s.cannon" % sp
    ck.ob("R3", "interval.__init__:canonicalises", ok, m.where(fn), "the constructor does not end with cannon()")
    flag_clear = [i for i, st in enumerate(fn.body) if isinstance(st, ast.Assign) and dotted(st.targets[0]) == "%s.is_cannon" % sp and norm(st.value) == "False"]
    ck.ob("R3", "interval.__init__:flag-cleared", bool(flag_clear) and not any(
        isinstance(st, ast.Assign) and dotted(st.targets[0]) == "%s.is_cannon" % sp and norm(st.value) == "True" for st in fn.body), m.where(fn),
        "the constructor must clear is_cannon (cannon() returns at once when it is set)")
    fn = meths["cannon"]
    sp = fn.args.args[0].arg
    idx_store = [i for i, st in enumerate(fn.body) if isinstance(st, ast.Assign) and dotted(st.targets[0]) == "%s.intervals" % sp and
                 isinstance(st.value, ast.Call) and callee_attr(st.value) == "cannon_list" and st.value.args and norm(st.value.args[0]) == "%s.intervals" % sp]
    idx_flag = [i for i, st in enumerate(fn.body) if isinstance(st, ast.Assign) and dotted(st.targets[0]) == "%s.is_cannon" % sp and norm(st.value) == "True"]
    ck.ob("R3", "interval.cannon:rebuild-then-flag", bool(idx_store) and bool(idx_flag) and idx_store[0] < idx_flag[0], m.where(fn),
          "cannon() must replace the list by cannon_list(list) before declaring it canonical")
    fn = meths["cannon_list"]
    p0 = fn.args.args[0].arg
    first = [st for st in fn.body if not (isinstance(st, ast.Expr) and isinstance(st.value, ast.Constant))][0]
    t = norm(first).replace(" ", "")
    ok = isinstance(first, ast.Assign) and t.startswith("%s=sorted(" % p0) and ("x[0]<=x[1]" in t or "x[1]>=x[0]" in t)
    ck.ob("R3", "interval.cannon_list:sorted-non-empty", ok, m.where(first), "cannon_list must start from the sorted non-empty members (`%s`)" % norm(first)[:70])

    # ---------------------------------------------------------------- R4
    cmpf = m.func("cmp_interval")
    classes = set()
    for n in walk_body(cmpf):
        if isinstance(n, (ast.Return, ast.Assign)) and n.value is not None:
            for x in ast.walk(n.value):
                if isinstance(x, ast.Name) and x.id.startswith("INT_"):
                    classes.add(x.id)
    ck.rule("R8", "cmp_interval classifies every relative position of two closed members as the set relation it names (finite case analysis over order types)", floor=1)
    _cmp_interval_rule(ck, m, cmpf)
    ck.need(len(classes) >= 5, "cmp_interval: verdict classes not found (%s)" % sorted(classes))
    for name in ("cannon_list", "difference", "intersection"):
        fn = meths[name]
        var = None
        for n in walk_body(fn):
            if isinstance(n, ast.Assign) and isinstance(n.value, ast.Call) and callee_attr(n.value) == "cmp_interval" and isinstance(n.targets[0], ast.Name):
                var = n.targets[0].id
        handled = set()
        for n in walk_body(fn):
            if isinstance(n, ast.Compare) and isinstance(n.left, ast.Name) and n.left.id == var:
                for c in n.comparators:
                    for x in ast.walk(c):
                        if isinstance(x, ast.Name) and x.id.startswith("INT_"):
                            handled.add(x.id)
        missing = sorted(classes - handled)
        ck.ob("R4", "interval.%s:classes" % name, var is not None and not missing, m.where(fn),
              "%s does not handle the comparison class(es) %s that cmp_interval can return (ValueError, or a silently skipped pair)" % (name, missing))

    # ---------------------------------------------------------------- R5
    fn = meths["__eq__"]
    o = fn.args.args[1].arg
    ok = any(isinstance(n, ast.Return) and norm(n.value).replace(" ", "") in ("self.intervals==%s.intervals" % o, "%s.intervals==self.intervals" % o) for n in walk_body(fn))
    ck.ob("R5", "interval.__eq__", ok, m.where(fn), "equality must compare the two canonical lists")
    fn = meths["hull"]
    ok = any(isinstance(n, ast.Return) and norm(n.value).replace(" ", "") == "(self.intervals[0][0],self.intervals[-1][1])" for n in walk_body(fn))
    ck.ob("R5", "interval.hull", ok, m.where(fn), "hull must be (first low bound, last high bound)")
    fn = meths["length"]
    from sa.astutil import linear
    ok = False
    for n in walk_body(fn):
        if isinstance(n, ast.Return) and isinstance(n.value, ast.Call) and callee_attr(n.value) == "sum" and n.value.args and \
                isinstance(n.value.args[0], (ast.GeneratorExp, ast.ListComp)):
            g = n.value.args[0]
            gen = g.generators[0]
            if norm(gen.iter) == "self.intervals" and isinstance(gen.target, ast.Tuple) and len(gen.target.elts) == 2 and not gen.ifs:
                lo, hi = norm(gen.target.elts[0]), norm(gen.target.elts[1])
                terms, c = linear(g.elt)
                ok = dict(terms) == {hi: 1, lo: -1} and c == 1
    ck.ob("R5", "interval.length", ok, m.where(fn), "length must sum (stop - start + 1) over the members")
    fn = meths["__contains__"]
    ok = any(isinstance(n, ast.Compare) and len(n.ops) == 2 and all(isinstance(x, ast.LtE) for x in n.ops) and norm(n.comparators[0]) == fn.args.args[1].arg
             for n in walk_body(fn))
    ck.ob("R5", "interval.__contains__:integer", ok, m.where(fn), "an integer belongs to the set iff low <= x <= high for some member")


def _adjacency_rules(ck, m, meths):
    """R6: adjacent intervals ([a, b] and [b+1, c]) are one set of integers and must fuse. cmp_interval encodes adjacency with
    `stop + 1 == start` and disjointness with `start > stop + 1`; cannon_list may decide a fusion (a loop / branch that pops or
    rewrites the last output interval) only on cmp_interval's verdict with both adjacency classes among the accepted ones, or on a
    direct bound comparison that is at least as permissive as start <= stop + 1."""
    from sa.astutil import linear, less_than
    ck.rule("R6", "adjacent intervals fuse: the classifier's +1 tests and every fusion decision of cannon_list allow distance one", floor=2)
    ci = m.func("cmp_interval")
    tests = [n.test for n in walk_body(ci) if isinstance(n, ast.If)]
    # name roles from the unpacking  a_start, a_stop = inter1
    roles = {}
    for n in walk_body(ci):
        if isinstance(n, ast.Assign) and isinstance(n.targets[0], ast.Tuple) and len(n.targets[0].elts) == 2 and isinstance(n.value, ast.Name):
            roles[norm(n.targets[0].elts[0])] = (n.value.id, "start")
            roles[norm(n.targets[0].elts[1])] = (n.value.id, "stop")
    ck.need(len(roles) == 4, "cmp_interval: unpacking of the two intervals not found")

    def gap(cmp_):
        """For a comparison between a start of one interval and a stop of the other: returns ('gt'|'eq', c) meaning
        start - stop > c  /  start - stop == c ; None otherwise."""
        if not (isinstance(cmp_, ast.Compare) and len(cmp_.ops) == 1):
            return None
        l, r = linear(cmp_.left), linear(cmp_.comparators[0])
        terms = {}
        for (t, c) in l[0]:
            terms[t] = terms.get(t, 0) + c
        for (t, c) in r[0]:
            terms[t] = terms.get(t, 0) - c
        terms = dict((t, c) for t, c in terms.items() if c)
        const = l[1] - r[1]
        if len(terms) != 2 or not all(t in roles for t in terms):
            return None
        (t1, c1), (t2, c2) = sorted(terms.items(), key=lambda kv: roles[kv[0]][1])      # start first
        if roles[t1][1] != "start" or roles[t2][1] != "stop" or roles[t1][0] == roles[t2][0] or c1 != -c2:
            return None
        # c1*start + c2*stop + const  OP 0
        op = type(cmp_.ops[0])
        sign = c1
        if op is ast.Eq:
            return ("eq", -const * sign)
        table = {ast.Gt: ("gt", 0), ast.GtE: ("gt", -1), ast.Lt: ("lt", 0), ast.LtE: ("lt", 1)}
        if op not in table:
            return None
        kind, adj = table[op]
        if sign < 0:
            kind = "lt" if kind == "gt" else "gt"
            adj = -adj
        # sign*(start - stop) + const OP 0  ->  start - stop OP' -const*sign (integers: >= k is > k-1)
        return (kind, -const * sign + (adj if kind == "gt" else adj))
    eqs, gts = [], []
    for t in tests:
        for c in [x for x in walk_local(t) if isinstance(x, ast.Compare)]:
            g = gap(c)
            if g is None:
                continue
            (eqs if g[0] == "eq" else gts).append((g, c))
    ck.ob("R6", "cmp_interval:adjacent-classes", len([1 for (g, _c) in eqs if g == ("eq", 1)]) >= 2, m.where(ci),
          "the two adjacency classes must be decided by stop + 1 == start (found %s)" % [norm(c) for (_g, c) in eqs])
    ck.ob("R6", "cmp_interval:disjoint-leaves-a-gap", len([1 for (g, _c) in gts if g == ("gt", 1)]) >= 2 and all(g == ("gt", 1) for (g, _c) in gts if g[0] == "gt"),
          m.where(ci), "disjointness must be start > stop + 1 in both orders (found %s)" % [norm(c) for (_g, c) in gts])
    # cannon_list
    cl = meths["cannon_list"]
    fus = []
    for n in walk_body(cl):
        if isinstance(n, (ast.While, ast.If)):
            body_txt = [norm(x) for st in n.body for x in walk_local(st)]
            merges = any(isinstance(x, ast.Call) and callee_attr(x) == "pop" and norm(x.func.value) == "out" for st in n.body for x in walk_local(st)) or \
                any(isinstance(x, ast.Call) and dotted(x.func) in ("min", "max") for st in n.body for x in walk_local(st))
            if merges:
                fus.append(n)
    ck.need(fus, "cannon_list: no fusion step found")
    # only the innermost deciding tests (a branch whose body contains another fusion construct delegates the decision)
    for n in fus:
        t = n.test
        calls = [x for x in walk_local(t) if isinstance(x, ast.Call) and callee_attr(x) == "cmp_interval"]
        cmps = [x for x in walk_local(t) if isinstance(x, ast.Compare)]
        ok, why = True, ""
        direct = []
        for c in cmps:
            if any(isinstance(x, ast.Call) and callee_attr(x) == "cmp_interval" for x in walk_local(c)) or (isinstance(c.left, ast.Name) and c.left.id == "rez"):
                # verdict test: the accepted classes must include both adjacency classes when JOIN is accepted
                names = set(norm(e) for comp in c.comparators for e in (comp.elts if isinstance(comp, (ast.List, ast.Tuple, ast.Set)) else [comp]))
                if "INT_JOIN" in names and not ("INT_JOIN_AB" in names and "INT_JOIN_BA" in names):
                    ok, why = False, "overlap is accepted for fusion but the adjacency classes are not (%s)" % sorted(names)
            elif isinstance(c.ops[0], (ast.Lt, ast.LtE, ast.Gt, ast.GtE)):
                direct.append(c)
        for c in direct:
            lt = less_than(c, True)
            if lt is None:
                continue
            a, b, strict = lt          # a < b  or a <= b
            la, lb = linear(a), linear(b)
            # a fusion guard `start (<|<=) stop + k`: must hold when start == stop + 1
            k = lb[1] - la[1]
            if len(la[0]) == 1 and len(lb[0]) == 1:
                holds_at_adjacent = (1 < k) if strict else (1 <= k)
                if not holds_at_adjacent:
                    ok, why = False, "`%s` is false for an interval starting right after the other one ends (start == stop + 1): adjacent " \
                                     "intervals stay split and two lists denote the same integers" % norm(c)
        ck.ob("R6", "cannon_list:fusion-guard:%s" % norm(t)[:40], ok, m.where(n), why)


def closed_bound_rules(ck, rid):
    """Bounds are CLOSED on both sides: two members are disjoint only when `hi < lo'` strictly.  In every method of `interval`, a point of
    the CFG that leaves the current pairing (continue / break / a deletion) without having consulted cmp_interval, and where the only
    thing known between the two members is `A[1] <= B[0]` (not the strict `<`), drops the case of one shared end point.  (C26; also a
    necessary clause of C10, whose shift handlers clamp the shift amount with `&= [0, size]` on a set that may start exactly at `size`.)"""
    from sa.cfg import CFG
    from sa.facts import guard_facts
    import re
    m = ck.repo.mod(REL)
    n_tests = 0
    bound = re.compile(r"^([A-Za-z_][\w\.]*(?:\[[^\]]*\])*)\[([01])\]$")
    for name, fn in sorted(m.methods("interval").items()):
        cfg = CFG(fn)
        facts = guard_facts(cfg)
        for nd in cfg.nodes:
            if nd.kind == "test" and isinstance(nd.ast, ast.Compare) and len(nd.ast.ops) == 1:
                l_, r_ = bound.match(norm(nd.ast.left)), bound.match(norm(nd.ast.comparators[0]))
                if l_ and r_ and l_.group(1) != r_.group(1):
                    n_tests += 1
            if not (nd.kind == "stmt" and isinstance(nd.ast, (ast.Continue, ast.Break, ast.Delete))):
                continue
            for ft in facts.get(nd.id, frozenset()):
                if ft[0] != "cmp":
                    continue
                a, op, b = ft[1], ft[2], ft[3]
                if op == ">=":
                    a, op, b = b, "<=", a
                if op != "<=":
                    continue
                ma, mb = bound.match(a), bound.match(b)
                if not (ma and mb) or ma.group(1) == mb.group(1) or (ma.group(2), mb.group(2)) != ("1", "0"):
                    continue
                strict = ("cmp", a, "<", b) in facts.get(nd.id, frozenset()) or ("cmp", b, ">", a) in facts.get(nd.id, frozenset())
                ck.ob(rid, "interval.%s:closed-bounds:%s<=%s" % (name, a, b), strict, m.where(nd.ast),
                      "the pairing is left (`%s`) knowing only `%s <= %s`: with closed bounds the two members still share the point %s == %s"
                      % (norm(nd.ast).split("\n")[0], a, b, a, b))
    ck.ob(rid, "interval:bound-comparisons-seen", n_tests >= 2, REL, "no comparison between bounds of two members found in interval.py (extractor blind)")


def _cmp_interval_rule(ck, m, fn):
    """cmp_interval(A, B) only COMPARES the four bounds (possibly shifted by a constant): its verdict depends on nothing but the order
    type of (a1, b1, a2, b2) and on which differences equal 1.  That is a finite set; one representative per class (all bounds in 0..7)
    is pushed through the function's own text by the checker's evaluator (sa/peval) and the verdict compared with the set relation:
        equal -> INT_EQ; b1 + 1 < a2 or b2 + 1 < a1 -> INT_DISJOIN; b1 + 1 == a2 -> INT_JOIN_AB; b2 + 1 == a1 -> INT_JOIN_BA;
        B inside A -> INT_B_IN_A; A inside B -> INT_A_IN_B; otherwise INT_JOIN.
    Precondition checked first (otherwise: formulation not understood): the bounds reach only comparisons, +/- constants, tuple
    (un)packing and swaps."""
    from sa.peval import Interp, Undetermined, UnboundLocal
    from sa.repo import AnalysisError
    consts = {}
    for k, v in m.assigns.items():
        if k.startswith("INT_"):
            try:
                consts[k] = ast.literal_eval(v)
            except Exception:
                pass
    if len(consts) < 7:
        raise AnalysisError("cmp_interval: INT_* constants not found")
    # precondition: only comparisons / +- constants / (un)packing on the operands
    for n in ast.walk(fn):
        if isinstance(n, ast.BinOp) and not (isinstance(n.op, (ast.Add, ast.Sub)) and (isinstance(n.right, ast.Constant) or isinstance(n.left, ast.Constant))):
            raise AnalysisError("cmp_interval: arithmetic other than +/- constant on the bounds (`%s`): order-type case analysis does not apply" % norm(n))
        if isinstance(n, ast.Call) and not (isinstance(n.func, ast.Name) and n.func.id in ("min", "max")):
            raise AnalysisError("cmp_interval: call `%s`: order-type case analysis does not apply" % norm(n)[:40])
    it = Interp(functions={}, methods={}, consts=consts, max_steps=5000000)
    names = dict((v, k) for k, v in consts.items())
    bad = []
    n_cases = 0
    R = range(0, 8)
    for a1 in R:
        for b1 in R:
            if b1 < a1:
                continue
            for a2 in R:
                for b2 in R:
                    if b2 < a2:
                        continue
                    n_cases += 1
                    if (a1, b1) == (a2, b2):
                        want = "INT_EQ"
                    elif b1 + 1 < a2 or b2 + 1 < a1:
                        want = "INT_DISJOIN"
                    elif b1 + 1 == a2:
                        want = "INT_JOIN_AB"
                    elif b2 + 1 == a1:
                        want = "INT_JOIN_BA"
                    elif a1 <= a2 and b2 <= b1:
                        want = "INT_B_IN_A"
                    elif a2 <= a1 and b1 <= b2:
                        want = "INT_A_IN_B"
                    else:
                        want = "INT_JOIN"
                    try:
                        got = it.call_function(fn, [(a1, b1), (a2, b2)])
                    except UnboundLocal as e:
                        got = "raises (%s)" % e
                    except Undetermined as e:
                        raise AnalysisError("cmp_interval: construct not understood by the evaluator (%s)" % e)
                    g = names.get(got, got)
                    if g != want and len(bad) < 4:
                        bad.append("A = [%d, %d], B = [%d, %d]: %s, the set relation is %s" % (a1, b1, a2, b2, g, want))
    ck.ob("R8", "cmp_interval:classification", not bad, m.where(fn),
          "cmp_interval misclassifies relative positions (one representative per order type, %d cases): %s" % (n_cases, "; ".join(bad)))
