"""C22 - modified code is re-translated before it runs again: a must-call chain.

 R1 every host write entry of vm_mngr_py.c (a function calling vm_write_mem) records the written
    range (add_mem_write, same address and size) and calls check_invalid_code_blocs on every path to a
    successful return
 R2 every emulated write primitive vm_MEM_WRITE_N records exactly N/8 bytes at the written address;
    check_invalid_code_blocs raises EXCEPT_CODE_AUTOMOD for a write range overlapping a code range
 R3 every back end checks for invalidated code after an instruction that accesses memory and leaves
    the block when a VM flag is set (C template, LLVM builder calls, Python myfunc)
 R4 every successfully translated block is registered: label->block, add_block, code ranges pushed to
    the VM for every interval
 R5 the jitter installs an EXCEPT_CODE_AUTOMOD handler that drops modified translations and clears
    the flag
 R6 del_block_in_range removes both the translated function and the block entry of every
    overlapping block and rebuilds the interval; updt_automod_code walks every recorded write
"""
import ast
import re

from sa import cast
from sa.astutil import linear, less_than, walk_body, walk_local, dotted, norm, callee_attr, Resolver, cmp_parts, const_value
from sa.cfg import CFG, node_calls, node_exprs
from sa.repo import AnalysisError

LEVEL_TEXT = ("Must-call / pairing rules along the whole invalidation chain: clang-AST CFG rules over vm_mngr_py.c "
              "and vm_mngr.c (record + check on every success path, byte counts), template/emission rules over the "
              "three back ends, registration and removal rules over jitcore.py and jitload.py. Breaking any link "
              "breaks the property; the chain being complete is necessary, not sufficient.")
LEVEL_TEXT += ' The C overlap test is decided on linear forms of the clang AST (single-assignment locals expanded).'
ASSUMPTIONS = ["clang 14 AST (macros expanded)", "CPython ast", "the LLVM back end is read, never run (no llvmlite here)"]

VMPY = "miasm/jitter/vm_mngr_py.c"
VMC = "miasm/jitter/vm_mngr.c"
JC = "miasm/jitter/jitcore.py"
JL = "miasm/jitter/jitload.py"
CG = "miasm/jitter/codegen.py"
LL = "miasm/jitter/llvmconvert.py"
JP = "miasm/jitter/jitcore_python.py"
CSTS = "miasm/jitter/csts.py"


def _is_null_return(n):
    if n.get("kind") != "ReturnStmt":
        return False
    inner = n.get("inner", [])
    if not inner:
        return False
    e = cast.strip(inner[0])
    while e and e.get("kind") in ("ParenExpr", "CStyleCastExpr", "ImplicitCastExpr"):
        e = cast.strip(e["inner"][0])
    if e and e.get("kind") == "IntegerLiteral" and e.get("value") == "0":
        return True
    if e and e.get("kind") == "UnaryOperator" and e.get("opcode") == "-":
        return True
    return False


PRELOAD_C = ['miasm/jitter/vm_mngr_py.c', 'miasm/jitter/vm_mngr.c']


def _range_convention(jc):
    """'exclusive' when ad_max = last offset + last length (one past the end), 'inclusive' when it is that minus one; both
    branches of set_block_min_max (lines present / one-byte unknown block) must follow the same convention."""
    fn = jc.func("JitCore.set_block_min_max")
    res = Resolver(fn)
    got = []
    for n in walk_body(fn):
        if isinstance(n, ast.Assign) and norm(n.targets[0]).endswith(".ad_max"):
            terms, c = linear(res.expand_node(n.value))
            names = sorted(t for t, k in terms if k == 1)
            if len(names) == 2 and any(t.endswith("lines[-1].offset") for t in names) and any(t.endswith("lines[-1].l") for t in names) and len(terms) == 2:
                got.append("exclusive" if c == 0 else "inclusive" if c == -1 else "?")
            elif len(terms) == 1 and names:
                got.append("exclusive" if c == 1 else "inclusive" if c == 0 else "?")
            else:
                got.append("?")
    mins = [n for n in walk_body(fn) if isinstance(n, ast.Assign) and norm(n.targets[0]).endswith(".ad_min")]
    first = any(norm(res.expand_node(n.value)).endswith("lines[0].offset") for n in mins)
    if len(got) == 2 and got[0] == got[1] and got[0] != "?" and first:
        return got[0], "ok"
    return None, "ad_max assignments follow %s, ad_min from first line: %s" % (got, first)


def run(ck):
    ck.rule("R1", "host write entry: add_mem_write (same addr/size) and check_invalid_code_blocs on every success path", floor=5)
    ck.rule("R2", "emulated write primitives record width/8 bytes; overlap of a write with a code range sets EXCEPT_CODE_AUTOMOD", floor=3)
    ck.rule("R3", "each back end re-checks code ranges after a memory-accessing instruction and leaves the block on a VM flag", floor=3)
    ck.rule("R4", "a translated block is registered and its address range pushed to the VM", floor=4)
    ck.rule("R5", "an EXCEPT_CODE_AUTOMOD handler drops the modified translations and clears the flag", floor=1)
    ck.rule("R7", "the recorded write list is cleared only by code that has consumed it (get_memory_write) on every path to the reset", floor=1)
    ck.rule("R6", "del_block_in_range removes translation and block entry of every overlapping block; ranges rebuilt", floor=3)
    # the re-check of R3 is emitted only for instructions whose attributes say they access memory: those attributes must
    # cover every block of the instruction (rules shared with C49-R4)
    from rules.c49 import _attr_rules
    _attr_rules(ck, ck.repo.mod("miasm/jitter/codegen.py"), RID="R8", floor=7)

    # ------------------------------------------------------------------ R1
    tu = cast.load(ck.repo, VMPY)
    n_entries = 0
    for name, f in sorted(tu.funcs.items()):
        wcalls = [c for (cn, c) in f.calls() if cn == "vm_write_mem"]
        if not wcalls:
            continue
        n_entries += 1
        cfg = f.cfg()
        w = wcalls[0]
        wargs = cast.call_args(w)
        w_addr, w_size = cast.ctext(cast.strip(wargs[1])), cast.ctext(cast.strip(wargs[3]))
        wnodes = cfg.node_containing(w)
        fails = cast.failure_returns(f)
        succ_rets = [nd for nd in cfg.nodes if nd.kind == "stmt" and nd.ast.get("kind") == "ReturnStmt"
                     and not any(nd.ast is x for x in fails)]
        ck.need(wnodes and succ_rets, "%s: write or success return not located" % name)

        def is_rec(nd):
            for c in cast.node_calls_c(nd):
                if cast.callee(c) == "add_mem_write":
                    a = cast.call_args(c)
                    sz = cast.ctext(cast.strip(a[2]))
                    if cast.ctext(cast.strip(a[1])) == w_addr and (sz == w_size or re.sub(r"^\(size_t\)", "", sz) == w_size):
                        return True
            return False

        def is_chk(nd):
            return any(cast.callee(c) == "check_invalid_code_blocs" for c in cast.node_calls_c(nd))
        for label, pred in (("record", is_rec), ("check", is_chk)):
            ok = True
            for wn in wnodes:
                res = cfg.must_pass(pred, targets=[r.id for r in succ_rets], from_node=wn.id)
                # only returns reachable from the write matter
                for r in succ_rets:
                    if cfg.can_reach(wn.id, r.id) and not res[r.id]:
                        ok = False
            ck.ob("R1", "%s:%s" % (name, label), ok, VMPY,
                  "%s writes guest memory (vm_write_mem(%s, %s)) and can return successfully without %s"
                  % (name, w_addr, w_size, "add_mem_write of the same range" if label == "record" else "check_invalid_code_blocs"))
        # record must precede the check
        recs = [nd.id for nd in cfg.nodes if is_rec(nd)]
        chks = [nd.id for nd in cfg.nodes if is_chk(nd)]
        ok = all(not cfg.can_reach(c, r) for c in chks for r in recs)
        ck.ob("R1", "%s:order" % name, ok and bool(recs) and bool(chks), VMPY,
              "check_invalid_code_blocs runs before the write is recorded: the check cannot see it")
    ck.need(n_entries >= 5, "fewer than 5 host write entries found in vm_mngr_py.c (%d)" % n_entries)

    # ------------------------------------------------------------------ R2
    tv = cast.load(ck.repo, VMC)
    prims = sorted(n for n in tv.funcs if re.match(r"vm_MEM_WRITE_\d+$", n))
    ck.need(len(prims) >= 4, "vm_MEM_WRITE_N primitives not found")
    for name in prims:
        width = int(name.rsplit("_", 1)[1])
        f = tv.funcs[name]
        addr_param = f.params[1]["name"]
        rec = [c for (cn, c) in f.calls() if cn == "add_mem_write"]
        ok = False
        if rec:
            a = cast.call_args(rec[0])
            ok = cast.ctext(cast.strip(a[1])) == addr_param and cast.ctext(cast.strip(a[2])) == str(width // 8)
        ck.ob("R2", "%s:record" % name, ok, VMC,
              "%s must record add_mem_write(vm, %s, %d)" % (name, addr_param, width // 8))
    f = tv.func("check_invalid_code_blocs")
    automod = tv.macro_int("EXCEPT_CODE_AUTOMOD")
    sets = []
    for n in cast.walk(f.body):
        if n.get("kind") == "CompoundAssignOperator" and n.get("opcode") == "|=" and "exception_flags" in cast.text_names(n["inner"][0]):
            sets.append(n)
    ok = False
    detail = "no `exception_flags |= EXCEPT_CODE_AUTOMOD` in check_invalid_code_blocs"
    cfg = f.cfg()
    for s in sets:
        val = cast.const_int(s["inner"][1])
        if val != automod:
            detail = "flag set is %s, EXCEPT_CODE_AUTOMOD is %s" % (val, automod)
            continue
        # dominating overlap tests, stated on linear forms with the function's single-assignment locals expanded (a hoisted
        # `w_last = stop - 1` is the same test when it is compared with <=):
        #      code.ad_start < write.stop      and      write.start < code.ad_stop          (half-open ranges)
        ldefs = cast.local_defs(f)
        need = {"code-start<write-stop": False, "write-start<code-stop": False}

        def diff(lr):
            (lt, lc), (rt, rc) = lr
            d = dict(lt)
            for k_, v_ in rt:
                d[k_] = d.get(k_, 0) - v_
            return dict((k_, v_) for k_, v_ in d.items() if v_), lc - rc

        def field(term, name):
            return term.endswith("." + name) or term.endswith("->" + name)
        for sn in cfg.node_containing(s):
            for did in cfg.dominators()[sn.id]:
                dn = cfg.nodes[did]
                if dn.kind != "test":
                    continue
                # which outcome of the test leads to the flag without coming back through the test (the loop makes everything reachable)
                tsucc = [x for (x, lab) in cfg.succ[did] if lab is True]
                fsucc = [x for (x, lab) in cfg.succ[did] if lab is False]
                av = lambda x, did=did: x.id == did
                on_true = bool(tsucc) and (tsucc[0] == sn.id or cfg.can_reach(tsucc[0], sn.id, avoid=av))
                on_false = bool(fsucc) and (fsucc[0] == sn.id or cfg.can_reach(fsucc[0], sn.id, avoid=av))
                for pol in ([True] if on_true and not on_false else []) + ([False] if on_false and not on_true else []):
                    lr = cast.c_less_than(dn.ast, pol, ldefs)
                    if lr is None:
                        continue
                    d, c0 = diff(lr)           # the test says  sum(d) + c0 < 0
                    pos = [k_ for k_, v_ in d.items() if v_ == 1]
                    neg = [k_ for k_, v_ in d.items() if v_ == -1]
                    if len(d) == 2 and len(pos) == 1 and len(neg) == 1 and c0 == 0:
                        if field(pos[0], "ad_start") and field(neg[0], "stop") and not field(neg[0], "ad_stop"):
                            need["code-start<write-stop"] = True
                        if field(pos[0], "start") and not field(pos[0], "ad_start") and field(neg[0], "ad_stop"):
                            need["write-start<code-stop"] = True
        ok = all(need.values())
        detail = "the flag is not guarded by both overlap comparisons code.ad_start < write.stop and write.start < code.ad_stop (as strict tests on the half-open ranges): %s" % need
    ck.ob("R2", "check_invalid_code_blocs:overlap", ok, VMC, detail)
    # the loop must cover every recorded write: for (i=0; i<memory_w.num; i++)
    loops = [n for n in cast.walk(f.body) if n.get("kind") == "ForStmt"]
    ok = any("memory_w" in cast.text_names(l["inner"][2]) and "num" in cast.text_names(l["inner"][2]) for l in loops if len(l.get("inner", [])) >= 3 and l["inner"][2])
    ck.ob("R2", "check_invalid_code_blocs:all-writes", ok, VMC, "the check does not iterate over every recorded write range")

    # ------------------------------------------------------------------ R3
    cg = ck.repo.mod(CG)
    tpl_node = None
    for st in cg.cls("CGen").body:
        if isinstance(st, ast.Assign) and any(isinstance(t, ast.Name) and t.id == "CODE_VM_EXCEPTION_POST_INSTR" for t in st.targets):
            tpl_node = st.value
    ck.need(tpl_node is not None and isinstance(tpl_node, ast.Constant), "CGen.CODE_VM_EXCEPTION_POST_INSTR vanished")
    tpl = tpl_node.value
    i_chk = tpl.find("check_invalid_code_blocs(")
    m_if = re.search(r"if\s*\(\s*VM_exception_flag\s*\)\s*\{([^}]*)\}", tpl)
    ok = i_chk >= 0 and m_if is not None and m_if.start() > i_chk and "return JIT_RET_EXCEPTION" in m_if.group(1)
    ck.ob("R3", "CGen.CODE_VM_EXCEPTION_POST_INSTR", ok, cg.where(tpl_node),
          "the post-instruction template must call check_invalid_code_blocs and then return JIT_RET_EXCEPTION when VM_exception_flag is set")
    fn = cg.func("CGen.gen_post_instr_checks")
    ok = False
    for n in walk_body(fn):
        if isinstance(n, ast.If) and "mem_write" in norm(n.test) and not isinstance(n.test, ast.BoolOp):
            if any("CODE_VM_EXCEPTION_POST_INSTR" in norm(x) for x in walk_local(ast.Module(body=n.body, type_ignores=[]))):
                ok = True
    ck.ob("R3", "CGen.gen_post_instr_checks", ok, cg.where(fn),
          "the VM post-instruction check is not emitted for every instruction that writes memory")
    fn = cg.func("CGen.gen_goto_code")
    cfg = CFG(fn)
    is_chk = lambda nd: any(dotted(c.func) == "self.gen_post_instr_checks" for c in node_calls(nd))
    # every exit that leaves the instruction (return of `out` after a known-offset destination) passes the checks,
    # except the pure local-label goto
    ok = True
    for nd in cfg.nodes:
        if nd.kind == "stmt" and isinstance(nd.ast, ast.Return) and isinstance(nd.ast.value, ast.Name):
            p = cfg.path_avoiding(is_chk, nd.id)
            if p is not None:
                ok = False
    ck.ob("R3", "CGen.gen_goto_code", ok, cg.where(fn),
          "a destination with a known offset is reached without emitting the post-instruction checks")
    ll = ck.repo.mod(LL)
    fn = ll.func("LLVMFunction.gen_post_instr_checks")
    ok = False
    for n in walk_body(fn):
        if isinstance(n, ast.If) and "mem_write" in norm(n.test):
            body = ast.Module(body=n.body, type_ignores=[])
            txt = norm(body)
            a = txt.find("check_invalid_code_blocs")
            b = txt.find("self.check_memory_exception(")
            if a >= 0 and b > a and "restricted_exception=False" in txt:
                ok = True
    ck.ob("R3", "LLVMFunction.gen_post_instr_checks", ok, ll.where(fn),
          "the LLVM back end must call check_invalid_code_blocs and then test the unrestricted VM flag after a memory-accessing instruction")
    fn = ll.func("LLVMFunction.gen_jump2dst")
    cfg = CFG(fn)
    # every path to a return that emits an extern/forward jump passes gen_post_instr_checks, except the
    # generated-label branch (offset is None)
    exits = [nd for nd in cfg.nodes if nd.kind == "stmt" and isinstance(nd.ast, ast.Return)] + [cfg.nodes[cfg.exit.id]]
    bad = 0
    for nd in exits:
        p = cfg.path_avoiding(is_chk, nd.id)
        if p is not None:
            # allowed only when the path passed the `offset is None` test on its true edge
            allowed = False
            for a_, b_ in zip(p, p[1:]):
                if a_.kind == "test" and norm(a_.ast) == "offset is None":
                    if (b_.id, True) in cfg.succ[a_.id]:
                        allowed = True
            if not allowed and nd.id != cfg.exit.id:
                bad += 1
            if nd.id == cfg.exit.id and not allowed:
                bad += 1
    ck.ob("R3", "LLVMFunction.gen_jump2dst", bad == 0, ll.where(fn),
          "a jump to a real address is emitted without the post-instruction checks")
    jp = ck.repo.mod(JP)
    fn = jp.func("JitCore_Python.add_block.myfunc")
    cfg = CFG(fn)
    chk = [nd for nd in cfg.nodes if any(dotted(c.func) == "vmmngr.check_invalid_code_blocs" for c in node_calls(nd))]
    ok = False
    detail = "the Python back end does not call vmmngr.check_invalid_code_blocs()"
    if chk:
        c0 = chk[0]
        dom = cfg.dominators()[c0.id]
        from sa.astutil import Resolver as _Rj
        _rj = _Rj(fn)
        guarded = any(cfg.nodes[d].kind == "test" and "mem_write" in _rj.expand(cfg.nodes[d].ast) for d in dom)
        # followed by a test of the VM exception leading to a return
        follow = False
        for nd in cfg.nodes:
            if nd.kind == "test" and norm(nd.ast).replace(" ", "") in ("vmmngr.get_exception()", "vmmngr.get_exception()!=0") and cfg.can_reach(c0.id, nd.id):
                ts_ = [s for (s, l) in cfg.succ[nd.id] if l is True]
                if ts_:
                    stack = [ts_[0]]
                    seen = set()
                    while stack:
                        x = stack.pop()
                        if x in seen:
                            continue
                        seen.add(x)
                        if cfg.nodes[x].kind == "stmt" and isinstance(cfg.nodes[x].ast, ast.Return):
                            follow = True
                            break
                        if len(seen) < 4:
                            stack.extend(s for (s, _l) in cfg.succ[x])
        ok = guarded and follow
        detail = "check_invalid_code_blocs must be guarded by mem_write and followed by `if vmmngr.get_exception(): ... return`"
    ck.ob("R3", "JitCore_Python.myfunc", ok, jp.where(fn), detail)

    # ------------------------------------------------------------------ R4
    jc = ck.repo.mod(JC)
    fn = jc.func("JitCore.disasm_and_jit_block")
    cfg = CFG(fn)
    rets = [nd for nd in cfg.nodes if nd.kind == "stmt" and isinstance(nd.ast, ast.Return) and nd.ast.value is not None]
    # the success return is the one not dominated by the AsmBlockBad test's true edge
    badtest = [nd for nd in cfg.nodes if nd.kind == "test" and "AsmBlockBad" in norm(nd.ast)]
    ck.need(badtest and rets, "disasm_and_jit_block: bad-block test / returns not found")
    bad_rets = set()
    for (s, l) in cfg.succ[badtest[0].id]:
        if l is True:
            bad_rets.add(s)
    good = [r for r in rets if r.id not in bad_rets]
    for label, pred in (
            ("label-to-block", lambda nd: nd.kind == "stmt" and isinstance(nd.ast, ast.Assign) and any(
                isinstance(t, ast.Subscript) and dotted(t.value) == "self.loc_key_to_block" for t in nd.ast.targets)),
            ("add_block", lambda nd: any(dotted(c.func) == "self.add_block" for c in node_calls(nd))),
            ("min-max", lambda nd: any(dotted(c.func) == "self.set_block_min_max" for c in node_calls(nd))),
            ("mem-interval", lambda nd: any(dotted(c.func) == "self.add_block_to_mem_interval" for c in node_calls(nd)))):
        res = cfg.must_pass(pred, targets=[g.id for g in good])
        ck.ob("R4", "disasm_and_jit_block:%s" % label, bool(good) and all(res.values()), jc.where(fn),
              "a successfully disassembled block is returned without %s" % label)
    fn = jc.func("JitCore.add_block_to_mem_interval")
    ok = False
    for n in walk_body(fn):
        if isinstance(n, ast.For) and norm(n.iter) == "self.blocks_mem_interval":
            if any(isinstance(c, ast.Call) and callee_attr(c) == "add_code_bloc" for c in walk_local(n)):
                ok = True
    upd = any(isinstance(n, ast.AugAssign) and dotted(n.target) == "self.blocks_mem_interval" for n in walk_body(fn)) or \
        any(isinstance(n, ast.Assign) and any(dotted(t) == "self.blocks_mem_interval" for t in n.targets) for n in walk_body(fn))
    ck.ob("R4", "add_block_to_mem_interval", ok and upd, jc.where(fn),
          "the block's address range is not added to the interval and pushed to the VM with add_code_bloc")
    # min/max must cover the whole block: first line offset .. last line offset + length
    conv, why = _range_convention(jc)
    fn = jc.func("JitCore.set_block_min_max")
    ck.ob("R4", "set_block_min_max", conv is not None, jc.where(fn), "block range is not first offset .. last offset + last length (%s)" % why)
    # every interval built from a block's bounds is closed ([a, b] in miasm.core.interval): the end is ad_max - 1 when ad_max is
    # one past the last byte, ad_max itself when it is the last byte
    nint = 0
    for q, f2 in sorted(jc.funcs.items()):
        for n in walk_body(f2):
            if isinstance(n, ast.Tuple) and len(n.elts) == 2 and norm(n.elts[0]).endswith(".ad_min") and ".ad_max" in norm(n.elts[1]):
                terms, c = linear(n.elts[1])
                ok = conv is not None and len(terms) == 1 and list(terms)[0][0].endswith(".ad_max") and c == (-1 if conv == "exclusive" else 0)
                nint += 1
                ck.ob("R4", "%s:closed-interval-end" % q, ok, jc.where(n),
                      "ad_max is %s but the closed interval ends at `%s`: the recorded code range is one byte off" % (conv, norm(n.elts[1])))
    ck.need(nint >= 1, "no interval built from (ad_min, ad_max) found in jitcore.py")

    # ------------------------------------------------------------------ R5
    jl = ck.repo.mod(JL)
    fn = jl.func("Jitter.init_exceptions_handler")
    reg = [c for c in walk_body(fn) if isinstance(c, ast.Call) and dotted(c.func) == "self.add_exception_handler"]
    ok = False
    hname = None
    if reg and len(reg[0].args) == 2 and norm(reg[0].args[0]) == "EXCEPT_CODE_AUTOMOD":
        hname = norm(reg[0].args[1])
        ok = True
    ck.ob("R5", "init_exceptions_handler:register", ok, jl.where(fn), "no handler registered for EXCEPT_CODE_AUTOMOD")
    h = jl.funcs.get("Jitter.init_exceptions_handler.%s" % hname) if hname else None
    ok = False
    if h is not None:
        cs = [dotted(c.func) for c in walk_body(h) if isinstance(c, ast.Call)]
        clears = any(isinstance(c, ast.Call) and dotted(c.func) in ("self.vm.set_exception", "jitter.vm.set_exception")
                     and c.args and norm(c.args[0]) == "0" for c in walk_body(h))
        rets = [n for n in walk_body(h) if isinstance(n, ast.Return)]
        ok = ("self.jit.updt_automod_code" in cs or "jitter.jit.updt_automod_code" in cs) and clears and \
            all(isinstance(r.value, ast.Constant) and r.value.value is True for r in rets) and bool(rets)
    ck.ob("R5", "exception_automod", ok, jl.where(fn),
          "the handler must call updt_automod_code, clear the VM exception and return True (continue)")
    init = jl.func("Jitter.__init__")
    ok = any(isinstance(c, ast.Call) and dotted(c.func) == "self.init_exceptions_handler" for c in walk_body(init))
    ck.ob("R5", "Jitter.__init__:installs", ok, jl.where(init), "Jitter.__init__ does not install the default exception handlers")

    # ------------------------------------------------------------------ R6
    from sa.prenorm import inline_helpers
    fn = inline_helpers(jc.func("JitCore.del_block_in_range"), jc.methods("JitCore"))
    body = ast.Module(body=fn.body, type_ignores=[])
    dels_func = [n for n in ast.walk(body) if (isinstance(n, ast.Delete) and any(
        isinstance(t, ast.Subscript) and dotted(t.value) == "self.offset_to_jitted_func" for t in n.targets)) or
        (isinstance(n, ast.Call) and dotted(n.func) == "self.offset_to_jitted_func.pop")]
    dels_blk = [n for n in ast.walk(body) if (isinstance(n, ast.Delete) and any(
        isinstance(t, ast.Subscript) and dotted(t.value) == "self.loc_key_to_block" for t in n.targets)) or
        (isinstance(n, ast.Call) and dotted(n.func) == "self.loc_key_to_block.pop")]
    ck.ob("R6", "del_block_in_range:drop-translation", bool(dels_func), jc.where(fn), "translated functions of modified blocks are kept")
    ck.ob("R6", "del_block_in_range:drop-block", bool(dels_blk), jc.where(fn), "block entries of modified blocks are kept")
    # overlap predicate against the half-open range [ad1, ad2), under the convention set_block_min_max establishes for ad_max:
    #   untouched  iff  ad_max <= ad1 (ad_max exclusive) / ad_max < ad1 (inclusive)  or  ad_min >= ad2
    p1, p2 = fn.args.args[1].arg, fn.args.args[2].arg
    conv, _why = _range_convention(jc)
    ok = False
    detail = "no overlap test on ad_min/ad_max found"
    _resf = Resolver(fn)
    cands = []          # (test node, selected-when-true?, selecting statements or None for a comprehension)
    for n in walk_local(body):
        if isinstance(n, ast.If) and isinstance(n.test, ast.BoolOp):
            cands.append((n.test, None, n))
        if isinstance(n, (ast.GeneratorExp, ast.ListComp, ast.SetComp)) and len(n.generators) == 1 and n.generators[0].ifs and "loc_key_to_block" in norm(n.generators[0].iter):
            conds = n.generators[0].ifs
            t = conds[0] if len(conds) == 1 else ast.BoolOp(op=ast.And(), values=list(conds))
            cands.append((t, True, None))
    for (test, comp_true, ifnode) in cands:
        if not isinstance(test, ast.BoolOp):
            continue
        untouched_when = isinstance(test.op, ast.Or)     # `or` of "disjoint" atoms / `and` of "overlap" atoms
        rel = {}
        for v in test.values:
            v = _resf.expand_node(v)
            lt = less_than(v, True)
            if lt is None:
                continue
            a, b, strict = norm(lt[0]), norm(lt[1]), lt[2]
            rel[(a.split(".")[-1], b.split(".")[-1])] = strict
        if untouched_when:
            # ad_max (<|<=) ad1 ; ad2 (<|<=) ad_min
            k1, k2 = ("ad_max", p1), (p2, "ad_min")
            want1, want2 = (conv == "inclusive"), False
            sel = ifnode.orelse if ifnode is not None else None
        else:
            # ad1 (<|<=) ad_max ; ad_min (<|<=) ad2
            k1, k2 = (p1, "ad_max"), ("ad_min", p2)
            want1, want2 = (conv == "exclusive"), True
            sel = ifnode.body if ifnode is not None else None
        if k1 in rel and k2 in rel:
            if ifnode is None:
                sel_ok = not untouched_when
            else:
                sel_ok = any(isinstance(c, ast.Call) and callee_attr(c) == "add" for c in walk_local(ast.Module(body=sel, type_ignores=[])))
            ok = conv is not None and rel[k1] == want1 and rel[k2] == want2 and sel_ok
            detail = "ad_max is %s (set_block_min_max) and [%s, %s) is half-open, but the test is `%s`" % (conv, p1, p2, norm(test))
    ck.ob("R6", "del_block_in_range:overlap", ok, jc.where(fn),
          "a block is selected for removal iff it overlaps the written range: %s" % detail)
    rebuilt = any(isinstance(n, ast.Assign) and any(dotted(t) == "self.blocks_mem_interval" for t in n.targets)
                  and "self.loc_key_to_block" in norm(n.value) for n in walk_local(body))
    ck.ob("R6", "del_block_in_range:rebuild-interval", rebuilt, jc.where(fn), "the code interval is not rebuilt from the remaining blocks")
    fn = jc.func("JitCore.updt_automod_code_range")
    cs = [dotted(c.func) for c in walk_body(fn) if isinstance(c, ast.Call)]
    loop_ok = any(isinstance(n, ast.For) and norm(n.iter) == fn.args.args[2].arg and any(
        isinstance(c, ast.Call) and dotted(c.func) == "self.del_block_in_range" for c in walk_local(n)) for n in walk_body(fn))
    ok = loop_ok and any(c and c.endswith("updt_jitcode_mem_range") for c in cs)
    ck.ob("R6", "updt_automod_code_range", ok, jc.where(fn),
          "every range must be passed to del_block_in_range and the VM code ranges refreshed")
    fn = jc.func("JitCore.updt_automod_code")
    res = Resolver(fn)
    ok = False
    for c in [c for c in walk_body(fn) if isinstance(c, ast.Call) and dotted(c.func) == "self.updt_automod_code_range" and len(c.args) >= 2]:
        a = c.args[1]
        ax = res.expand_node(a)
        if "vm.get_memory_write()" in norm(ax):
            ok = True
        elif isinstance(a, ast.Name):
            for lp in [n for n in walk_body(fn) if isinstance(n, ast.For) and norm(n.iter) == "vm.get_memory_write()"]:
                if any(isinstance(x, ast.Call) and isinstance(x.func, ast.Attribute) and x.func.attr in ("append", "add") and norm(x.func.value) == a.id for x in walk_local(lp)) \
                        and not any(isinstance(x, (ast.Break, ast.Continue)) for x in walk_local(lp)):
                    ok = True
    ck.ob("R6", "updt_automod_code", ok, jc.where(fn), "recorded memory writes are not all handed to updt_automod_code_range")

    # ------------------------------------------------------------------ R7
    # who clears the recorded writes: in the translation-cache layer (jitcore.py, jitload.py) a reset_memory_access() must be
    # preceded on every path by get_memory_write() in the same function; a helper that invalidates an explicit range
    # (breakpoint placement) may not clear writes it has not looked at
    n7 = 0
    for mod in (jc, jl):
        for q, f2 in sorted(mod.funcs.items()):
            resets = [c for c in walk_body(f2) if isinstance(c, ast.Call) and isinstance(c.func, ast.Attribute) and c.func.attr == "reset_memory_access"]
            if not resets:
                continue
            cfg2 = CFG(f2)
            for c in resets:
                n7 += 1
                tg = [nd.id for nd in cfg2.node_containing(c)]
                res2 = cfg2.must_pass(lambda nd: any(isinstance(x.func, ast.Attribute) and x.func.attr == "get_memory_write" for x in node_calls(nd)), targets=tg)
                ck.ob("R7", "%s:reset-after-consume" % q, bool(tg) and all(res2.values()), mod.where(c),
                      "%s clears the recorded memory writes without having read them: a host write recorded before this call "
                      "is forgotten while EXCEPT_CODE_AUTOMOD stays pending, and the stale translation runs" % q)
    consumer = jc.func("JitCore.updt_automod_code")
    ok = any(isinstance(c, ast.Call) and isinstance(c.func, ast.Attribute) and c.func.attr == "reset_memory_access" for c in walk_body(consumer))
    ck.ob("R7", "JitCore.updt_automod_code:clears-consumed", ok, jc.where(consumer),
          "nobody clears the consumed write list: every later exception handling re-invalidates the same ranges")

