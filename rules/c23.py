"""C23 - breakpoints fire exactly when execution reaches their address.

Structural clauses decided:
 R1 every Jitter API that makes an address a breakpoint key also (a) registers a disassembly split
    at that address and (b) drops already translated code covering it (sibling consistency)
 R2 the removal APIs drop the split when the last callback of an address goes, and the callback
    table really forgets the key
 R3 the stop set handed to the back end is the set of breakpoint keys, it reaches exec_wrapper, and
    both C dispatchers leave their loop when the next address is in it
 R4 runiter_once runs the callbacks of the current pc before the block, and a non-True callback
    result is yielded (stops the run); call_callbacks yields every non-True result
 R5 the disassembler ends a non-empty block at a split address with a fall-through constraint and
    schedules the split address
"""
import ast

from sa.astutil import walk_body, walk_local, dotted, norm, callee_attr, cmp_parts, Resolver
from sa.cfg import CFG, node_calls, node_exprs

JL = "miasm/jitter/jitload.py"
JC = "miasm/jitter/jitcore.py"
AB = "miasm/core/asmblock.py"
LEVEL_TEXT = ("Static sibling-consistency and ordering rules over Jitter's breakpoint APIs, JitCore.run_at, the "
              "callback table, the disassembler's split exit and the two C dispatch loops (clang AST). Decides these "
              "necessary clauses on every path; runs no emulation.")
LEVEL_TEXT += ' Also: engine options rebound by a disassembler method are restored on exit (the split collection shared with the translator stays the same object).'
ASSUMPTIONS = ["CPython ast; clang 14 AST for Jitgcc.c/Jitllvm.c", "breakpoints are kept in Jitter.breakpoints_handler "
               "(a CallbackHandler) - re-derived from Jitter.__init__"]


PRELOAD_C = ['miasm/jitter/Jitgcc.c', 'miasm/jitter/Jitllvm.c']


def run(ck):
    m = ck.repo.mod(JL)
    jm = m.methods("Jitter")
    ck.rule("R1", "a breakpoint-registering API adds a disassembly split and invalidates translations covering the address", floor=2)
    ck.rule("R2", "removal APIs drop the split of an address whose last callback is removed; the table forgets the key", floor=2)
    ck.rule("R3", "the breakpoint keys are the stop set, passed through to the dispatcher, which tests it after each block", floor=2)
    ck.rule("R4", "callbacks of the current pc run before the block; non-True results are yielded", floor=1)
    ck.rule("R6", "the split set the translator updates is the object the disassembler consults: handed over by reference at construction and afterwards only mutated in place", floor=1)
    ck.rule("R5", "the disassembler ends a non-empty block at a split address with a fall-through constraint", floor=1)

    init = jm.get("__init__")
    ck.need(init is not None, "Jitter.__init__ vanished")
    bh = None
    for n in walk_body(init):
        if isinstance(n, ast.Assign) and isinstance(n.value, ast.Call) and callee_attr(n.value) == "CallbackHandler":
            for t in n.targets:
                d = dotted(t)
                if d and "breakpoint" in d:
                    bh = d
    ck.need(bh is not None, "Jitter.__init__: breakpoint CallbackHandler not found")

    # ---------------------------------------------------------------- R1
    registering = []
    for name, fn in sorted(jm.items()):
        for c in [x for x in walk_body(fn) if isinstance(x, ast.Call)]:
            d = dotted(c.func)
            if d in (bh + ".add_callback", bh + ".set_callback") and c.args:
                registering.append((name, fn, norm(c.args[0])))
    ck.need(len(registering) >= 2, "fewer than two breakpoint-registering APIs found")
    for name, fn, addr in registering:
        cs = [x for x in walk_body(fn) if isinstance(x, ast.Call)]
        split = any(dotted(c.func) == "self.jit.add_disassembly_splits" and any(norm(a) == addr for a in c.args) for c in cs)
        ck.ob("R1", "Jitter.%s:split" % name, split, m.where(fn),
              "%s registers callbacks for `%s` without add_disassembly_splits(%s): a block translated later will "
              "run through the address" % (name, addr, addr))
        inval = False
        for c in cs:
            if dotted(c.func) in ("self.jit.updt_automod_code_range", "self.jit.del_block_in_range"):
                txt = norm(c)
                if txt.count(addr) >= 2:
                    inval = True
        ck.ob("R1", "Jitter.%s:invalidate" % name, inval, m.where(fn),
              "%s does not drop already translated blocks covering `%s` (sibling add_breakpoint does): a breakpoint set "
              "inside a translated block never fires" % (name, addr))

    # ---------------------------------------------------------------- R2
    fn = jm.get("remove_breakpoints_by_callback")
    ck.need(fn is not None, "Jitter.remove_breakpoints_by_callback vanished")
    ok = False
    for n in walk_body(fn):
        if isinstance(n, ast.For):
            res = Resolver(fn)
            if bh + ".remove_callback" in res.expand(n.iter):
                for c in walk_local(n):
                    if isinstance(c, ast.Call) and dotted(c.func) == "self.jit.remove_disassembly_splits" and \
                            any(norm(a) == norm(n.target) for a in c.args):
                        ok = True
    ck.ob("R2", "Jitter.remove_breakpoints_by_callback", ok, m.where(fn),
          "splits of the addresses emptied by remove_callback are not removed")
    fn = jm.get("remove_breakpoints_by_address")
    ck.need(fn is not None, "Jitter.remove_breakpoints_by_address vanished")
    ap = fn.args.args[1].arg
    cs = [x for x in walk_body(fn) if isinstance(x, ast.Call)]
    ok = any(dotted(c.func) == bh + ".remove_key" and c.args and norm(c.args[0]) == ap for c in cs) and \
        any(dotted(c.func) == "self.jit.remove_disassembly_splits" and c.args and norm(c.args[0]) == ap for c in cs)
    ck.ob("R2", "Jitter.remove_breakpoints_by_address", ok, m.where(fn),
          "the address is not removed from the callback table and from the disassembly splits")
    cm = m.methods("CallbackHandler")
    fn = cm.get("remove_key")
    ck.need(fn is not None, "CallbackHandler.remove_key vanished")
    kp = fn.args.args[1].arg
    ok = any((isinstance(n, ast.Delete) and any(norm(t) == "self.callbacks[%s]" % kp for t in n.targets)) or
             (isinstance(n, ast.Call) and dotted(n.func) == "self.callbacks.pop" and n.args and norm(n.args[0]) == kp)
             for n in walk_body(fn))
    ck.ob("R2", "CallbackHandler.remove_key", ok, m.where(fn), "remove_key leaves the key in the table")
    fn = cm.get("remove_callback")
    ck.need(fn is not None, "CallbackHandler.remove_callback vanished")
    dels = [n for n in walk_body(fn) if isinstance(n, ast.Delete) and any(
        isinstance(t, ast.Subscript) and norm(t.value) == "self.callbacks" for t in n.targets)] + \
        [n for n in walk_body(fn) if isinstance(n, ast.Call) and dotted(n.func) == "self.callbacks.pop"]
    rets = [n for n in walk_body(fn) if isinstance(n, ast.Return) and n.value is not None]
    ok = bool(dels) and bool(rets)
    # the emptied key must be both deleted and reported, under a test that the list is empty
    if ok:
        d = dels[0]
        p = getattr(d, "_parent", None)
        guarded = False
        while p is not None and p is not fn:
            if isinstance(p, ast.If) and ("len(" in norm(p.test) or "not " in norm(p.test)):
                guarded = True
                sib = [s for s in p.body]
                if not any(isinstance(s, ast.Expr) and isinstance(s.value, ast.Call) and callee_attr(s.value) == "append"
                           for s in sib):
                    ok = False
            p = getattr(p, "_parent", None)
        ok = ok and guarded
    ck.ob("R2", "CallbackHandler.remove_callback", ok, m.where(fn),
          "a key whose last callback is removed must be deleted from the table and reported to the caller")

    # ---------------------------------------------------------------- R3
    stop_set_rules(ck, "R3")
    cm2 = ck.repo.mod(JC)
    fn = cm2.func("JitCore.run_at")
    sp = fn.args.args[3].arg
    cs = [c for c in walk_body(fn) if isinstance(c, ast.Call) and dotted(c.func) == "self.exec_wrapper"]
    ok = bool(cs) and len(cs[0].args) >= 4 and norm(cs[0].args[3]) == sp
    ck.ob("R3", "JitCore.run_at:forward-stop-set", ok, cm2.where(fn), "stop offsets are not forwarded to exec_wrapper")
    _c_dispatchers(ck)

    # ---------------------------------------------------------------- R4
    fn = jm.get("runiter_once")
    ck.need(fn is not None, "Jitter.runiter_once vanished")
    cfg = CFG(fn)
    bpn = [nd for nd in cfg.nodes if any(dotted(c.func) in (bh + ".call_callbacks", bh) and c.args and
                                         norm(c.args[0]) == "self.pc" for c in node_calls(nd))]
    runn = [nd for nd in cfg.nodes if any(dotted(c.func) == "self.run_at" for c in node_calls(nd))]
    ck.need(runn, "runiter_once: call of self.run_at not found")
    dom = cfg.dominators()
    ok = bool(bpn) and all(any(b.id in dom[r.id] for b in bpn) for r in runn)
    ck.ob("R4", "Jitter.runiter_once:callbacks-before-block", ok, m.where(fn),
          "the callbacks registered for self.pc do not run on every path before the block at self.pc is executed")
    ok = False
    for b in bpn:
        if b.kind == "for":
            tgt = norm(b.ast.target)
            for n in walk_local(b.ast):
                if isinstance(n, (ast.Yield,)) and n.value is not None and norm(n.value) == tgt:
                    ok = True
    ck.ob("R4", "Jitter.runiter_once:yield-result", ok, m.where(fn),
          "a non-True breakpoint callback result is not yielded to the caller (the run would not stop)")
    fn = cm.get("call_callbacks")
    ck.need(fn is not None, "CallbackHandler.call_callbacks vanished")
    ok = False
    for n in walk_body(fn):
        if isinstance(n, ast.If):
            p = cmp_parts(n.test)
            if p and p[1] == "isnot" and norm(p[2]) == "True":
                if any(isinstance(x, ast.Yield) and x.value is not None and norm(x.value) == norm(p[0]) for x in walk_local(n)):
                    ok = True
    ck.ob("R4", "CallbackHandler.call_callbacks", ok, m.where(fn), "results that are not True are not yielded")

    # ---------------------------------------------------------------- R5
    am = ck.repo.mod(AB)
    from sa.prenorm import with_private_helpers
    fn = with_private_helpers(am, "disasmEngine._dis_block")
    ok = sched = False
    for n in walk_body(fn):
        if isinstance(n, ast.If) and "self.split_dis" in norm(n.test):
            t = norm(n.test)
            nonempty = ("lines_cpt > 0" in t) or ("0 < lines_cpt" in t) or ("lines_cpt >= 1" in t) or ("1 <= lines_cpt" in t) or ("cur_block.lines" in t)
            body = ast.Module(body=n.body, type_ignores=[])
            cst = any(isinstance(c, ast.Call) and callee_attr(c) == "add_cst" and "c_next" in norm(c) for c in walk_local(body))
            brk = any(isinstance(s, ast.Break) for s in n.body)
            ok = nonempty and cst and brk
            sched = any(isinstance(c, ast.Call) and dotted(c.func) == "offsets_to_dis.add" and norm(c.args[0]) == "offset"
                        for c in walk_local(body))
    ck.ob("R5", "disasmEngine._dis_block:split-exit", ok, am.where(fn),
          "a non-empty block is not ended with a fall-through constraint at an address of split_dis")
    ck.ob("R5", "disasmEngine._dis_block:split-scheduled", sched, am.where(fn),
          "the split address is not scheduled for disassembly")


def stop_set_rules(ck, RID):
    """The stop set given to the back end is the current set of breakpoint addresses: built from the callback table at each
    run, or cached in an attribute that every API changing the table resets (shared by C23-R3 and C20-R8)."""
    m = ck.repo.mod(JL)
    jm = m.methods("Jitter")
    fn = jm.get("run_at")
    ck.need(fn is not None, "Jitter.run_at vanished")
    bh = "self.breakpoints_handler"
    fresh = ("set(%s.callbacks)" % bh, "set(%s.callbacks.keys())" % bh, "%s.callbacks" % bh, "%s.callbacks.keys()" % bh,
             "frozenset(%s.callbacks)" % bh, "set(%s.callbacks.keys())" % bh)
    cs = [c for c in walk_body(fn) if isinstance(c, ast.Call) and dotted(c.func) == "self.jit.run_at"]
    ok = False
    cache = None
    if cs and len(cs[0].args) >= 3:
        a = Resolver(fn).expand(cs[0].args[2])
        ok = a in fresh
        d = dotted(cs[0].args[2])
        if not ok and d and d.startswith("self.") and d.count(".") == 1:
            # a cached stop set: (re)built from the table in run_at when reset ...
            cache = d
            cfg = CFG(fn)
            rebuilt = [nd for nd in cfg.nodes if nd.kind == "stmt" and isinstance(nd.ast, ast.Assign) and any(dotted(t) == cache for t in nd.ast.targets)
                       and norm(nd.ast.value) in fresh]
            tested = any(nd.kind == "test" and norm(nd.ast).replace(" ", "") in ("%sisNone" % cache, "not%s" % cache.replace(" ", "")) for nd in cfg.nodes) or \
                any(nd.kind == "test" and cache in norm(nd.ast) and "None" in norm(nd.ast) for nd in cfg.nodes)
            ok = bool(rebuilt) and tested
    ck.ob(RID, "Jitter.run_at:stop-set", ok, m.where(fn),
          "the stop set passed to the back end is not the set of breakpoint addresses (nor a cache rebuilt from it)")
    if cache is not None:
        # ... and reset by every method that changes the callback table, on every path to its exit
        MUT = ("add_callback", "set_callback", "remove_callback", "remove_key")
        for q, f in sorted(jm.items()):
            muts = [c for c in walk_body(f) if isinstance(c, ast.Call) and isinstance(c.func, ast.Attribute) and c.func.attr in MUT and dotted(c.func.value) == bh]
            wr = [n for n in walk_body(f) if isinstance(n, ast.Assign) and any(dotted(t) and dotted(t).startswith(bh + ".callbacks") for t in n.targets)]
            if not muts and not wr:
                continue
            cfg = CFG(f)
            reset = lambda nd: nd.kind == "stmt" and isinstance(nd.ast, ast.Assign) and any(dotted(t) == cache for t in nd.ast.targets) and \
                (norm(nd.ast.value) == "None" or norm(nd.ast.value) in fresh)
            res = cfg.must_pass(reset)
            ck.ob(RID, "Jitter.%s:stop-cache-reset" % q, bool(res.get(cfg.exit.id)), m.where(f),
                  "Jitter.%s changes the breakpoint table but leaves the cached stop set `%s` as it is: the C dispatch loops keep "
                  "chaining through the new address (the Python back end does not use the stop set: the back ends diverge)" % (q, cache))


def _c_dispatchers(ck):
    from sa import cast
    for rel, fname in (("miasm/jitter/Jitgcc.c", "gcc_exec_block"), ("miasm/jitter/Jitllvm.c", "llvm_exec_block")):
        tu = cast.load(ck.repo, rel)
        f = tu.func(fname)
        # a loop containing a call whose callee name contains 'Contains' on the stop-set parameter,
        # followed by a return
        loops = [n for n in cast.walk(f.body) if n.get("kind") in ("WhileStmt", "ForStmt", "DoStmt")]
        ok = False
        for lp in loops:
            for n in cast.walk(lp):
                if n.get("kind") == "IfStmt":
                    cond = n["inner"][0]
                    names = [cast.callee(c) for c in cast.walk(cond) if c.get("kind") == "CallExpr"]
                    if any(x and "Contains" in x for x in names) and "stop_offsets" in cast.text_names(cond):
                        then = n["inner"][1]
                        if any(x.get("kind") == "ReturnStmt" for x in cast.walk(then)):
                            ok = True
        ck.ob("R3", "%s:stop-set-test" % fname, ok, rel,
              "the dispatch loop does not return when the next address is in the stop set")

    # ---------------------------------------------------------------- R6 one shared split set
    jc = ck.repo.mod(JC)
    init = jc.func("JitCore.__init__")
    shared = None
    for c in walk_body(init):
        if isinstance(c, ast.Call) and callee_attr(c) == "disasmEngine":
            for kw in c.keywords:
                if kw.arg == "split_dis" and dotted(kw.value) and dotted(kw.value).startswith("self."):
                    shared = dotted(kw.value)
    ck.ob("R6", "JitCore.__init__:split-set-handed-over", shared is not None, jc.where(init),
          "the disassembler is not given the translator's split set: breakpoint addresses never end a block")
    if shared is not None:
        attr = shared.split(".", 1)[1]
        # after construction the attribute is never rebound (an out-of-place set operation assigned back splits the two views)
        for q, f in sorted(jc.funcs.items()):
            if not q.startswith("JitCore.") or q == "JitCore.__init__":
                continue
            for n in walk_body(f):
                if isinstance(n, ast.Assign) and any(dotted(t) == shared for t in n.targets):
                    ck.ob("R6", "%s:rebinds-%s" % (q, attr), False, jc.where(n),
                          "`%s` replaces the set object the disassembler was given at construction: later additions/removals are "
                          "invisible to the disassembler (stale or missing block ends at breakpoint addresses)" % norm(n)[:80])
        for q in ("JitCore.add_disassembly_splits", "JitCore.remove_disassembly_splits"):
            f = jc.func(q)
            inplace = any(isinstance(c, ast.Call) and isinstance(c.func, ast.Attribute) and dotted(c.func.value) == shared and
                          c.func.attr in ("update", "difference_update", "add", "discard", "remove", "clear", "intersection_update", "symmetric_difference_update")
                          for c in walk_body(f)) or any(isinstance(n, ast.AugAssign) and dotted(n.target) == shared for n in walk_body(f))
            ck.ob("R6", "%s:in-place" % q.split(".")[1], inplace, jc.where(f), "%s does not update the shared split set in place" % q)
        # the disassembler keeps the object it was given (no copy in its constructor)
        ab = ck.repo.mod(AB)
        dinit = ab.func("disasmEngine.__init__")
        keeps = any(isinstance(c, ast.Call) and dotted(c.func) == "self.__dict__.update" and c.args and norm(c.args[0]) == "kwargs" for c in walk_body(dinit)) or \
            any(isinstance(n, ast.Assign) and dotted(n.targets[0]) == "self.split_dis" and "kwargs" in norm(n.value) and "set(" not in norm(n.value) and "list(" not in norm(n.value)
                for n in walk_body(dinit))
        ck.ob("R6", "disasmEngine.__init__:keeps-reference", keeps, ab.where(dinit), "the disassembler copies the split collection it is given")
        # ... and never lets go of it: a method of the engine that rebinds one of its option attributes restores it on every exit (the
        # temporarily changed options of dis_instr), and the shared split collection in particular is the same object afterwards
        for q, f in sorted(ab.funcs.items()):
            if not q.startswith("disasmEngine.") or q.count(".") != 1 or q == "disasmEngine.__init__":
                continue
            assigned = {}
            for n in walk_body(f):
                if isinstance(n, ast.Assign):
                    for t in n.targets:
                        d = dotted(t)
                        if d and d.startswith("self.") and d.count(".") == 1:
                            assigned.setdefault(d[5:], n)
            if not assigned:
                continue
            restored = set()
            for tr in [n for n in walk_body(f) if isinstance(n, ast.Try) and n.finalbody]:
                for n in ast.walk(ast.Module(body=tr.finalbody, type_ignores=[])):
                    if isinstance(n, ast.Assign):
                        for t in n.targets:
                            d = dotted(t)
                            if d and d.startswith("self.") and isinstance(n.value, ast.Name):
                                restored.add(d[5:])
                    if isinstance(n, ast.Call) and dotted(n.func) == "self.__dict__.update" and n.args and isinstance(n.args[0], ast.Name):
                        # saved = dict((name, getattr(self, name)) for name in (<literal names>))  /  {name: getattr(self, name) for ...}
                        for a_ in walk_body(f):
                            if isinstance(a_, ast.Assign) and isinstance(a_.targets[0], ast.Name) and a_.targets[0].id == n.args[0].id:
                                for g_ in ast.walk(a_.value):
                                    if isinstance(g_, ast.comprehension) and isinstance(g_.iter, (ast.Tuple, ast.List, ast.Set)):
                                        restored.update(e.value for e in g_.iter.elts if isinstance(e, ast.Constant) and isinstance(e.value, str))
                                if isinstance(a_.value, ast.Dict):
                                    restored.update(k.value for k in a_.value.keys if isinstance(k, ast.Constant))
            temp = sorted(k for k in assigned if k in ("lines_wd", "dont_dis", "split_dis", "follow_call", "dontdis_retcall", "blocs_wd", "dis_block_callback",
                                                       "dont_dis_nulstart_bloc", "dont_dis_retcall_funcs") )
            lost = [k for k in temp if k not in restored]
            ck.ob("R6", "%s:options-restored" % q, not lost, ab.where(assigned[lost[0]] if lost else f),
                  "%s rebinds the engine option(s) %s and does not restore %s on exit: %s"
                  % (q, temp, lost, "the split collection shared with the translator is replaced, so breakpoint addresses added or removed later never "
                     "reach the disassembler" if "split_dis" in lost else "later disassembly runs with the temporary value"))

