"""C28 - location database consistency (miasm/core/locationdb.py: LocationDB).

Structural clauses decided:
 R1 key kinds: values flowing into the four association tables / their getters have the table's key kind
 R2 no value of a procedure (a method without `return <expr>`) is used as a result (the "returns the
    location" clause: a LocKey-returning API must not return a procedure's None)
 R3 paired updates: a path that writes one direction of an association writes the other, with
    mirrored key/value
 R4 reject-before-mutate: no table write precedes a raise / a call that may reject, on any path
 R5 merge passes every foreign offset and every foreign name to the adding APIs
 R6 uniqueness guards dominate the writes (a name / an offset bound to another location is refused)
"""
import ast

from sa.astutil import walk_body, walk_local, dotted, norm, callee_attr, MUTATORS, Resolver, cmp_parts
from sa.cfg import CFG, node_exprs, node_calls
from sa.facts import guard_facts

REL = "miasm/core/locationdb.py"
CLS = "LocationDB"
LEVEL_TEXT = ("Static rules over LocationDB: key-kind flow into the four tables, void-result use, paired mirrored "
              "updates on every path, no write before a possible rejection, dominating uniqueness guards, merge "
              "completeness. Decides these necessary clauses for all operation sequences; executes none.")
ASSUMPTIONS = ["CPython ast", "tables are only reached through self._<table> inside LocationDB (who-writes is re-checked "
               "over all of miasm/ in the thorough tier)"]

# table -> (key kind, value kind); derived names are checked to exist in __init__
TABLES = {"_loc_key_to_offset": ("loc", "off"), "_offset_to_loc_key": ("off", "loc"),
          "_name_to_loc_key": ("name", "loc"), "_loc_key_to_names": ("loc", "names")}
PAIRS = [("_loc_key_to_offset", "_offset_to_loc_key"), ("_name_to_loc_key", "_loc_key_to_names")]
GETTERS = {"get_location_offset": "loc", "get_location_names": "loc", "get_name_location": "name",
           "get_offset_location": "off", "get_name_offset": "name", "get_or_create_name_location": "name",
           "get_or_create_offset_location": "off"}
# parameter / variable name -> kind; conventions of this file, confirmed by reading every method
EXEMPT_KIND = {
    ("add_location", "self.get_offset_location(name_loc_key)"):
        "dead lookup (a LocKey is never a key of the offset table, result always None); the outcome is the same "
        "because set_location_offset re-checks an existing different offset and raises the same ValueError",
}


def _kind_of(expr, kinds):
    """Abstract kind of an expression: loc / off / name / names / None (unknown)."""
    if isinstance(expr, ast.Name):
        return kinds.get(expr.id)
    if isinstance(expr, ast.Call):
        ca = callee_attr(expr)
        if ca == "LocKey":
            return "loc"
        if ca == "int":
            return "off"
        if dotted(expr.func) in ("self.get_name_location", "self.get_offset_location", "self.add_location",
                                 "self.get_or_create_name_location", "self.get_or_create_offset_location"):
            return "loc"
        if dotted(expr.func) in ("self.get_location_offset", "self.get_name_offset"):
            return "off"
        if dotted(expr.func) == "self.get_location_names":
            return "names"
        if isinstance(expr.func, ast.Attribute) and expr.func.attr in ("get", "pop") and \
                isinstance(expr.func.value, ast.Attribute) and dotted(expr.func.value) and \
                dotted(expr.func.value).startswith("self.") and dotted(expr.func.value)[5:] in TABLES:
            return TABLES[dotted(expr.func.value)[5:]][1]
    if isinstance(expr, ast.Subscript) and dotted(expr.value) and dotted(expr.value).startswith("self.") \
            and dotted(expr.value)[5:] in TABLES:
        return TABLES[dotted(expr.value)[5:]][1]
    return None


def _name_kinds(fn):
    """Kinds of local names: from parameter naming conventions and from what they are assigned."""
    kinds = {}
    for a in fn.args.args:
        n = a.arg
        if n in ("loc_key",) or n.endswith("_loc_key") or n.endswith("_loc"):
            kinds[n] = "loc"
        elif n in ("offset",) or n.endswith("_offset") or n.endswith("_off"):
            kinds[n] = "off"
        elif n in ("name", "newname") or n.endswith("_name"):
            kinds[n] = "name"
    changed = True
    it = 0
    while changed and it < 5:
        changed = False
        it += 1
        for n in walk_body(fn):
            if isinstance(n, ast.Assign) and len(n.targets) == 1 and isinstance(n.targets[0], ast.Name):
                k = _kind_of(n.value, kinds)
                t = n.targets[0].id
                if k and kinds.get(t) != k:
                    if t in kinds and kinds[t] != k:
                        kinds[t] = "mixed"
                    else:
                        kinds[t] = k
                    changed = True
            elif isinstance(n, ast.For) and isinstance(n.target, ast.Name):
                k = _kind_of(n.iter, kinds)
                if k == "names" and kinds.get(n.target.id) != "name":
                    kinds[n.target.id] = "name"
                    changed = True
    return kinds


def _table_of(node):
    """If node is self.<table>, return table name."""
    d = dotted(node)
    if d and d.startswith("self.") and d[5:] in TABLES:
        return d[5:]
    return None


def _writes(expr_or_stmt):
    """Tables written by one statement / expression tree: {table: [(how, key node, value node)]}."""
    out = {}

    def add(t, how, k, v):
        out.setdefault(t, []).append((how, k, v))
    for n in walk_local(expr_or_stmt):
        if isinstance(n, ast.Assign):
            for t in n.targets:
                if isinstance(t, ast.Subscript) and _table_of(t.value):
                    add(_table_of(t.value), "set", t.slice, n.value)
        elif isinstance(n, ast.AugAssign) and isinstance(n.target, ast.Subscript) and _table_of(n.target.value):
            add(_table_of(n.target.value), "set", n.target.slice, n.value)
        elif isinstance(n, ast.Delete):
            for t in n.targets:
                if isinstance(t, ast.Subscript) and _table_of(t.value):
                    add(_table_of(t.value), "del", t.slice, None)
        elif isinstance(n, ast.Call) and isinstance(n.func, ast.Attribute) and n.func.attr in MUTATORS:
            base = n.func.value
            if _table_of(base):
                how = "del" if n.func.attr in ("pop", "remove", "clear", "discard", "popitem") else "set"
                add(_table_of(base), how, n.args[0] if n.args else None, n.args[1] if len(n.args) > 1 else None)
            elif isinstance(base, ast.Subscript) and _table_of(base.value):
                how = "del" if n.func.attr in ("pop", "remove", "clear", "discard") else "set"
                add(_table_of(base.value), how, base.slice, n.args[0] if n.args else None)
            elif isinstance(base, ast.Call) and isinstance(base.func, ast.Attribute) and _table_of(base.func.value) \
                    and base.func.attr == "setdefault":
                how = "del" if n.func.attr in ("pop", "remove", "clear", "discard") else "set"
                add(_table_of(base.func.value), how, base.args[0] if base.args else None, n.args[0] if n.args else None)
    return out


def run(ck):
    m = ck.repo.mod(REL)
    meths = m.methods(CLS)
    init = meths.get("__init__")
    ck.need(init is not None, "LocationDB.__init__ vanished")
    declared = set()
    for n in walk_body(init):
        if isinstance(n, ast.Assign):
            for t in n.targets:
                d = dotted(t)
                if d and d.startswith("self."):
                    declared.add(d[5:])
    for t in TABLES:
        ck.need(t in declared, "LocationDB table %s no longer created in __init__" % t)

    ck.rule("R1", "a value flowing into a table access or getter has the table's key kind", floor=25)
    ck.rule("R2", "the result of a method that returns no value is never used", floor=3)
    ck.rule("R3", "a path writing one direction of an association writes the other with mirrored key and value", floor=6)
    ck.rule("R4", "no table write precedes a possible rejection (raise, or call of a rejecting method)", floor=4)
    ck.rule("R5", "merge hands every foreign offset and every foreign name to the adding APIs", floor=1)
    ck.rule("R6", "the uniqueness guard dominates the write of a name / offset association", floor=1)

    # which methods return a value / raise / write
    returns_value = {}
    raises = {}
    writes = {}
    for name, fn in meths.items():
        returns_value[name] = any(isinstance(n, ast.Return) and n.value is not None and
                                  not (isinstance(n.value, ast.Constant) and n.value.value is None)
                                  for n in walk_body(fn)) or any(isinstance(n, (ast.Yield, ast.YieldFrom)) for n in walk_body(fn))
        raises[name] = any(isinstance(n, ast.Raise) for n in walk_body(fn))
        writes[name] = bool(_writes(ast.Module(body=fn.body, type_ignores=[])))
    changed = True
    while changed:
        changed = False
        for name, fn in meths.items():
            for c in [x for x in walk_body(fn) if isinstance(x, ast.Call)]:
                d = dotted(c.func)
                if d and d.startswith("self.") and d[5:] in meths:
                    callee = d[5:]
                    if writes[callee] and not writes[name]:
                        writes[name] = True
                        changed = True
                    if raises[callee] and not raises[name]:
                        raises[name] = True
                        changed = True

    # ------------------------------------------------------------- R1 key kinds
    for name, fn in sorted(meths.items()):
        kinds = _name_kinds(fn)
        for n in walk_body(fn):
            tab = key = None
            if isinstance(n, ast.Subscript) and _table_of(n.value):
                tab, key = _table_of(n.value), n.slice
                want = TABLES[tab][0]
            elif isinstance(n, ast.Call) and isinstance(n.func, ast.Attribute) and _table_of(n.func.value) and \
                    n.func.attr in ("get", "pop", "setdefault") and n.args:
                tab, key = _table_of(n.func.value), n.args[0]
                want = TABLES[tab][0]
            elif isinstance(n, ast.Call) and dotted(n.func) and dotted(n.func).startswith("self.") and \
                    dotted(n.func)[5:] in GETTERS and n.args:
                tab, key = dotted(n.func)[5:], n.args[0]
                want = GETTERS[tab]
            elif isinstance(n, ast.Compare) and len(n.ops) == 1 and isinstance(n.ops[0], (ast.In, ast.NotIn)) and \
                    _table_of(n.comparators[0]):
                tab, key = _table_of(n.comparators[0]), n.left
                want = TABLES[tab][0]
            if tab is None:
                continue
            got = _kind_of(key, kinds)
            cons = "%s:%s" % (name, norm(n) if isinstance(n, ast.Call) else "%s[%s]" % (tab, norm(key)))
            if (name, norm(n)) in EXEMPT_KIND:
                ck.note("R1 exempt %s: %s" % (cons, EXEMPT_KIND[(name, norm(n))]))
                continue
            if got is None or got == "mixed":
                ck.undet("R1", cons, "kind of `%s` unknown" % norm(key))
                ck.ob("R1", cons, True, m.where(n), "")
                continue
            ck.ob("R1", cons, got == want, m.where(n),
                  "`%s` has kind %s but %s is keyed by %s: the lookup can never find the intended entry"
                  % (norm(key), got, tab, want))

    # ------------------------------------------------------------- R2 void results used
    for name, fn in sorted(meths.items()):
        for n in walk_body(fn):
            val = None
            if isinstance(n, ast.Return) and n.value is not None:
                val = n.value
            elif isinstance(n, ast.Assign):
                val = n.value
            if isinstance(val, ast.Call):
                d = dotted(val.func)
                if d and d.startswith("self.") and d[5:] in meths:
                    callee = d[5:]
                    if meths[callee].decorator_list:
                        continue
                    ck.ob("R2", "%s:%s" % (name, norm(val).split("(")[0]), returns_value[callee], m.where(n),
                          "`%s` uses the result of %s(), which has no `return <value>`: the caller gets None "
                          "instead of the location" % (norm(n).split("\n")[0][:80], callee))

    # ------------------------------------------------------------- R3 paired updates, per path
    for name, fn in sorted(meths.items()):
        if name in ("__init__",):
            continue
        body_w = _writes(ast.Module(body=fn.body, type_ignores=[]))
        if not body_w:
            continue
        cfg = CFG(fn)

        def node_writes(nd):
            ws = set()
            if nd.kind == "for":
                # hoist the writes of the loop body to its header (the zero-iteration path is not a
                # pairing violation: nothing is written on it for the iterated collection)
                for st in nd.ast.body:
                    ws |= set((t, h) for t, lst in _writes(st).items() for (h, _k, _v) in lst)
                return ws
            for e in node_exprs(nd):
                ws |= set((t, h) for t, lst in _writes(e).items() for (h, _k, _v) in lst)
            return ws

        def flow(nd, st):
            ws = node_writes(nd)
            if not ws:
                return st
            return frozenset(s | frozenset(ws) for s in st)
        IN, _ = cfg.forward(frozenset([frozenset()]), flow, lambda a, b: a | b)
        at_exit = IN.get(cfg.exit.id, frozenset())
        for (a, b) in PAIRS:
            if a not in body_w and b not in body_w:
                continue
            bad = []
            for s in at_exit:
                for how in ("set", "del"):
                    if ((a, how) in s) != ((b, how) in s):
                        bad.append(sorted(s))
            ck.ob("R3", "%s:%s<->%s" % (name, a, b), not bad, m.where(fn),
                  "a path through %s updates only one of %s / %s: %s" % (name, a, b, bad[:2]))
        # mirrored key/value for direct stores
        for (a, b) in PAIRS:
            sa_ = [(k, v) for (h, k, v) in body_w.get(a, []) if h == "set"]
            sb_ = [(k, v) for (h, k, v) in body_w.get(b, []) if h == "set"]
            if sa_ and sb_:
                ok = False
                for (k1, v1) in sa_:
                    for (k2, v2) in sb_:
                        if k1 is None or k2 is None or v1 is None or v2 is None:
                            continue
                        n1 = set([norm(x) for x in walk_local(v1) if isinstance(x, ast.Name)]) | set([norm(v1)])
                        n2 = set([norm(x) for x in walk_local(v2) if isinstance(x, ast.Name)]) | set([norm(v2)])
                        if norm(k1) in n2 and norm(k2) in n1:
                            ok = True
                ck.ob("R3", "%s:mirror:%s<->%s" % (name, a, b), ok, m.where(fn),
                      "stores into %s and %s are not mirror images (key of one is not the value of the other)" % (a, b))

    # ------------------------------------------------------------- R4 reject before mutate
    for name, fn in sorted(meths.items()):
        if not writes[name] or name == "__init__":
            continue
        if any(isinstance(c, ast.Call) and dotted(c.func) == "warnings.warn" and c.args and
               "eprecated" in norm(c.args[0]) for c in walk_body(fn)):
            ck.note("R4 skips deprecated compatibility shim %s" % name)
            continue
        cfg = CFG(fn)

        def is_w(nd):
            if nd.kind == "for":
                return False
            for e in node_exprs(nd):
                if _writes(e):
                    return True
                for c in [x for x in walk_local(e) if isinstance(x, ast.Call)]:
                    d = dotted(c.func)
                    if d and d.startswith("self.") and d[5:] in meths and writes[d[5:]]:
                        return True
                    if d in ("self._loc_keys.add", "self._loc_keys.remove", "self._loc_keys.discard"):
                        return True
            return False

        def is_x(nd):
            if nd.kind == "stmt" and isinstance(nd.ast, ast.Raise):
                return True
            for c in node_calls(nd):
                d = dotted(c.func)
                if d and d.startswith("self.") and d[5:] in meths and raises[d[5:]] and writes[d[5:]]:
                    return True
            return False
        wn = [nd for nd in cfg.nodes if is_w(nd)]
        xn = [nd for nd in cfg.nodes if is_x(nd)]
        bad = None
        for w in wn:
            for x in xn:
                if cfg.can_reach(w.id, x.id):
                    bad = (w, x)
        ck.ob("R4", name, bad is None, m.where(fn),
              "" if bad is None else "`%s` changes the database and `%s` can still reject afterwards: a rejected "
              "operation leaves a partial change" % (norm(bad[0].ast).split("\n")[0][:70], norm(bad[1].ast).split("\n")[0][:70]))

    # ------------------------------------------------------------- R5 merge completeness
    fn = meths.get("merge")
    ck.need(fn is not None, "LocationDB.merge vanished")
    res = Resolver(fn)
    other = fn.args.args[1].arg
    loops = [n for n in walk_body(fn) if isinstance(n, ast.For)]
    outer = [l for l in loops if other in norm(l.iter) and "loc_key" in norm(l.iter)]
    ck.need(outer, "merge: loop over the foreign locations not found")
    outer = outer[0]
    fk = norm(outer.target)
    addc = [c for c in walk_local(outer) if isinstance(c, ast.Call) and dotted(c.func) == "self.add_location"]
    ok = False
    if addc:
        kw = dict((k.arg, res.expand(k.value)) for k in addc[0].keywords)
        ok = kw.get("offset") == "%s.get_location_offset(%s)" % (other, fk)
        # non-strict so that an already known offset/name is merged instead of refused
        strict = [k for k in addc[0].keywords if k.arg == "strict"]
        ok = ok and bool(strict) and isinstance(strict[0].value, ast.Constant) and strict[0].value.value is False
    ck.ob("R5", "merge:offset", ok, m.where(outer), "the foreign location's offset is not passed to add_location(strict=False)")
    ok = False
    for l in walk_local(outer):
        if isinstance(l, ast.For) and l is not outer and res.expand(l.iter) == "%s.get_location_names(%s)" % (other, fk):
            for c in walk_local(l):
                if isinstance(c, ast.Call) and dotted(c.func) == "self.add_location_name":
                    args = [norm(a) for a in c.args] + [norm(k.value) for k in c.keywords]
                    if norm(l.target) in args:
                        ok = True
    ck.ob("R5", "merge:names", ok, m.where(outer), "not every foreign name is passed to add_location_name")

    # ------------------------------------------------------------- R6 uniqueness guards
    def guard_rule(mname, table, key_param, getter_forms):
        fn = meths.get(mname)
        ck.need(fn is not None, "LocationDB.%s vanished" % mname)
        cfg = CFG(fn)
        res = Resolver(fn)
        facts = guard_facts(cfg)
        stores = [nd for nd in cfg.nodes if nd.kind == "stmt" and table in _writes(nd.ast) and
                  any(h == "set" for (h, _k, _v) in _writes(nd.ast)[table])]
        ck.need(stores, "%s: store into %s not found" % (mname, table))
        # variable holding the present owner
        owners = [n for n, defs in res.defs.items() if any(d is not None and norm(d) in getter_forms for d in defs)]
        ok = False
        for nd in stores:
            f = facts.get(nd.id, frozenset())
            for o in owners:
                # accepted: owner is None, or owner == loc_key (guard `o is not None and o != loc_key` false)
                # the false edge of a conjunction gives no atomic fact; look for a dominating test
                # whose true branch raises instead
                for did in cfg.dominators().get(nd.id, ()):
                    dn = cfg.nodes[did]
                    if dn.kind == "test" and o in norm(dn.ast) and ("!=" in norm(dn.ast) or "is not None" in norm(dn.ast) or "is None" in norm(dn.ast)):
                        ok = True
                if ("cmp", o, "is", "None") in f:
                    ok = True
        # and a raise must exist that is controlled by the owner test
        rz = [nd for nd in cfg.nodes if nd.kind == "stmt" and isinstance(nd.ast, ast.Raise)]
        ctrl = False
        for r in rz:
            for did in cfg.dominators().get(r.id, ()):
                dn = cfg.nodes[did]
                if dn.kind == "test" and any(o in norm(dn.ast) for o in owners) and "!=" in norm(dn.ast):
                    ctrl = True
        ck.ob("R6", mname, ok and ctrl, m.where(fn),
              "the store into %s is not dominated by a test of the present owner (%s) that rejects a different location"
              % (table, owners or getter_forms))
    guard_rule("add_location_name", "_name_to_loc_key", "name",
               ["self._name_to_loc_key.get(name)", "self.get_name_location(name)"])
    guard_rule("set_location_offset", "_offset_to_loc_key", "offset",
               ["self._offset_to_loc_key.get(offset)", "self.get_offset_location(offset)"])
    # add_location: a brand new LocKey is created only when neither the name nor the offset is known
    fn = meths.get("add_location")
    ck.need(fn is not None, "LocationDB.add_location vanished")
    cfg = CFG(fn)
    res = Resolver(fn)
    facts = guard_facts(cfg)
    own_n = [n for n, defs in res.defs.items() if any(d is not None and norm(d) == "self.get_name_location(name)" for d in defs)]
    own_o = [n for n, defs in res.defs.items() if any(d is not None and norm(d) == "self.get_offset_location(offset)" for d in defs)]
    ck.need(own_n and own_o, "add_location: collision lookups not found")
    news = [nd for nd in cfg.nodes if any(callee_attr(c) == "LocKey" for c in node_calls(nd))]
    ck.need(news, "add_location: creation of the new LocKey not found")
    for nd in news:
        f = facts.get(nd.id, frozenset())
        ok = all(("cmp", o, "is", "None") in f for o in own_n + own_o)
        ck.ob("R6", "add_location:new", ok, m.where(nd.ast),
              "a new location can be created although the name or the offset already belongs to one (facts: %s)"
              % sorted(x for x in f if x[0] == "cmp"))
