"""C49 - a faulting instruction has no effect and leaves PC on it.

 R1 phase order per assignment block in all three back ends: evaluate sources and prefetch reads ->
    test the memory fault flag (when the block reads) -> commit memory writes -> test again (when it
    writes) -> commit registers -> test CPU exceptions; results are computed into temporaries, never
    directly into registers
 R2 fault exit: the fault branch sets PC to the *instruction's* offset, reports the exception status and
    leaves the block - in all three back ends
 R3 the restricted fault test is (flags & ~EXCEPT_CODE_AUTOMOD) & EXCEPT_DO_NOT_UPDATE_PC in all three, and
    EXCEPT_ACCESS_VIOL carries the DO_NOT_UPDATE_PC bit on the Python and the C side; an unmapped or
    non-permitted emulated access raises EXCEPT_ACCESS_VIOL
 R4 the per-block attributes that decide whether a fault test is emitted at all over-approximate: mem_write
    is true for every block with a memory destination, mem_read for every block whose read set (memory
    included) contains a memory cell; no conjunct or comprehension filter narrows them; the per-instruction
    attributes accumulate them with |=; nothing else writes them
"""
import ast
import re

from sa import cast
from sa.repo import AnalysisError
from sa.astutil import walk_body, walk_local, dotted, norm, callee_attr
from sa.cfg import CFG, node_calls, node_exprs
from sa.csts import py_constants, c_constants
from sa.phases import find_events, order_violations

CG = "miasm/jitter/codegen.py"
LL = "miasm/jitter/llvmconvert.py"
JP = "miasm/jitter/jitcore_python.py"
LEVEL_TEXT = ("Ordering rules read from the CFG of the code generators (emitted segments for C, builder calls for "
              "LLVM, direct calls for Python), template rules for the fault exit and the flag mask, constant agreement "
              "between csts.py and vm_mngr.h. The attributes that switch the fault tests on are shown to over-approximate the memory accesses of the block. Decides that the commit/test phases cannot be reordered or skipped and that the fault "
              "exit restores PC; does not execute any instruction.")
LEVEL_TEXT += " The C back end's phase order is decided on the sequence of segments gen_c_code emits (partial evaluation) for the 8 combinations reads/writes/exception."
ASSUMPTIONS = ["CPython ast; clang macro table", "the LLVM back end is read, never run", "no subclass overrides the phase "
               "methods of CGen (re-checked on every run over miasm/arch/*/jit.py)"]


def _emits(nd, name):
    """`out += <name>` / out.extend(name) at a CFG node."""
    a = nd.ast
    if nd.kind != "stmt":
        return False
    if isinstance(a, ast.AugAssign) and isinstance(a.op, ast.Add) and norm(a.target) == "out" and norm(a.value) == name:
        return True
    if isinstance(a, ast.Expr) and isinstance(a.value, ast.Call) and dotted(a.value.func) == "out.extend" and norm(a.value.args[0]) == name:
        return True
    return False


def _dominating_tests(cfg, nd):
    """Syntactic guards: tests of the if/while statements enclosing the node's statement (the generators are
    written with plain nesting; a dominating but already-joined test is not a guard)."""
    out = []
    a = nd.ast
    p = getattr(a, "_parent", None)
    while p is not None and not isinstance(p, (ast.FunctionDef, ast.Module)):
        if isinstance(p, (ast.If, ast.While)):
            out.append(norm(p.test))
        p = getattr(p, "_parent", None)
    return out


def run(ck):
    ck.rule("R1", "phase order evaluate -> test(read) -> commit memory -> test(write) -> commit registers -> test(cpu) per back end", floor=7)
    ck.rule("R2", "the fault branch restores PC to the instruction's offset, reports the exception and leaves", floor=3)
    ck.rule("R3", "restricted fault mask and constants agree across back ends and with vm_mngr.h", floor=4)

    cg = ck.repo.mod(CG)
    # --------------------------------------------------------------- R1: C back end
    fn = cg.func("CGen.gen_c_code")
    cfg = CFG(fn)
    tup = [n for n in walk_body(fn) if isinstance(n, ast.Assign) and isinstance(n.targets[0], ast.Tuple) and norm(n.value) == "c_assignmnts"]
    ck.need(tup, "CGen.gen_c_code: unpacking of c_assignmnts not found")
    names = [norm(e) for e in tup[0].targets[0].elts]
    ck.need(len(names) == 5, "CGen.gen_c_code: expected 5 segments")
    n_prefetch, n_var, n_main, n_mem, n_updt = names
    # the producer must return them in the same order
    prod = cg.func("CGen.gen_c_assignments")
    rets = [n for n in walk_body(prod) if isinstance(n, ast.Return) and isinstance(n.value, ast.Tuple)]
    ck.ob("R1", "CGen.gen_c_assignments:segment-order", bool(rets) and [norm(e) for e in rets[0].value.elts] == ["c_prefetch", "c_var", "c_main", "c_mem", "c_updt"]
          and names == ["c_prefetch", "c_var", "c_main", "c_mem", "c_updt"], cg.where(prod),
          "segments are returned as %s and unpacked as %s" % ([norm(e) for e in rets[0].value.elts] if rets else None, names))

    # the emitted sequence itself (partial evaluation of the generator, sa/transterm.cgen_sequence), for the 8 combinations of
    # "has memory reads" x "has memory writes" x "may set an exception flag": whatever the layout of gen_c_code (tests hoisted,
    # conditional expressions, helper lists), the C it returns must go  reads, evaluation, [fault test], memory commit, [fault test],
    # register commit, [cpu exception test]
    from sa.transterm import cgen_sequence
    from sa.peval import Undetermined as _Und, UnboundLocal as _Unb
    missing, bad, cond = set(), [], set()
    for hp in (False, True):
        for mw in (False, True):
            for se in (False, True):
                try:
                    sq = cgen_sequence(ck.repo, hp, mw, se)
                except _Unb as e:
                    bad.append("gen_c_code fails for reads=%s writes=%s exc=%s: %s" % (hp, mw, se, e))
                    continue
                except _Und as e:
                    raise AnalysisError("CGen.gen_c_code: construct not understood by the partial evaluator (%s)" % e)
                cfgname = "reads=%s writes=%s exc=%s" % (hp, mw, se)
                pos = dict((k, [i_ for i_, x in enumerate(sq) if x == "<%s>" % k]) for k in ("prefetch", "main", "mem", "updt", "check_mem", "check_cpu"))
                for k in ("main", "mem", "updt") + (("prefetch",) if hp else ()):
                    if len(pos[k]) != 1:
                        (missing if not pos[k] else cond).add(k)
                if any(len(pos[k]) != 1 for k in ("main", "mem", "updt")) or (hp and len(pos["prefetch"]) != 1):
                    continue
                pm, pc, pu = pos["main"][0], pos["mem"][0], pos["updt"][0]
                if hp and not pos["prefetch"][0] < pm:
                    bad.append("%s: memory reads emitted after the evaluation" % cfgname)
                if not pm < pc < pu:
                    bad.append("%s: evaluation / memory commit / register commit emitted as %s" % (cfgname, sq))
                if hp and not any(pm < x < pc for x in pos["check_mem"]):
                    bad.append("%s: no fault test between the evaluation and the memory commit (%s)" % (cfgname, sq))
                if mw and not any(pc < x < pu for x in pos["check_mem"]):
                    bad.append("%s: no fault test between the memory commit and the register commit (%s)" % (cfgname, sq))
                if se and not any(x > pu for x in pos["check_cpu"]):
                    bad.append("%s: no cpu exception test after the register commit (%s)" % (cfgname, sq))
    ck.ob("R1", "CGen.gen_c_code:phases-present", not missing, cg.where(fn), "phases not emitted: %s" % sorted(missing))
    ck.ob("R1", "CGen.gen_c_code:phase-order", not bad, cg.where(fn), "phase order broken: %s" % bad[:3])
    for k, nm in (("mem", "commit_mem"), ("updt", "commit_regs"), ("main", "eval")):
        ck.ob("R1", "CGen.gen_c_code:%s-unconditional" % nm, k not in cond and k not in missing, cg.where(fn), "%s is not emitted exactly once in every configuration" % nm)
    # temporaries: register results are computed into new_dst in c_main and copied in c_updt
    ok_main = ok_updt = False
    for n in walk_body(prod):
        if isinstance(n, ast.Call) and dotted(n.func) == "c_main.append" and n.args:
            a = n.args[0]
            if isinstance(a, ast.BinOp) and isinstance(a.op, ast.Mod):
                first = a.right.elts[0] if isinstance(a.right, ast.Tuple) else a.right
                if norm(first) == "self.id_to_c(new_dst)":
                    ok_main = True
                else:
                    ok_main = False
                    break
    for n in walk_body(prod):
        if isinstance(n, ast.Call) and dotted(n.func) == "c_updt.append" and n.args:
            a = n.args[0]
            if isinstance(a, ast.BinOp) and isinstance(a.op, ast.Mod) and isinstance(a.right, ast.Tuple):
                ok_updt = [norm(e) for e in a.right.elts] == ["self.id_to_c(dst)", "self.id_to_c(new_dst)"]
    ck.ob("R1", "CGen.gen_c_assignments:temporaries", ok_main and ok_updt, cg.where(prod),
          "register results must be computed into temporaries (c_main) and copied to registers only in c_updt")
    # memory stores go to c_mem only
    stores = [n for n in walk_body(prod) if isinstance(n, ast.Call) and isinstance(n.func, ast.Attribute) and n.func.attr == "append"
              and n.args and ("MEM_WRITE" in norm(n.args[0]))]
    ok = bool(stores) and all(dotted(n.func) == "c_mem.append" for n in stores)
    ck.ob("R1", "CGen.gen_c_assignments:stores-in-c_mem", ok, cg.where(prod), "a memory store is emitted outside the memory-commit segment")
    # no subclass overrides the phase methods
    over = []
    for rel in ck.repo.pyfiles("miasm"):
        if not rel.endswith("jit.py") and "jitter" not in rel:
            continue
        m2 = ck.repo.mod(rel)
        for cname, c in m2.classes.items():
            if any((isinstance(b, ast.Name) and b.id == "CGen") or (isinstance(b, ast.Attribute) and b.attr == "CGen") for b in c.bases):
                for st in c.body:
                    if isinstance(st, ast.FunctionDef) and st.name in ("gen_c_code", "gen_c_assignments", "gen_check_memory_exception", "gen_irblock"):
                        over.append("%s.%s" % (cname, st.name))
    ck.ob("R1", "CGen:no-override", not over, CG, "subclasses override phase methods: %s" % over)

    # --------------------------------------------------------------- R1: LLVM back end
    ll = ck.repo.mod(LL)
    fn = ll.func("LLVMFunction.gen_irblock")
    loops = [n for n in walk_body(fn) if isinstance(n, ast.For) and "enumerate(irblock)" in norm(n.iter)]
    ck.need(loops, "LLVMFunction.gen_irblock: loop over assignment blocks not found")
    cfg = CFG(loops[0].body)

    def commit(is_mem):
        def p(nd):
            if nd.kind != "for":
                return False
            body = ast.Module(body=nd.ast.body, type_ignores=[])
            if not any(isinstance(c, ast.Call) and dotted(c.func) == "self.assign" for c in walk_local(body)):
                return False
            ifs = [s for s in nd.ast.body if isinstance(s, ast.If)]
            if not ifs:
                return False
            t = ifs[0].test
            neg = isinstance(t, ast.UnaryOp) and isinstance(t.op, ast.Not)
            core = t.operand if neg else t
            if "ExprMem" not in norm(core):
                return False
            return (not neg) == is_mem
        return p

    def lchk(kind):
        def p(nd):
            if not any(dotted(c.func) == "self.check_memory_exception" for c in node_calls(nd)):
                return False
            tests = " ".join(_dominating_tests(cfg, nd))
            return ("mem_read" in tests) if kind == "read" else ("mem_write" in tests)
        return p
    preds = {
        "prefetch": lambda nd: nd.kind == "for" and "get_r(mem_read=True)" in norm(nd.ast.iter),
        "eval": lambda nd: nd.kind == "for" and any(isinstance(s, ast.Assign) and "values[" in norm(s.targets[0]) and "self.add_ir" in norm(s.value)
                                                     for s in walk_local(ast.Module(body=nd.ast.body, type_ignores=[]))),
        "test_read": lchk("read"),
        "commit_mem": commit(True),
        "test_write": lchk("write"),
        "commit_regs": commit(False),
        "test_cpu": lambda nd: any(dotted(c.func) == "self.check_cpu_exception" for c in node_calls(nd)),
    }
    seq = ["prefetch", "eval", "test_read", "commit_mem", "test_write", "commit_regs", "test_cpu"]
    ev = find_events(cfg, preds)
    missing = [k for k in seq if not ev[k]]
    bad = order_violations(cfg, ev, seq)
    ck.ob("R1", "LLVMFunction.gen_irblock:phases-present", not missing, ll.where(fn), "phases not found: %s" % missing)
    ck.ob("R1", "LLVMFunction.gen_irblock:phase-order", not bad, ll.where(fn),
          "phase order broken: %s" % ["%s must precede %s" % (a, b) for (a, b, _x, _y) in bad[:3]])
    restricted = all("restricted_exception=True" in norm(c) for nd in cfg.nodes for c in node_calls(nd)
                     if dotted(c.func) in ("self.check_memory_exception", "self.check_cpu_exception"))
    ck.ob("R1", "LLVMFunction.gen_irblock:restricted-tests", restricted, ll.where(fn),
          "in-instruction tests must be the restricted ones (exceptions that do not update PC)")

    # --------------------------------------------------------------- R1: Python back end
    jp = ck.repo.mod(JP)
    fn = jp.func("JitCore_Python.add_block.myfunc")
    loops = [n for n in walk_body(fn) if isinstance(n, ast.For) and "enumerate(irblock)" in norm(n.iter)]
    ck.need(loops, "JitCore_Python.myfunc: loop over assignment blocks not found")
    cfg = CFG(loops[0].body)
    preds = {
        "eval_commit_engine": lambda nd: any(dotted(c.func) == "exec_engine.eval_updt_assignblk" for c in node_calls(nd)),
        "test_mem": lambda nd: nd.kind == "test" and "vmmngr.get_exception()" in norm(nd.ast),
        "commit_regs": lambda nd: any(dotted(c.func) == "exec_engine.update_cpu_from_engine" for c in node_calls(nd)),
        "test_cpu": lambda nd: nd.kind == "test" and "cpu.get_exception()" in norm(nd.ast),
    }
    pseq = ["eval_commit_engine", "test_mem", "commit_regs", "test_cpu"]
    ev = find_events(cfg, preds)
    missing = [k for k in pseq if not ev[k]]
    bad = order_violations(cfg, ev, pseq)
    ck.ob("R1", "JitCore_Python.myfunc:phases-present", not missing, jp.where(fn), "phases not found: %s" % missing)
    ck.ob("R1", "JitCore_Python.myfunc:phase-order", not bad, jp.where(fn),
          "phase order broken: %s" % ["%s must precede %s" % (a, b) for (a, b, _x, _y) in bad[:3]])
    # --------------------------------------------------------------- R2 fault exits
    tpl = _class_const(cg, "CGen", "CODE_EXCEPTION_MEM_AT_INSTR")
    ck.need(tpl is not None, "CGen.CODE_EXCEPTION_MEM_AT_INSTR vanished")
    body = re.search(r"\{(.*)\}", tpl, re.S)
    ok = body is not None and re.search(r"%s\s*=\s*%s\s*;", body.group(1)) is not None and "BlockDst->address" in body.group(1) \
        and "return JIT_RET_EXCEPTION" in body.group(1)
    ck.ob("R2", "CGen.CODE_EXCEPTION_MEM_AT_INSTR:exit", ok, CG, "the C fault branch must set PC, BlockDst->address and return JIT_RET_EXCEPTION")
    fn = cg.func("CGen.gen_check_memory_exception")
    res = [n for n in walk_body(fn) if isinstance(n, ast.BinOp) and isinstance(n.op, ast.Mod) and "CODE_EXCEPTION_MEM_AT_INSTR" in norm(n.left)]
    from sa.astutil import Resolver as _Rs
    _rs = _Rs(fn)
    ok = bool(res) and isinstance(res[0].right, ast.Tuple) and norm(res[0].right.elts[0]) == "self.C_PC" and len(res[0].right.elts) >= 2 and \
        all(norm(_rs.expand_node(e)) == "self.dst_to_c(%s)" % fn.args.args[1].arg for e in res[0].right.elts[1:])
    ck.ob("R2", "CGen.gen_check_memory_exception:pc-value", ok, cg.where(fn), "PC is not set to the address handed to the fault check")
    fn = cg.func("CGen.gen_c_code")
    calls = [c for c in walk_body(fn) if isinstance(c, ast.Call) and dotted(c.func) in ("self.gen_check_memory_exception", "self.gen_check_cpu_exception")]
    ok = bool(calls) and all(len(c.args) == 1 and norm(c.args[0]) == "attrib.instr.offset" for c in calls)
    ck.ob("R2", "CGen.gen_c_code:fault-address", ok, cg.where(fn), "in-instruction fault checks must report the instruction's own offset")
    for mname in ("check_memory_exception", "check_cpu_exception"):
        fn = ll.func("LLVMFunction.%s" % mname)
        off = fn.args.args[1].arg
        cs = [norm(c) for c in walk_body(fn) if isinstance(c, ast.Call)]
        ok = ("self.assign(%s, PC)" % off) in cs and ("self.set_ret(%s)" % off) in cs and any(
            c.startswith("self.assign(self.add_ir(ExprInt(1, 8)), ExprId('status'") for c in cs)
        ck.ob("R2", "LLVMFunction.%s:exit" % mname, ok, ll.where(fn),
              "the LLVM fault branch must assign the offset to PC, set status to 1 and return the offset")
    fn = ll.func("LLVMFunction.gen_irblock")
    calls = [c for c in walk_body(fn) if isinstance(c, ast.Call) and dotted(c.func) in ("self.check_memory_exception", "self.check_cpu_exception")]
    ok = bool(calls) and all(c.args and norm(c.args[0]) == "instr.offset" for c in calls)
    ck.ob("R2", "LLVMFunction.gen_irblock:fault-address", ok, ll.where(fn), "in-instruction fault checks must report the instruction's own offset")
    from sa.prenorm import normalise_function
    from sa.astutil import Resolver as _Res
    from sa.pathob import undischarged as _und, path_text as _pt
    fn = normalise_function(jp.func("JitCore_Python.add_block.myfunc"))
    outer = jp.func("JitCore_Python.add_block")
    res_in, res_out = _Res(fn), _Res(outer)

    def _expand2(e):
        """locals of myfunc, then names captured from the enclosing add_block"""
        e = res_in.expand_node(e)
        return res_out.expand_node(e)

    def _mask_parts(e):
        e = _expand2(e)
        parts = []

        def flat(n):
            if isinstance(n, ast.BinOp) and isinstance(n.op, ast.BitAnd):
                flat(n.left)
                flat(n.right)
            else:
                parts.append(norm(n).replace("csts.", "").replace("m2_csts.", "").replace(" ", ""))
        flat(e)
        return sorted(parts)
    cfg = CFG(fn)
    py_mask_ok = False
    n_t = 0
    ok = True
    for nd in cfg.nodes:
        if nd.kind != "test":
            continue
        t = _expand2(nd.ast)
        txt = norm(t)
        is_mem = "vmmngr.get_exception()" in txt and isinstance(t, (ast.BinOp, ast.Compare))
        is_cpu = "EXCEPT_NUM_UPDT_EIP" in txt
        if not (is_mem or is_cpu):
            continue
        if is_mem:
            core = t
            if isinstance(core, ast.Compare) and len(core.ops) == 1 and isinstance(core.ops[0], ast.NotEq) and norm(core.comparators[0]) == "0":
                core = core.left
            parts = _mask_parts(core)
            parts = sorted("vmmngr.get_exception()" if x.endswith("vmmngr.get_exception()") else x for x in parts)
            if parts == sorted(["vmmngr.get_exception()", "~EXCEPT_CODE_AUTOMOD", "EXCEPT_DO_NOT_UPDATE_PC"]):
                py_mask_ok = True
            else:
                continue
        n_t += 1
        # every path from the fault branch to the exit sets PC to the instruction's offset, and the value returned is that offset
        def sets_pc(n2):
            return any(dotted(c.func) == "update_pc" and c.args and norm(_expand2(c.args[0])) == "instr.offset" for c in node_calls(n2))
        p = _und(cfg, sets_pc, start=(nd.id, True), targets=[cfg.exit.id])
        if p is not None:
            ok = False
        rets_ok = True
        seen, stack = set(), [s_ for (s_, l_) in cfg.succ[nd.id] if l_ is True]
        while stack:
            x = stack.pop()
            if x in seen:
                continue
            seen.add(x)
            n2 = cfg.nodes[x]
            if n2.kind == "stmt" and isinstance(n2.ast, ast.Return):
                if n2.ast.value is None or norm(_expand2(n2.ast.value)) != "instr.offset":
                    rets_ok = False
                continue
            if n2.kind in ("for", "loop"):
                continue
            stack.extend(s_ for (s_, _l) in cfg.succ[x])
        ok = ok and rets_ok
    ck.ob("R2", "JitCore_Python.myfunc:fault-exit", ok and n_t >= 2, jp.where(fn),
          "the Python fault branches must set PC to instr.offset and return it")
    _py_mask_ok = py_mask_ok

    # --------------------------------------------------------------- R3 mask and constants
    want = "(VM_exception_flag & ~EXCEPT_CODE_AUTOMOD) & EXCEPT_DO_NOT_UPDATE_PC"
    cond = re.search(r"if\s*\((.*)\)\s*\{", tpl)
    ok = cond is not None and re.sub(r"\s+", "", cond.group(1)) in (re.sub(r"\s+", "", want), re.sub(r"\s+", "", "(" + want + ")"),
                                                                    re.sub(r"\s+", "", "VM_exception_flag & ~EXCEPT_CODE_AUTOMOD & EXCEPT_DO_NOT_UPDATE_PC"))
    ck.ob("R3", "C:restricted-mask", ok, CG, "C fault test is `%s`, expected `%s`" % (cond.group(1) if cond else None, want))
    fn = ll.func("LLVMFunction.check_memory_exception")
    ok = any(isinstance(n, ast.Assign) and norm(n.targets[0]) == "flag" and
             norm(n.value).replace("m2_csts.", "") in ("~EXCEPT_CODE_AUTOMOD & EXCEPT_DO_NOT_UPDATE_PC", "EXCEPT_DO_NOT_UPDATE_PC & ~EXCEPT_CODE_AUTOMOD")
             for n in walk_body(fn)) and any(isinstance(c, ast.Call) and dotted(c.func) == "builder.and_" for c in walk_body(fn))
    ck.ob("R3", "LLVM:restricted-mask", ok, ll.where(fn), "LLVM restricted mask is not ~EXCEPT_CODE_AUTOMOD & EXCEPT_DO_NOT_UPDATE_PC")
    fn = jp.func("JitCore_Python.add_block.myfunc")
    ok = _py_mask_ok
    ck.ob("R3", "Python:restricted-mask", ok, jp.where(fn), "Python restricted mask is not ~EXCEPT_CODE_AUTOMOD & EXCEPT_DO_NOT_UPDATE_PC")
    pc = py_constants(ck.repo)
    cc = c_constants(ck.repo)
    for side, tab in (("csts.py", pc), ("vm_mngr.h", cc)):
        ck.need("EXCEPT_ACCESS_VIOL" in tab and "EXCEPT_DO_NOT_UPDATE_PC" in tab, "%s: EXCEPT_ACCESS_VIOL / EXCEPT_DO_NOT_UPDATE_PC missing" % side)
        ok = (tab["EXCEPT_ACCESS_VIOL"] & tab["EXCEPT_DO_NOT_UPDATE_PC"]) != 0 and (tab["EXCEPT_CODE_AUTOMOD"] & tab["EXCEPT_DO_NOT_UPDATE_PC"]) == 0
        ck.ob("R3", "%s:ACCESS_VIOL-has-DO_NOT_UPDATE_PC" % side, ok, side,
              "EXCEPT_ACCESS_VIOL=%#x must contain EXCEPT_DO_NOT_UPDATE_PC=%#x (else a faulting access is not caught by the restricted test)"
              % (tab["EXCEPT_ACCESS_VIOL"], tab["EXCEPT_DO_NOT_UPDATE_PC"]))
    ck.ob("R3", "ACCESS_VIOL:both-sides-equal", pc["EXCEPT_ACCESS_VIOL"] == cc["EXCEPT_ACCESS_VIOL"] and
          pc["EXCEPT_DO_NOT_UPDATE_PC"] == cc["EXCEPT_DO_NOT_UPDATE_PC"] and pc["EXCEPT_CODE_AUTOMOD"] == cc["EXCEPT_CODE_AUTOMOD"], "csts.py",
          "csts.py and vm_mngr.h disagree on the fault constants")
    # the emulated access primitives raise ACCESS_VIOL on an unmapped / non-permitted page
    tu = cast.load(ck.repo, "miasm/jitter/vm_mngr.c")
    av = cc["EXCEPT_ACCESS_VIOL"]
    for fname in ("get_memory_page_from_address", "memory_page_read", "memory_page_write"):
        f = tu.func(fname)
        ok = any(n.get("kind") == "CompoundAssignOperator" and n.get("opcode") == "|=" and "exception_flags" in cast.text_names(n["inner"][0])
                 and cast.const_int(n["inner"][1]) == av for n in cast.walk(f.body))
        ck.ob("R3", "%s:raises-ACCESS_VIOL" % fname, ok, "miasm/jitter/vm_mngr.c", "%s never sets EXCEPT_ACCESS_VIOL" % fname)

    _attr_rules(ck, cg)
    # R5: every byte an emulated access touches is resolved through the faulting page lookup and tested (rules of C24-R1)
    import re as _re
    from rules import c24 as _c24
    tu24 = cast.load(ck.repo, "miasm/jitter/vm_mngr.c")
    ck.rule("R5", "each page an emulated access touches is looked up (faulting when unmapped) and permission-tested before its bytes are used", floor=5)
    reads = sorted(n for n in tu24.funcs if _re.match(r"vm_MEM_LOOKUP_\d+$", n))
    writes = sorted(n for n in tu24.funcs if _re.match(r"vm_MEM_WRITE_\d+$", n))
    _c24.page_pointer_rules(ck, tu24, "R5", _c24._closure(tu24, reads), _c24._closure(tu24, writes), tu24.macro_int("PAGE_READ"), tu24.macro_int("PAGE_WRITE"))
    ck.rule("R6", "a typed access through the page pointer lies inside the page, so an access reaching past a mapped page faults instead of being performed (shared with C24-R7)", floor=1)
    from rules.c24 import typed_access_bound_rules
    typed_access_bound_rules(ck, tu, "R6")


def _is_mem_test(e, var):
    """isinstance(var, ExprMem) / var.is_mem()"""
    if isinstance(e, ast.Call) and dotted(e.func) == "isinstance" and len(e.args) == 2 and norm(e.args[0]) == var:
        t = e.args[1]
        names = [norm(x) for x in t.elts] if isinstance(t, ast.Tuple) else [norm(t)]
        return any(x.split(".")[-1] == "ExprMem" for x in names)
    if isinstance(e, ast.Call) and isinstance(e.func, ast.Attribute) and e.func.attr == "is_mem" and norm(e.func.value) == var:
        return True
    return False


def _covers_mem(e, var):
    """Is `e` true whenever var is an ExprMem?  Accepts the plain test and disjunctions containing it."""
    if _is_mem_test(e, var):
        return True
    if isinstance(e, ast.BoolOp) and isinstance(e.op, ast.Or):
        return any(_covers_mem(v, var) for v in e.values)
    return False


def _enclosing_fors(n):
    out = []
    p = getattr(n, "_parent", None)
    while p is not None and not isinstance(p, (ast.FunctionDef, ast.Module)):
        if isinstance(p, ast.For):
            out.append(p)
        p = getattr(p, "_parent", None)
    return list(reversed(out))      # outermost first


def _covers_all_blocks(ga, acc):
    """Does the accumulation statement `acc` see every Attributes object characterised in get_attributes?"""
    chars = [c for c in walk_body(ga) if isinstance(c, ast.Call) and dotted(c.func) == "self.get_caracteristics" and len(c.args) == 2]
    if not chars:
        return False, "no call of get_caracteristics"
    ch = chars[0]
    obj = norm(ch.args[1])
    ch_loops = _enclosing_fors(ch)
    ac_loops = _enclosing_fors(acc)
    src = norm(acc.value.value)
    if ch_loops and ac_loops and ac_loops[-1] is ch_loops[-1]:
        if src == obj:
            return True, ""
        return False, "it reads `%s`, not the object `%s` just characterised" % (src, obj)
    # separate loop nest: must walk the complete nested collection
    if len(ch_loops) < 2:
        return False, "unexpected loop structure around get_caracteristics"
    inner_list = outer_list = None
    for n in walk_local(ch_loops[-1]):
        if isinstance(n, ast.Call) and isinstance(n.func, ast.Attribute) and n.func.attr == "append" and n.args and norm(n.args[0]) == obj:
            inner_list = norm(n.func.value)
    for n in walk_local(ch_loops[0]):
        if isinstance(n, ast.Call) and isinstance(n.func, ast.Attribute) and n.func.attr == "append" and n.args and inner_list and norm(n.args[0]) == inner_list:
            outer_list = norm(n.func.value)
    if len(ac_loops) >= 2 and outer_list and norm(ac_loops[-2].iter) == outer_list and norm(ac_loops[-1].iter) == norm(ac_loops[-2].target) \
            and norm(ac_loops[-1].target) == src and not any(l in ch_loops for l in ac_loops):
        return True, ""
    if ac_loops and any(l is ch_loops[0] for l in ac_loops) and norm(ac_loops[-1].iter) == inner_list and norm(ac_loops[-1].target) == src:
        return True, ""      # inner re-iteration inside the outer characterisation loop
    it = norm(ac_loops[-1].iter) if ac_loops else "no loop"
    return False, "it iterates `%s`, which holds only the objects of the last IR block" % it if it == inner_list else "it iterates `%s`" % it


def _attr_rules(ck, cg, RID="R4", floor=7):
    from sa.astutil import Resolver
    ck.rule(RID, "mem_read / mem_write / set_exception attributes over-approximate the block's memory accesses and are accumulated over every block of the instruction", floor=floor)
    fn = cg.func("CGen.get_caracteristics")
    res = Resolver(fn)
    params = [a.arg for a in fn.args.args]
    ck.need(len(params) >= 3, "CGen.get_caracteristics: signature changed")
    blk, att = params[1], params[2]
    assigns = {}
    for n in walk_body(fn):
        if isinstance(n, (ast.Assign, ast.AugAssign)):
            tgs = n.targets if isinstance(n, ast.Assign) else [n.target]
            for t in tgs:
                if isinstance(t, ast.Attribute) and norm(t.value) == att:
                    assigns.setdefault(t.attr, []).append(n)
    for flag in ("mem_read", "mem_write", "set_exception"):
        ck.need(flag in assigns, "CGen.get_caracteristics no longer sets %s.%s" % (att, flag))

    def any_gen(flag):
        """(element test, loop variable, iterable) of `att.flag = any(<test> for v in <iter>)`; None when the
        statement has another shape."""
        sts = assigns[flag]
        if len(sts) != 1 or not isinstance(sts[0], ast.Assign):
            return None
        v = sts[0].value
        if not (isinstance(v, ast.Call) and dotted(v.func) == "any" and len(v.args) == 1
                and isinstance(v.args[0], (ast.GeneratorExp, ast.ListComp)) and len(v.args[0].generators) == 1):
            return None
        g = v.args[0].generators[0]
        if not isinstance(g.target, ast.Name):
            return None
        return v.args[0].elt, g.target.id, g.iter, g.ifs

    def unwrap_keys(it):
        # assignblk / assignblk.keys() / viewkeys(assignblk) / iterkeys(assignblk) / list(...)
        while True:
            if isinstance(it, ast.Call) and isinstance(it.func, ast.Attribute) and it.func.attr in ("keys", "iterkeys") and not it.args:
                it = it.func.value
            elif isinstance(it, ast.Call) and dotted(it.func) in ("viewkeys", "iterkeys", "list", "tuple", "set", "sorted") and len(it.args) == 1:
                it = it.args[0]
            else:
                return it

    # mem_write
    g = any_gen("mem_write")
    if g is None:
        ck.undet(RID, "CGen.get_caracteristics:mem_write", "not of the form any(<test> for dst in assignblk)")
        raise AnalysisError("CGen.get_caracteristics: the computation of %s.mem_write has a shape the extractor does not read" % att)
    elt, var, it, ifs = g
    it = unwrap_keys(res.expand_node(it))
    ck.ob(RID, "CGen.get_caracteristics:mem_write:domain", norm(it) == blk and not ifs, cg.where(assigns["mem_write"][0]),
          "mem_write is computed over `%s`%s instead of every destination of the block: a store outside that domain gets "
          "no write-fault test" % (norm(it)[:60], " with filter(s) %s" % [norm(i) for i in ifs] if ifs else ""))
    ck.ob(RID, "CGen.get_caracteristics:mem_write:covers-every-store", _covers_mem(elt, var), cg.where(assigns["mem_write"][0]),
          "mem_write is `%s`: it is not implied by `isinstance(%s, ExprMem)`, so some block storing to memory gets no "
          "fault test between its memory commit and its register commit" % (norm(elt)[:120], var))
    # mem_read
    g = any_gen("mem_read")
    if g is None:
        raise AnalysisError("CGen.get_caracteristics: the computation of %s.mem_read has a shape the extractor does not read" % att)
    elt, var, it, ifs = g
    it = res.expand_node(it)
    dom_ok = isinstance(it, ast.Call) and isinstance(it.func, ast.Attribute) and it.func.attr == "get_r" and norm(it.func.value) == blk \
        and any(k.arg == "mem_read" and isinstance(k.value, ast.Constant) and k.value.value is True for k in it.keywords) and not ifs
    ck.ob(RID, "CGen.get_caracteristics:mem_read:domain", dom_ok, cg.where(assigns["mem_read"][0]),
          "mem_read is computed over `%s`, not over %s.get_r(mem_read=True): memory cells are not part of that read set"
          % (norm(it)[:80], blk))
    ck.ob(RID, "CGen.get_caracteristics:mem_read:covers-every-load", _covers_mem(elt, var), cg.where(assigns["mem_read"][0]),
          "mem_read is `%s`: not implied by `isinstance(%s, ExprMem)`" % (norm(elt)[:120], var))
    # accumulation per instruction
    ga = cg.func("CGen.get_attributes")
    for flag in ("mem_read", "mem_write", "set_exception"):
        acc = [n for n in walk_body(ga) if isinstance(n, ast.AugAssign) and isinstance(n.op, ast.BitOr)
               and isinstance(n.target, ast.Attribute) and n.target.attr == flag
               and isinstance(n.value, ast.Attribute) and n.value.attr == flag]
        ck.ob(RID, "CGen.get_attributes:accumulates:%s" % flag, bool(acc), cg.where(ga),
              "the per-instruction attribute %s is not the union (|=) of the per-block attributes" % flag)
        # ... over EVERY assignment block of EVERY IR block of the instruction
        for a_ in acc:
            cov, why = _covers_all_blocks(ga, a_)
            ck.ob(RID, "CGen.get_attributes:accumulates-every-block:%s" % flag, cov, cg.where(a_),
                  "the union for %s does not range over every assignment block of every IR block of the instruction: %s "
                  "(an x86 string instruction stores in its first IR block and updates pointers in later ones)" % (flag, why))
    # who writes the attributes: Attributes.__init__, get_caracteristics, get_attributes only
    allowed = set(["Attributes.__init__", "CGen.get_caracteristics", "CGen.get_attributes"])
    for rel in ck.repo.pyfiles("miasm/jitter") + ck.repo.pyfiles("miasm/arch"):
        if not (rel.startswith("miasm/jitter/") or rel.endswith("/jit.py")):
            continue
        m = ck.repo.mod(rel)
        for q, f in sorted(m.funcs.items()):
            for n in walk_body(f):
                if isinstance(n, (ast.Assign, ast.AugAssign)):
                    tgs = n.targets if isinstance(n, ast.Assign) else [n.target]
                    for t in tgs:
                        if isinstance(t, ast.Attribute) and t.attr in ("mem_read", "mem_write", "set_exception") and not (rel == CG and q in allowed):
                            ck.ob(RID, "%s:%s:writes-%s" % (rel, q, t.attr), False, m.where(n),
                                  "%s overwrites the attribute %s outside the three functions that compute it" % (q, t.attr))


def _class_const(mod, cls, name):
    for st in mod.cls(cls).body:
        if isinstance(st, ast.Assign) and any(isinstance(t, ast.Name) and t.id == name for t in st.targets):
            if isinstance(st.value, ast.Constant):
                return st.value.value
    return None
