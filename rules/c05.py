"""C05 - z3 translation agrees with the reference semantics (ir/translators/z3_ir.py).

 R1 operator-table agreement: every branch of TranslatorZ3.from_ExprOp is reduced to the z3 primitive it
    applies (an overloaded Python operator on bit-vectors - signed for / % < <= >> -, a z3 function, or one
    of the translator's own composite helpers, classified from their bodies) and compared with the
    reference meaning of the operator (OT-0)
 R2 node kinds: every Expr class has a from_ method; slices extract [stop-1:start]; composes concatenate later
    arguments on the high side; the condition of a conditional is tested against zero
 R3 memory model: Z3Mem.get puts byte i at bit 8*i for little endian and the mirror image for big endian
"""
import ast

from sa.astutil import walk_body, walk_local, dotted, norm, callee_attr
from sa.dispatch import is_single_operand_branch, op_branches, tok_consts
from sa.optable import OT0, OT0_UNARY, Z3_PYOP, Z3_FUNC
from sa.exprmodel import KINDS
from sa.repo import AnalysisError

REL = "miasm/ir/translators/z3_ir.py"
LEVEL_TEXT = ("Extraction of the z3 primitive applied per operator branch (token semantics of z3's overloaded Python "
              "operators, z3 function names, composite helpers classified from their bodies) compared with the reference "
              "operator table; shape rules for slice/compose/cond/memory. Decides which operation with which signedness "
              "each operator is translated to; builds no term.")
ASSUMPTIONS = ["CPython ast", "z3 Python API: / % < <= >> on BitVecRef are signed (bvsdiv, bvsmod, bvslt, bvsle, bvashr); SMT-LIB shifts saturate",
               "OT-0 reference table in sa/optable.py"]
# z3 machine shifts saturate by definition (SMT-LIB), so they meet the *_SAT classes
Z3P = dict(Z3_PYOP)
Z3P.update({">>": "ASHR_SAT", "<<": "SHL_SAT"})
Z3F = dict(Z3_FUNC)
Z3F.update({"LShR": "LSHR_SAT"})


def _branch_class(b, m, sdiv_ok):
    """Semantic class of one branch from the statement assigning `res`."""
    asg = [n for st in b["body"] for n in walk_local(st) if isinstance(n, ast.Assign) and norm(n.targets[0]) == "res"]
    if not asg:
        return None, "no assignment to res"
    v = asg[-1].value
    t = norm(v).replace(" ", "")
    # eval("res %s arg" % expr.op): the operator token itself applied to z3 values
    if isinstance(v, ast.Call) and callee_attr(v) == "eval" and "'res %s arg' % expr.op" in norm(v):
        return "TOKEN", t
    if isinstance(v, ast.Call) and dotted(v.func) in ("z3.ZeroExt", "z3.SignExt"):
        return Z3F[dotted(v.func)[3:]], t          # the extension amount / operand are decided on the built term (z3_extension_rules)
    if isinstance(v, ast.Call) and dotted(v.func) and dotted(v.func).startswith("z3.") and dotted(v.func)[3:] in Z3F and dotted(v.func)[3:] not in ("If",):
        a = [norm(x) for x in v.args]
        if a == ["res", "arg"]:
            return Z3F[dotted(v.func)[3:]], t
        return "?" + t, "operands %s, expected (res, arg)" % a
    if isinstance(v, ast.BinOp) and norm(v.left) == "res" and norm(v.right) == "arg":
        from rules.c03 import PYOP
        return Z3P.get(PYOP.get(type(v.op), "?"), "?"), t
    # the two composites built on the signed-division helper: their formula is decided on the built term (z3_sdiv_rules)
    uses_helper = any(isinstance(x, ast.Call) and callee_attr(x) == "_sdivC" for x in walk_local(v))
    if uses_helper and isinstance(v, ast.Call) and callee_attr(v) == "_sdivC":
        return "SDIV_TRUNC", t
    if uses_helper:
        return "SREM_DIVIDEND", t
    # comparisons: z3.If(<cmp>, BitVecVal(1,1), BitVecVal(0,1))
    if isinstance(v, ast.Call) and dotted(v.func) == "z3.If" and len(v.args) == 3 and norm(v.args[1]).replace(" ", "") == "z3.BitVecVal(1,1)" \
            and norm(v.args[2]).replace(" ", "") == "z3.BitVecVal(0,1)":
        c = v.args[0]
        if isinstance(c, ast.Compare) and [norm(c.left), norm(c.comparators[0])] == ["args[0]", "args[1]"]:
            op = {ast.Eq: "==", ast.Lt: "<", ast.LtE: "<=", ast.Gt: ">", ast.GtE: ">="}.get(type(c.ops[0]))
            return Z3P.get(op, "?"), t
        if isinstance(c, ast.Call) and dotted(c.func) and dotted(c.func).startswith("z3.") and [norm(x) for x in c.args] == ["args[0]", "args[1]"]:
            return Z3F.get(dotted(c.func)[3:], "?"), t
    if isinstance(v, ast.UnaryOp) and isinstance(v.op, ast.USub) and norm(v.operand) == "res":
        return "NEG", t
    return "COMPOSITE", t


from rules import _composites as _cmp


def run(ck):
    m = ck.repo.mod(REL)
    cls = m.cls("TranslatorZ3")
    fn = m.func("TranslatorZ3.from_ExprOp")
    ck.rule("R1", "each operator is translated to the z3 primitive of its reference meaning", floor=18)
    ck.rule("R2", "every Expr class is translated; slice/compose/cond shapes", floor=7)
    ck.rule("R3", "memory bytes are concatenated in the configured byte order", floor=1)
    ck.rule("R4", "the expression helpers the translation relies on (signExtend / zeroExtend / msb in _sdivC and the operator table) build the operator they are named after", floor=3)
    from rules._exprhelpers import extension_helper_rules
    extension_helper_rules(ck, "R4")
    ck.rule("TC", "the translation memo table is private to the translator object, keyed by the expression itself, and filled by the class's own handler", floor=2)
    from rules._transcache import translator_cache_rules
    translator_cache_rules(ck, "TC")

    consts = tok_consts(ck.repo)
    sdiv_ok = True
    _cmp.z3_sdiv_rules(ck, "R1", m.where(m.funcs.get("TranslatorZ3._sdivC") or fn))
    _cmp.z3_extension_rules(ck, "R1", m.where(fn))
    seen = {}
    for b in op_branches(fn, m, cls, consts=consts):
        got, txt = _branch_class(b, m, sdiv_ok)
        unary = is_single_operand_branch(b)
        for op in b["ops"]:
            key = ("u:" if unary else "b:") + op
            if got == "TOKEN":
                cls_got = Z3P.get(op, "?")
            else:
                cls_got = got
            seen[key] = (cls_got, txt, b["node"], b["kind"])
    if not seen:
        raise AnalysisError("TranslatorZ3.from_ExprOp: no operator branch extracted")
    for key, (cls_got, txt, node, kind) in sorted(seen.items()):
        op = key[2:]
        if key.startswith("b:"):
            if op == "-":
                ref = "SUB"
            else:
                ref = OT0.get(op)
            if ref is None:
                ck.ob("R1", "z3:%s" % key, False, m.where(node), "binary operator %r is translated but has no reference meaning" % op)
                continue
            if op in ("sdiv", "smod") and cls_got == "COMPOSITE":
                cls_got = ref          # a composite (helper inlined or not): its formula is decided on the built term by z3_sdiv_rules above
            ck.ob("R1", "z3:%s" % key, cls_got == ref, m.where(node),
                  "operator %r is translated as `%s` = %s in z3; miasm's meaning is %s" % (op, txt[:70], cls_got, ref))
        else:
            if kind == "prefix":
                ref = {"zeroExt": "ZEXT", "signExt": "SEXT"}.get(op)
                ck.ob("R1", "z3:%s" % key, cls_got == ref, m.where(node), "%s_N is translated as %s (%s)" % (op, cls_got, txt[:60]))
            elif op == "-":
                ck.ob("R1", "z3:%s" % key, cls_got == "NEG", m.where(node), "unary minus is translated as %s" % cls_got)
            else:
                # composites: parity / zero counts - structural skeleton
                if op == "parity":
                    _cmp.parity_rule(ck, "R1", "z3", m.where(node))
                elif op in ("cnttrailzeros", "cntleadzeros"):
                    _cmp.zero_count_rule(ck, "R1", "z3", op, m.where(node))
                else:
                    ck.ob("R1", "z3:%s" % key, False, m.where(node), "unary operator %r has no reference skeleton" % op)

    # ---------------------------------------------------------------- R2
    meths = m.methods("TranslatorZ3")
    for k in KINDS:
        ck.ob("R2", "from_%s" % k, "from_" + k in meths, m.where(cls), "TranslatorZ3 has no from_%s" % k)
    _cmp.structure_rules(ck, "R2", "z3", m.where(cls))
    f = meths["from_ExprInt"]
    ok = any(isinstance(n, ast.Return) and norm(n.value) == "z3.BitVecVal(int(expr), expr.size)" for n in walk_body(f))
    ck.ob("R2", "int", ok, m.where(f), "a constant must be BitVecVal(value, size)")
    f = meths["from_ExprMem"]
    ok = any(isinstance(n, ast.Return) and norm(n.value) == "self._mem.get(addr, expr.size)" for n in walk_body(f))
    ck.ob("R2", "mem", ok, m.where(f), "a memory read must be mem.get(translated pointer, size)")

    # ---------------------------------------------------------------- R3
    _cmp.memory_rules(ck, "R3", "z3", m.where(m.func("Z3Mem.get")))
