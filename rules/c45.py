"""C45 - imported functions get distinct, stable stub addresses (jitter/loader/utils.py: libimp).

 R1 bounded bump region: stub addresses are handed out by a cursor advanced by a constant stride inside
    per-library regions spaced by a constant; the allocation must be guarded by a bound test against the
    region's end (otherwise the N-th import of one library lands on the next library's stubs)
 R2 forward and reverse maps are written together on the allocation path, with mirrored key/value
 R3 lookup precedes allocation: a known (library, function) returns its recorded address before the
    cursor is read; a known library name returns its recorded base before a new region is created
 R4 the cursor is advanced on every allocation path (two allocations never return the same address)
"""
import ast

from sa.astutil import walk_body, walk_local, dotted, norm, callee_attr, const_value, cmp_parts
from sa.cfg import CFG, node_calls, node_exprs

REL = "miasm/jitter/loader/utils.py"
LEVEL_TEXT = ("Static rules over libimp: bound test dominating the bump allocation, paired/mirrored map updates on the "
              "allocation path, lookup-before-allocate, cursor progress. Decides these necessary clauses for every import "
              "sequence; resolves no import.")
ASSUMPTIONS = ["CPython ast", "stub addresses come only from libimp.lib_get_add_func (who-calls checked over miasm/jitter/loader)"]


def _aug_const(fn, target_pred):
    out = []
    for n in walk_body(fn):
        if isinstance(n, ast.AugAssign) and isinstance(n.op, ast.Add) and target_pred(norm(n.target)):
            ok, v = const_value(n.value)
            out.append((n, v if ok else None))
    return out


def run(ck):
    m = ck.repo.mod(REL)
    meths = m.methods("libimp")
    ck.rule("R1", "the per-library stub cursor is bounded by the library's region", floor=1)
    ck.rule("R2", "forward and reverse maps are written together on the allocation path, mirrored", floor=2)
    ck.rule("R3", "a recorded address/base is returned before anything is allocated", floor=1)
    ck.rule("R4", "the cursor advances on every allocation", floor=1)
    ck.rule("R5", "the address recorded for a (library, function) key that was not known comes from the cursor only", floor=1)
    _key_rules(ck)

    base_fn = meths.get("lib_get_add_base")
    func_fn = meths.get("lib_get_add_func")
    ck.need(base_fn is not None and func_fn is not None, "libimp.lib_get_add_base / lib_get_add_func vanished")
    # container aliases (tab = self.lib_imp2ad[libad]) and `T = old + c` are brought to one form first (sa/prenorm)
    from sa.prenorm import normalise_function
    base_fn, func_fn = normalise_function(base_fn), normalise_function(func_fn)
    spacing = _aug_const(base_fn, lambda t: t == "self.libbase_ad")
    stride = _aug_const(func_fn, lambda t: t.startswith("self.libbase2lastad["))
    SP = spacing[0][1] if spacing else None
    ST = stride[0][1] if stride else None

    # ---------------------------------------------------------------- R1
    cfg = CFG(func_fn)
    alloc = [nd for nd in cfg.nodes if nd.kind == "stmt" and isinstance(nd.ast, ast.Assign) and
             norm(nd.ast.value).startswith("self.libbase2lastad[")]
    ck.need(alloc, "lib_get_add_func: read of the cursor not found")
    cur = norm(alloc[0].ast.targets[0])
    bounded = False
    for nd in cfg.nodes:
        if nd.kind == "test":
            t = norm(nd.ast)
            if ("libbase2lastad" in t or cur in [x.id for x in ast.walk(nd.ast) if isinstance(x, ast.Name)]) and \
                    any(isinstance(x, ast.Compare) and isinstance(x.ops[0], (ast.Lt, ast.LtE, ast.Gt, ast.GtE)) for x in ast.walk(nd.ast)):
                bounded = True
    # a dynamic layout (regions allocated on demand, or stride*count <= spacing asserted) also counts
    ck.ob("R1", "libimp.lib_get_add_func:region-bound", bounded, m.where(func_fn),
          "stubs advance by %#x inside regions spaced %#x apart with no bound test: after %d imports of one library the next "
          "stub address falls into the following library's region and overwrites its reverse-map entry"
          % (ST or 0, SP or 0, ((SP or 0) - 4) // (ST or 1) + 1))

    # ---------------------------------------------------------------- R2
    stores = {}
    for nd in cfg.nodes:
        if nd.kind == "stmt" and isinstance(nd.ast, ast.Assign):
            for t in nd.ast.targets:
                if isinstance(t, ast.Subscript):
                    base = t.value
                    while isinstance(base, ast.Subscript):
                        base = base.value
                    d = dotted(base)
                    if d and d.startswith("self."):
                        stores.setdefault(d[5:], []).append((nd, t, nd.ast.value))
    libp, namep = func_fn.args.args[1].arg, func_fn.args.args[2].arg
    for table in ("lib_imp2ad", "fad2cname", "cname2addr", "fad2info"):
        is_st = lambda nd, table=table: any(n is nd for (n, _t, _v) in stores.get(table, []))
        ok = bool(stores.get(table))
        if ok:
            for a in alloc:
                if not cfg.must_pass(is_st, targets=[cfg.exit.id], from_node=a.id)[cfg.exit.id]:
                    ok = False
        ck.ob("R2", "lib_get_add_func:writes:%s" % table, ok, m.where(func_fn),
              "an allocation path returns without recording the stub in self.%s" % table)
    ok = False
    for (_n, t, v) in stores.get("lib_imp2ad", []):
        if norm(t) == "self.lib_imp2ad[%s][%s]" % (libp, namep) and norm(v) == cur:
            ok = True
    for (_n, t, v) in stores.get("fad2info", []):
        ok = ok and norm(t.slice) == cur and [norm(e) for e in (v.elts if isinstance(v, ast.Tuple) else [])] == [libp, namep]
    fc = stores.get("fad2cname", [])
    cn = stores.get("cname2addr", [])
    ok = ok and bool(fc) and bool(cn) and norm(fc[0][1].slice) == cur and norm(cn[0][2]) == cur and norm(fc[0][2]) == norm(cn[0][1].slice)
    ck.ob("R2", "lib_get_add_func:mirrored", ok, m.where(func_fn),
          "forward map (library, function) -> address and reverse maps address -> (library, function) / canonical name are not mirror images")

    # ---------------------------------------------------------------- R3
    dom = cfg.dominators()
    ok = False
    for nd in cfg.nodes:
        if nd.kind == "test":
            p = cmp_parts(nd.ast)
            if p and p[1] == "in" and norm(p[0]) == namep and norm(p[2]) == "self.lib_imp2ad[%s]" % libp:
                ts = [s for (s, l) in cfg.succ[nd.id] if l is True]
                if ts and cfg.nodes[ts[0]].kind == "stmt" and isinstance(cfg.nodes[ts[0]].ast, ast.Return) and \
                        norm(cfg.nodes[ts[0]].ast.value) == "self.lib_imp2ad[%s][%s]" % (libp, namep):
                    ok = all(nd.id in dom[a.id] for a in alloc)
    ck.ob("R3", "lib_get_add_func:lookup-first", ok, m.where(func_fn),
          "a function already imported from the library does not return its recorded address before a new one is allocated")
    bcfg = CFG(base_fn)
    np_ = base_fn.args.args[1].arg
    news = [nd for nd in bcfg.nodes if nd.kind == "stmt" and isinstance(nd.ast, ast.AugAssign) and norm(nd.ast.target) == "self.libbase_ad"]
    ok = False
    for nd in bcfg.nodes:
        if nd.kind == "test":
            p = cmp_parts(nd.ast)
            if p and p[1] in ("in", "notin") and norm(p[2]) == "self.name2off":
                lab = (p[1] == "notin")
                ok = bool(news) and all(nd.id in bcfg.dominators()[n.id] for n in news)
                for (s, l) in bcfg.succ[nd.id]:
                    if l is (not lab) and any(s == n.id or bcfg.can_reach(s, n.id) for n in news):
                        # the 'known' branch must not allocate (unless it joins later - it does not here)
                        ok = ok and False
    ck.ob("R3", "lib_get_add_base:lookup-first", ok, m.where(base_fn), "a known library name creates a new region")

    # ---------------------------------------------------------------- R4
    adv = [nd for nd in cfg.nodes if nd.kind == "stmt" and isinstance(nd.ast, ast.AugAssign) and norm(nd.ast.target).startswith("self.libbase2lastad[")]
    ok = bool(adv) and (ST or 0) > 0
    for a in alloc:
        if not cfg.must_pass(lambda nd: nd in adv, targets=[cfg.exit.id], from_node=a.id)[cfg.exit.id]:
            ok = False
    ck.ob("R4", "lib_get_add_func:cursor-advances", ok, m.where(func_fn), "an allocation path leaves the stub cursor unchanged")
    reg = [nd for nd in bcfg.nodes if nd.kind == "stmt" and isinstance(nd.ast, ast.Assign) and any(
        norm(t) == "self.name2off[%s]" % np_ for t in nd.ast.targets)]
    ok = bool(news) and bool(reg) and (SP or 0) > 0
    for r in reg:
        if not bcfg.must_pass(lambda nd: nd in news, targets=[bcfg.exit.id], from_node=r.id)[bcfg.exit.id]:
            ok = False
    ck.ob("R4", "lib_get_add_base:region-advances", ok, m.where(base_fn), "a new library region is registered without advancing the region cursor")

    # ---------------------------------------------------------------- R5 a new key never receives an address taken from another table
    from sa.astutil import Resolver
    fn = func_fn
    res = Resolver(fn)
    cursor = None
    for n in walk_body(fn):
        if isinstance(n, ast.AugAssign) and isinstance(n.op, ast.Add) and isinstance(n.target, ast.Subscript) and dotted(n.target.value) and dotted(n.target.value).startswith("self."):
            cursor = norm(n.target)
    if cursor is None:
        ck.ob("R5", "lib_get_add_func:new-key-address", False, m.where(fn), "lib_get_add_func has no advancing stub cursor to take fresh addresses from")
        return
    k5 = 0
    for n in walk_body(fn):
        if isinstance(n, ast.Assign) and len(n.targets) == 1 and isinstance(n.targets[0], ast.Subscript) and norm(n.targets[0]).startswith("self.lib_imp2ad["):
            k5 += 1
            v = n.value
            srcs = [norm(v)] if not isinstance(v, ast.Name) else [norm(d) for d in res.all_defs(v.id)] or ["<%s: no visible definition>" % v.id]
            bad = [t for t in srcs if t != cursor]
            ck.ob("R5", "libimp.lib_get_add_func:recorded-address-is-fresh", not bad, m.where(n),
                  "a (library, function) key that was not in the table is given an address read from %s instead of the cursor `%s`: two different "
                  "imports whose derived names coincide share one stub" % (bad, cursor))
    ck.need(k5 >= 1, "libimp.lib_get_add_func: the store into lib_imp2ad was not found")



def _key_rules(ck):
    """R6: the tables of libimp are probed and filled under the same key (sa/keyconsist): a module or function name is brought to its
    canonical form BEFORE the table is consulted, never between the lookup and the store."""
    from sa.keyconsist import mismatches
    ck.rule("R6", "a table of the import registry is filled under the very key it was probed with", floor=1)
    m = ck.repo.mod(REL)
    n = 0
    for q, fn in sorted(m.funcs.items()):
        if not q.startswith("libimp."):
            continue
        mm = mismatches(fn)
        has_tables = any(isinstance(x, ast.Subscript) and norm(x.value).startswith("self.") for x in walk_body(fn))
        if not has_tables:
            continue
        n += 1
        ck.ob("R6", "%s:probe-key-is-store-key" % q, not mm, m.where(mm[0]["rebind"].ast if mm and mm[0]["rebind"] is not None else fn),
              "%s is consulted with `%s` (%s) but `%s` is rebound on every path to the store `%s`: the entry is created under another key, so "
              "the same module is registered again at a new base on every call" % (
                  (mm[0]["table"], mm[0]["key"], m.where(mm[0]["probe"].ast), mm[0]["key"], norm(mm[0]["store"].ast)[:50]) if mm else ("", "", "", "", "")))
