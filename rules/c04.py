"""C04 - generated C code computes the reference value; evaluating it never writes to stdout.

 R1 stdout silence (who-may-call): the set E of C functions / macros the C translator and the code generator
    can emit is computed from their templates; no function reachable from E in the clang call graph of
    op_semantics.c, bn.c, JitCore.c and vm_mngr.c calls printf/puts/putchar or fprintf/fputs/fwrite on stdout
    (code under undefined DEBUG_* macros is invisible to clang and correctly ignored)
 R2 template well-formedness: every %-template of C.py / codegen.py has as many conversion holes as supplied
    values, and no template contains an un-substituted Python expression
 R3 operator-table agreement over TranslatorC + runtime: division/remainder functions classified from the
    operand types of their C bodies; shift macros from their saturation test and casts; rotations from the
    count reduction and the two opposite shifts; comparison casts and tokens; parity table verified entry by
    entry; zero counts return the width for 0
 R4 signed-division UB: a signed / or % on int32_t/int64_t operands reachable from E must exclude divisor -1
    with the minimum dividend (INT_MIN / -1 traps on the host)
 R5 native/big-number split: every use of the 64-bit-only mask helper and every native cast in from_ExprOp is
    guarded by a test of the *operand* width against NATIVE_INT_MAX_SIZE
"""
import ast

from sa.cfg import CFG
import re

from sa import cast
from sa.astutil import walk_body, walk_local, dotted, norm, callee_attr, str_elts
from sa.dispatch import op_branches, tok_consts
from sa.optable import OT0
from sa.repo import AnalysisError

CPY = "miasm/ir/translators/C.py"
CG = "miasm/jitter/codegen.py"
CFILES = ["miasm/jitter/op_semantics.c", "miasm/jitter/bn.c", "miasm/jitter/JitCore.c", "miasm/jitter/vm_mngr.c"]
LEVEL_TEXT = ("Who-may-call over the clang call graph from the computed set of emitted C names; format-template arity lint; "
              "operator classification from C operand types, macro bodies and the parity table (all 256 entries folded); "
              "UB rule for signed division; operand-width guard rule for the native/big-number split. Decides which C "
              "operation each operator reaches; compiles and runs nothing.")
ASSUMPTIONS = ["clang 14 AST with the build's include paths; C99: / truncates, % follows the dividend, INT_MIN / -1 is undefined (traps on x86)",
               "CPython ast", "OT-0 reference table in sa/optable.py"]
STDOUT_FUNCS = set(["printf", "puts", "putchar", "vprintf"])
STREAM_FUNCS = set(["fprintf", "fputs", "fwrite", "fputc", "vfprintf"])


def _templates(mod):
    """(node, template string, number of values or None) for every %-format in the module."""
    out = []
    for n in ast.walk(mod.tree):
        if isinstance(n, ast.BinOp) and isinstance(n.op, ast.Mod) and isinstance(n.left, ast.Constant) and isinstance(n.left.value, str):
            nvals = len(n.right.elts) if isinstance(n.right, ast.Tuple) else (None if isinstance(n.right, (ast.Name, ast.Attribute)) and
                                                                               not isinstance(n.right, ast.Constant) and _maybe_tuple(n.right) else 1)
            out.append((n, n.left.value, nvals))
    return out


def _maybe_tuple(node):
    return False


def _holes(tpl):
    return len(re.findall(r"%(?!%)[-#0 +]*\d*(?:\.\d+)?[sdxXrcfeg]", tpl.replace("%%", "")))


def _emitted_regexes(mods):
    """Regexes of C callee names that can appear in emitted code."""
    regs = set()
    for mod in mods:
        for n in ast.walk(mod.tree):
            if isinstance(n, ast.Constant) and isinstance(n.value, str):
                s = n.value
                for mm in re.finditer(r"((?:[A-Za-z_0-9]|%s|%\.?\d*d)+)\s*\(", s):
                    name = mm.group(1)
                    if not re.match(r"[A-Za-z_]|%s", name):
                        continue
                    if name in ("if", "while", "for", "switch", "return", "sizeof"):
                        continue
                    rx = re.escape(name)
                    rx = rx.replace(r"%s", r"[A-Za-z_][A-Za-z_0-9]*?").replace("%s", r"[A-Za-z_][A-Za-z_0-9]*?")
                    rx = re.sub(r"%\\?\.?\d*d", r"\\d+", rx)
                    if rx == r"[A-Za-z_][A-Za-z_0-9]*?":
                        continue      # a bare %s( : the callee is a whole computed name, handled through operator prefixes
                    regs.add(rx)
    return regs


def run(ck):
    ck.rule("R1", "no function reachable from emitted code writes to stdout", floor=30)
    ck.rule("R2", "%-templates of the C translator / code generator are well formed", floor=57)
    ck.rule("R3", "each operator reaches the C operation of its reference meaning", floor=22)
    ck.rule("R4", "signed division on 32/64-bit operands excludes INT_MIN / -1", floor=2)
    ck.rule("R5", "native-only helpers are guarded by the operand width", floor=5)
    _bignum_rules(ck)
    ck.rule("TC", "the translation memo table is private to the translator object, keyed by the expression itself, and filled by the class's own handler", floor=2)
    from rules._transcache import translator_cache_rules
    translator_cache_rules(ck, "TC")

    cpy = ck.repo.mod(CPY)
    cg = ck.repo.mod(CG)
    cast.preload(ck.repo, CFILES)
    tus = [cast.load(ck.repo, rel) for rel in CFILES]
    funcs = {}
    for tu in tus:
        for k, f in tu.funcs.items():
            funcs[k] = (tu, f)

    # ---------------------------------------------------------------- R1
    regs = _emitted_regexes([cpy, cg])
    # computed names: operator prefixes used with a bare "%s(" template
    fn = cpy.func("TranslatorC.from_ExprOp")
    consts = tok_consts(ck.repo)
    for b in op_branches(fn, cpy, cpy.cls("TranslatorC"), consts=consts):
        for n in walk_local(ast.Module(body=list(b["body"]), type_ignores=[])):
            if isinstance(n, ast.BinOp) and isinstance(n.op, ast.Mod) and isinstance(n.left, ast.Constant) and isinstance(n.left.value, str) \
                    and isinstance(n.right, ast.Tuple) and n.right.elts and norm(n.right.elts[0]) == "expr.op":
                mm = re.match(r"^\(?((?:[A-Za-z_]\w*)?%s(?:_?%\.?\d*d)?)\(", n.left.value)
                if mm:
                    for op in b["ops"]:
                        rx = re.escape(mm.group(1)).replace(r"%s", re.escape(op) + (r"\w*" if b["kind"] == "prefix" else ""))
                        rx = re.sub(r"%\\?\.?\d*d", r"\\d+", rx)
                        regs.add(rx)
    # names held in dictionaries (dct_shift / dct_rot / local op maps) and spliced into "%s(" templates
    for n in ast.walk(cpy.tree):
        if isinstance(n, ast.Dict):
            for v in n.values:
                if isinstance(v, ast.Constant) and isinstance(v.value, str) and re.fullmatch(r"[A-Za-z_]\w*", v.value):
                    regs.add(re.escape(v.value))
                    regs.add("bignum_" + re.escape(v.value))
                    regs.add("bignum_is_" + re.escape(v.value))
    emitted = sorted(k for k in funcs if any(re.fullmatch(rx, k) for rx in regs))
    ck.need(len(emitted) >= 30, "only %d emitted C functions resolved from the templates" % len(emitted))
    # reachability
    reach = {}
    for e in emitted:
        seen = set()
        stack = [e]
        while stack:
            x = stack.pop()
            if x in seen or x not in funcs:
                continue
            seen.add(x)
            for cn, _c in funcs[x][1].calls():
                if cn:
                    stack.append(cn)
        reach[e] = seen
    offenders = {}
    for name, (tu, f) in funcs.items():
        for cn, c in f.calls():
            if cn in STDOUT_FUNCS:
                offenders.setdefault(name, []).append(cast.ctext(c)[:50])
            elif cn in STREAM_FUNCS:
                a = cast.call_args(c)
                stream = a[0] if cn in ("fprintf", "vfprintf") else a[-1]
                if "stdout" in cast.text_names(stream) or "stdout" in cast.ctext(stream):
                    offenders.setdefault(name, []).append(cast.ctext(c)[:50])
    for e in emitted:
        bad = sorted(x for x in reach[e] if x in offenders)
        ck.ob("R1", "emitted:%s" % e, not bad, funcs[e][0].rel,
              "generated code can call %s, which reaches %s: %s writes to stdout (%s)"
              % (e, " -> ".join(bad[:2]), bad[0] if bad else "", (offenders.get(bad[0]) or [""])[0] if bad else ""))

    # ---------------------------------------------------------------- R2
    for mod in (cpy, cg):
        for (n, tpl, nvals) in _templates(mod):
            if nvals is None:
                continue
            fnq = None
            p = getattr(n, "_parent", None)
            while p is not None:
                if isinstance(p, ast.FunctionDef):
                    fnq = getattr(p, "_qualname", p.name)
                    break
                p = getattr(p, "_parent", None)
            h = _holes(tpl)
            key = "%s:%s:%s" % (mod.rel.split("/")[-1], fnq, tpl.strip()[:40])
            if isinstance(n.right, ast.Name) or isinstance(n.right, ast.Call) or isinstance(n.right, ast.Attribute) or isinstance(n.right, ast.Subscript):
                # a single value that may itself be a tuple: only decidable when one hole
                if h != 1:
                    continue
            ck.ob("R2", key, h == nvals, mod.where(n),
                  "template %r has %d conversion(s) but %d value(s) are supplied: formatting raises TypeError at translation time" % (tpl.strip()[:50], h, nvals))
        for n in ast.walk(mod.tree):
            if isinstance(n, ast.Constant) and isinstance(n.value, str) and re.search(r"\bexpr\.\w+", n.value) and ("(" in n.value) and \
                    not isinstance(getattr(n, "_parent", None), ast.Expr):
                ck.ob("R2", "%s:literal-python:%s" % (mod.rel.split("/")[-1], n.value.strip()[:40]), False, mod.where(n),
                      "the emitted C text %r contains the Python expression text itself (missing substitution)" % n.value.strip()[:60])

    # ---------------------------------------------------------------- R3
    ops_tu = tus[0]
    # division family
    for op, pyop, signed in (("udiv", "/", False), ("umod", "%", False), ("sdiv", "/", True), ("smod", "%", True)):
        for sz in (8, 16, 32, 64):
            name = "%s%d" % (op, sz)
            f = ops_tu.funcs.get(name)
            if f is None:
                ck.ob("R3", "c:%s" % name, False, ops_tu.rel, "%s is emitted by the translator but not defined in op_semantics.c" % name)
                continue
            binops = [n for n in cast.walk(f.body) if n.get("kind") == "BinaryOperator" and n.get("opcode") in ("/", "%")]
            ptypes = [p.get("type", {}).get("qualType", "") for p in f.params]
            want_t = ("int%d_t" % sz) if signed else ("uint%d_t" % sz)
            operands_ok = bool(binops) and [cast.ctext(cast.strip(x)) for x in binops[0]["inner"]] == [p["name"] for p in f.params]
            ok = len(binops) == 1 and binops[0]["opcode"] == pyop and all(t == want_t for t in ptypes) and operands_ok
            ck.ob("R3", "c:%s" % name, ok, ops_tu.rel,
                  "%s computes `%s` on operands of type %s; the reference operation %s needs `a %s b` on %s"
                  % (name, cast.ctext(binops[0]) if binops else "?", ptypes, OT0[op], pyop, want_t))
    # translator side of the division family: '%s%d(%s, %s)' % (expr.op, size, arg0, arg1)
    for b in op_branches(fn, cpy, cpy.cls("TranslatorC"), consts=consts):
        if set(b["ops"]) in (set(["udiv", "umod"]), set(["sdiv", "smod"])):
            body = norm(ast.Module(body=list(b["body"]), type_ignores=[])).replace(" ", "")
            ok = "out='%s%d(%s,%s)'%(expr.op,expr.args[0].size,arg0,arg1)" in body and "arg0=self.from_expr(expr.args[0])" in body and "arg1=self.from_expr(expr.args[1])" in body
            ck.ob("R3", "translator:%s" % "/".join(sorted(b["ops"])), ok, cpy.where(b["node"]), "division must be emitted as <op><operand width>(arg0, arg1)")
    # shift macros
    hdr = ck.repo.text("miasm/jitter/op_semantics.h")
    for macro, cast_t, fill in (("SHIFT_RIGHT_ARITH", "int", "sign"), ("SHIFT_RIGHT_LOGIC", "uint", "0"), ("SHIFT_LEFT_LOGIC", "uint", "0")):
        mm = re.search(r"#define\s+%s\(size,\s*value,\s*shift\)(.*?)(?:\n\n|#endif|#define)" % macro, hdr, re.S)
        body = re.sub(r"[\s\\]+", "", mm.group(1)) if mm else ""
        sat = "(((uint64_t)(shift))>((size)-1))?" in body
        direction = ">>(shift)" in body if "RIGHT" in macro else "<<(shift)" in body
        view = re.search(r"\(\(\(%s##size##_t\)\(value\)\)(>>|<<)\(shift\)\)" % cast_t, body) is not None
        fill_ok = ("<0?-1:0" in body) if fill == "sign" else ("?0:" in body)
        ck.ob("R3", "c:%s" % macro, bool(mm) and sat and direction and view and fill_ok, "miasm/jitter/op_semantics.h",
              "%s must saturate for counts > size-1 (%s), shift the %s view (%s) in the right direction (%s) and fill with %s (%s)"
              % (macro, sat, cast_t, view, direction, fill, fill_ok))
    dct = {}
    for st in cpy.cls("TranslatorC").body:
        if isinstance(st, ast.Assign) and isinstance(st.value, ast.Dict) and norm(st.targets[0]) in ("dct_shift", "dct_rot"):
            for k, v in zip(st.value.keys, st.value.values):
                dct[k.value] = v.value
    want = {"a>>": "right_arith", ">>": "right_logic", "<<": "left_logic", "<<<": "rot_left", ">>>": "rot_right"}
    for op, w in sorted(want.items()):
        ck.ob("R3", "translator:%s" % op, dct.get(op) == w, CPY, "operator %r is mapped to %r, expected %r" % (op, dct.get(op), w))
    # rotations
    for name, first in (("rot_left", "<<"), ("rot_right", ">>")):
        f = ops_tu.func(name)
        red = any(n.get("kind") == "CompoundAssignOperator" and n.get("opcode") == "%=" and cast.ctext(n).replace(" ", "") == "b%=size" for n in cast.walk(f.body))
        shapes = []
        for n in cast.walk(f.body):
            if n.get("kind") == "BinaryOperator" and n.get("opcode") == "=" and cast.ctext(cast.strip(n["inner"][0])) == "tmp":
                rhs = cast.strip(n["inner"][1])
                if rhs.get("kind") == "BinaryOperator" and rhs.get("opcode") == "|":
                    l, r = cast.strip(rhs["inner"][0]), cast.strip(rhs["inner"][1])
                    while l.get("kind") == "ParenExpr":
                        l = cast.strip(l["inner"][0])
                    while r.get("kind") == "ParenExpr":
                        r = cast.strip(r["inner"][0])
                    shapes.append((l.get("opcode"), cast.ctext(cast.strip(l["inner"][1])), r.get("opcode"), cast.ctext(cast.strip(r["inner"][1])).replace(" ", "")))
        other = ">>" if first == "<<" else "<<"
        ok = red and len(shapes) >= 4 and all(s[0] == first and s[1] == "b" and s[2] == other and s[3] in ("(size-b)", "size-b") for s in shapes)
        ck.ob("R3", "c:%s" % name, ok, ops_tu.rel, "%s must reduce the count modulo the width and combine (a %s b) | (a %s (size - b)): %s" % (name, first, other, shapes[:2]))
    # parity table: entry i == 1 iff popcount(i) even
    ptab = None
    for tu in tus:
        pass
    ok, detail = _parity_table(ck)
    ck.ob("R3", "c:parity_table", ok, ops_tu.rel, detail)
    ck.ob("R3", "c:parity-macro", ops_tu.macros.get("parity", "").replace(" ", "") == "parity_table[(a)&0xFF]", "miasm/jitter/op_semantics.h",
          "parity(a) must index the table with the low byte: `%s`" % ops_tu.macros.get("parity"))
    for name in ("cntleadzeros", "cnttrailzeros"):
        f = ops_tu.func(name)
        rets = [n for n in cast.walk(f.body) if n.get("kind") == "ReturnStmt"]
        last = cast.ctext(rets[-1]).replace(" ", "") if rets else ""
        ok = last.endswith("size") and len(rets) >= 2
        ck.ob("R3", "c:%s" % name, ok, ops_tu.rel, "%s must return the width when no bit is set (last return: %s)" % (name, last))
    # comparisons
    tcmp = cpy.const("TOK_CMP_TO_NATIVE_C")
    got = dict((consts.get(norm(k), norm(k)), v.value) for k, v in zip(tcmp.keys, tcmp.values))
    ok = got == {"==": "==", "<s": "<", "<u": "<", "<=s": "<=", "<=u": "<="}
    ck.ob("R3", "translator:compare-tokens", ok, CPY, "comparison tokens: %s" % got)
    from rules import _composites as _cmp
    _cmp.c_compare_rules(ck, "R3", cpy.where(fn))
    _cmp.c_associative_rules(ck, "R3", cpy.where(fn))
    ia = ck.repo.mod("miasm/expression/expression.py").func("is_associative")
    lst = [str_elts(n) for n in walk_body(ia) if isinstance(n, ast.List)]
    ok = bool(lst) and set(lst[0]) == set(["+", "*", "^", "&", "|"])
    ck.ob("R3", "is_associative", ok, "miasm/expression/expression.py", "associative operators are %s; only + * ^ & | have the same meaning as the C token on unsigned operands" % (lst[0] if lst else None))

    # ---------------------------------------------------------------- R4
    for op in ("sdiv", "smod"):
        for sz in (32, 64):
            name = "%s%d" % (op, sz)
            f = ops_tu.funcs.get(name)
            if f is None:
                continue
            cfg = f.cfg()
            guarded = False
            for nd in cfg.nodes:
                if nd.kind == "test":
                    t_ = cast.ctext(nd.ast).replace(" ", "")
                    if re.search(r"b==-1|b==\(.*\)-1|-1==b", t_):
                        guarded = True
            ck.ob("R4", "c:%s:int-min-over-minus-one" % name, guarded, ops_tu.rel,
                  "%s divides int%d_t operands with no test for divisor -1: INT%d_MIN / -1 is undefined and raises SIGFPE on x86 hosts, while "
                  "miasm evaluates it to a wrapped value" % (name, sz, sz))

    # ---------------------------------------------------------------- R5
    n5 = 0
    from sa.facts import guard_facts as _gf5
    r5cfg = CFG(fn)
    r5facts = _gf5(r5cfg)
    for c in [x for x in walk_body(fn) if isinstance(x, ast.Call) and dotted(x.func) == "self._size2mask"]:
        arg = norm(c.args[0])
        # must-facts at the call: some width is known to be <= NATIVE_INT_MAX_SIZE (any spelling / branch polarity)
        guards = []
        for nd_ in r5cfg.node_containing(c):
            for ft in r5facts.get(nd_.id, frozenset()):
                if ft[0] != "cmp" or "NATIVE_INT_MAX_SIZE" not in (ft[1] + ft[3]):
                    continue
                a_, op_, b_ = ft[1], ft[2], ft[3]
                if ("NATIVE_INT_MAX_SIZE" in b_ and op_ in ("<=", "<")) or ("NATIVE_INT_MAX_SIZE" in a_ and op_ in (">=", ">")):
                    guards.append("%s %s %s" % (a_, op_, b_))
        # the guarded width must be that of an operand (arg.size / expr.args[k].size), or expr.size when operand widths equal the result width
        # the branch is named by what is KNOWN about the operator at the call (must-facts), not by the enclosing statement: the same name
        # for an elif chain, a sequence of guards, or a negated guard followed by the code
        fl = set()
        for nd_ in r5cfg.node_containing(c):
            for ft in r5facts.get(nd_.id, frozenset()):
                if ft[0] == "cmp" and ft[1] == "expr.op" and ft[2] in ("==", "in"):
                    fl.add("expr.op %s %s" % (ft[2], ft[3]))
        if not fl:
            for nd_ in r5cfg.node_containing(c):
                for ft in r5facts.get(nd_.id, frozenset()):
                    if ft[0] == "true" and "is_associative" in ft[1]:
                        fl.add(ft[1])
                    if ft[0] == "cmp" and "len(expr.args)" in (ft[1], ft[3]) and ft[2] in ("<=", "<", "=="):
                        fl.add("%s %s %s" % (ft[1], ft[2], ft[3]))
            if not any("is_associative" in x for x in fl):
                fl = set()
        branch = " and ".join(sorted(fl))[:60] if fl else None
        n5 += 1
        ck.ob("R5", "from_ExprOp:_size2mask(%s)@%s" % (arg, branch), bool(guards), cpy.where(c),
              "the 64-bit-only mask helper is applied to `%s` in the branch `%s` without a width test: an operand wider than 64 bits raises "
              "AssertionError instead of taking a big-number path" % (arg, branch))
    for b in op_branches(fn, cpy, cpy.cls("TranslatorC"), consts=consts):
        if "<u" in b["ops"]:
            ifs = [s for s in b["body"] if isinstance(s, ast.If) and "NATIVE_INT_MAX_SIZE" in norm(s.test)]
            ok = bool(ifs) and ("arg0.size" in norm(ifs[0].test) or "expr.args[0].size" in norm(ifs[0].test))
            ck.ob("R5", "from_ExprOp:compare-split", ok, cpy.where(b["node"]),
                  "the comparison branch splits on `%s`, the width of the 1-bit result, so operands wider than 64 bits take the native path "
                  "and are cast to uint128_t / int128_t" % (norm(ifs[0].test) if ifs else "?"))
    ck.need(n5 >= 6, "fewer _size2mask uses than on the pinned tree")


def _contains(stmt, node):
    for x in ast.walk(stmt):
        if x is node:
            return True
    return False


def _parity_table(ck):
    tu = cast.load(ck.repo, "miasm/jitter/op_semantics.c")
    import json
    import subprocess
    # the table is a VarDecl, not a function: read it from a dedicated, filtered dump
    path = ck.repo.abspath("miasm/jitter/op_semantics.c")
    inc = cast._py_include()
    r = subprocess.run(["clang", "-fsyntax-only", "-w", "-Xclang", "-ast-dump=json", "-Xclang", "-ast-dump-filter=parity_table",
                        "-I" + inc, "-I" + ck.repo.abspath("miasm/jitter"), path], stdout=subprocess.PIPE, stderr=subprocess.DEVNULL)
    txt = r.stdout.decode("utf-8", "replace")
    # several JSON documents may be concatenated: take those with an InitListExpr
    dec = json.JSONDecoder()
    i = 0
    vals = None
    while i < len(txt):
        while i < len(txt) and txt[i] not in "{":
            i += 1
        if i >= len(txt):
            break
        try:
            obj, j = dec.raw_decode(txt, i)
        except ValueError:
            break
        i = j
        for n in cast.walk(obj):
            if n.get("kind") == "InitListExpr":
                vs = [cast.const_int(x) for x in n.get("inner", [])]
                if len(vs) == 256 and all(v is not None for v in vs):
                    vals = vs
    if vals is None:
        raise AnalysisError("parity_table initialiser not readable from the clang AST")
    bad = [k for k in range(256) if vals[k] != (1 if bin(k).count("1") % 2 == 0 else 0)]
    return (not bad), "parity_table entries %s differ from 'even number of set bits -> 1'" % bad[:8]


def _bignum_rules(ck):
    """R6: the big-number multiplication used for operands wider than 64 bits is the schoolbook product truncated to the array: the
    partial product of words i and j is accumulated exactly when i + j < BN_ARRAY_SIZE (its low word is inside the array; the high
    word that may fall outside is dropped by the shift).  Stated on the tests that dominate the accumulation in bignum_mul, as linear
    forms over the clang AST (loop bounds and guards alike, locals expanded)."""
    ck.rule("R6", "bignum_mul accumulates the partial product (i, j) exactly when i + j < BN_ARRAY_SIZE", floor=1)
    tu = cast.load(ck.repo, "miasm/jitter/bn.c")
    f = tu.func("bignum_mul")
    N = tu.macro_int("BN_ARRAY_SIZE")
    if N is None:
        raise AnalysisError("bn.c: BN_ARRAY_SIZE is not a constant")
    cfg = f.cfg()
    ldefs = cast.local_defs(f)
    acc = [nd for nd in cfg.nodes if any(cast.callee(c) == "bignum_add" and "row" in cast.text_names(c) and "tmp" in cast.text_names(c) for c in cast.node_calls_c(nd))]
    if not acc:
        acc = [nd for nd in cfg.nodes if any(cast.callee(c) == "bignum_add" for c in cast.node_calls_c(nd))][:1]
    ck.need(acc, "bignum_mul: accumulation of a partial product not found")
    sn = acc[0]
    bounds = []     # (coefficients over loop counters, constant): the test says  sum + const < 0
    for did in cfg.dominators()[sn.id]:
        dn = cfg.nodes[did]
        if dn.kind != "test":
            continue
        av = lambda x, did=did: x.id == did
        tsucc = [x for (x, lab) in cfg.succ[did] if lab is True]
        fsucc = [x for (x, lab) in cfg.succ[did] if lab is False]
        on_true = bool(tsucc) and (tsucc[0] == sn.id or cfg.can_reach(tsucc[0], sn.id, avoid=av))
        on_false = bool(fsucc) and (fsucc[0] == sn.id or cfg.can_reach(fsucc[0], sn.id, avoid=av))
        for pol in ([True] if on_true and not on_false else []) + ([False] if on_false and not on_true else []):
            lr = cast.c_less_than(dn.ast, pol, ldefs)
            if lr is None:
                continue
            (lt, lc), (rt, rc) = lr
            d = dict(lt)
            for k_, v_ in rt:
                d[k_] = d.get(k_, 0) - v_
            d = dict((k_, v_) for k_, v_ in d.items() if v_)
            bounds.append((d, lc - rc))
    both = [(d, c) for d, c in bounds if d == {"i": 1, "j": 1}]
    exact = any(c == -N for _d, c in both)
    stricter = [c for _d, c in both if c > -N]
    ck.ob("R6", "bignum_mul:partial-products", exact and not stricter, "miasm/jitter/bn.c",
          "the accumulation of a[i] * b[j] is guarded by %s (as `i + j + c < 0`); the product truncated to %d words needs exactly i + j < %d: %s"
          % (sorted(c for _d, c in both), N, N, "columns whose low word is still inside the array are skipped - the top words of the product are wrong"
             if stricter else "no test on i + j bounds the column"))
