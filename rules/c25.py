"""C25 - binary streams return exactly the underlying bits (core/bin_stream.py, cpu.py: cls_mn.dis).

 R1 acquire/release: in the instruction decoder every normal return and every explicit raise after
    enter_atomic_mode() is preceded on its path by leave_atomic_mode(); enter creates and leave drops
    the cache, so cached reads cannot outlive one instruction
 R2 typed reads: get_uN reads N/8 bytes and its little/big branches resolve (through the upck* lambdas) to
    struct formats of that size and byte order
 R3 interface contradiction: a stream class whose `bin` is used as a file (seek/tell/read) must not inherit
    the slicing _getbytes of the base class
 R4 bounds: every _getbytes override tests both ends of the request or converts the source's error to IOError
 R5 cache coherence: getbytes looks up and fills the cache under the same (start, length) key, fills it from
    _getbytes, and bypasses it outside atomic mode
"""
import ast

from sa.astutil import walk_body, walk_local, dotted, norm, callee_attr, cmp_parts
from sa.cfg import CFG, node_calls

BS = "miasm/core/bin_stream.py"
CPU = "miasm/core/cpu.py"
UT = "miasm/core/utils.py"
LEVEL_TEXT = ("Pairing rule on the decoder's CFG (acquire/release on every explicit exit), table agreement for typed reads "
              "(method -> unpack lambda -> struct format), interface contradiction lint, bounds/exception-conversion rule "
              "for every _getbytes override, cache key agreement. Bit extraction arithmetic is not decided.")
LEVEL_TEXT += ' Also: a file source is positioned at offset - base on every path to the read.'
ASSUMPTIONS = ["CPython ast; struct format characters B/H/I/Q = 1/2/4/8 bytes, '<' little, '>' big endian",
               "implicit exceptions (those not raised by an explicit statement) are outside the pairing rule"]
FMT = {"B": 1, "H": 2, "I": 4, "L": 4, "Q": 8}


def run(ck):
    ck.rule("R1", "leave_atomic_mode precedes every explicit exit that follows enter_atomic_mode; enter/leave create/drop the cache", floor=4)
    ck.rule("R2", "get_uN reads N/8 bytes and unpacks with a struct format of that size and the selected byte order", floor=2)
    ck.rule("R3", "a stream whose source is used as a file does not inherit the slicing reader", floor=3)
    ck.rule("R4", "every _getbytes override bounds-checks both ends or converts the source's error to IOError", floor=2)
    ck.rule("R5", "cache lookup and fill use the same key, fill from _getbytes, bypass outside atomic mode", floor=1)
    _offset_rules(ck)
    _init_order_rules(ck)

    # ---------------------------------------------------------------- R1
    cm = ck.repo.mod(CPU)
    fn = cm.func("cls_mn.dis")
    cfg = CFG(fn)
    enter = [nd for nd in cfg.nodes if any(isinstance(c.func, ast.Attribute) and c.func.attr == "enter_atomic_mode" for c in node_calls(nd))]
    ck.need(len(enter) == 1, "cls_mn.dis: enter_atomic_mode call not found")
    recv = norm([c for c in node_calls(enter[0]) if c.func.attr == "enter_atomic_mode"][0].func.value)
    is_leave = lambda nd: any(isinstance(c.func, ast.Attribute) and c.func.attr == "leave_atomic_mode" and norm(c.func.value) == recv for c in node_calls(nd))
    exits = [nd for nd in cfg.nodes if nd.kind == "stmt" and isinstance(nd.ast, (ast.Return, ast.Raise)) and cfg.can_reach(enter[0].id, nd.id)]
    ck.need(len(exits) >= 4, "cls_mn.dis: fewer explicit exits than on the pinned tree")
    for i, x in enumerate(exits):
        res = cfg.must_pass(is_leave, targets=[x.id], from_node=enter[0].id)[x.id]
        kind = "return" if isinstance(x.ast, ast.Return) else "raise"
        # stable key: kind + the enclosing construct
        par = getattr(x.ast, "_parent", None)
        ctx = type(par).__name__ + (":" + norm(par.test)[:40] if isinstance(par, ast.If) else "")
        ck.ob("R1", "cls_mn.dis:%s@%s#%d" % (kind, ctx, i), res, cm.where(x.ast),
              "`%s` can be reached after enter_atomic_mode() without leave_atomic_mode(): the stream stays in atomic mode (the next "
              "dis() asserts) and stale cached bytes survive" % norm(x.ast).split("\n")[0][:60])
    bm = ck.repo.mod(BS)
    e = bm.func("bin_stream.enter_atomic_mode")
    l = bm.func("bin_stream.leave_atomic_mode")
    ok = any(isinstance(n, ast.Assign) and norm(n.targets[0]) == "self._cache" and norm(n.value) in ("{}", "dict()") for n in walk_body(e)) and \
        any(isinstance(n, ast.Assign) and norm(n.targets[0]) == "self._atomic_mode" and norm(n.value) == "True" for n in walk_body(e))
    ck.ob("R1", "bin_stream.enter_atomic_mode", ok, bm.where(e), "entering atomic mode must start from an empty cache")
    ok = any(isinstance(n, ast.Assign) and norm(n.targets[0]) == "self._cache" and norm(n.value) in ("None", "{}") for n in walk_body(l)) and \
        any(isinstance(n, ast.Assign) and norm(n.targets[0]) == "self._atomic_mode" and norm(n.value) == "False" for n in walk_body(l))
    ck.ob("R1", "bin_stream.leave_atomic_mode", ok, bm.where(l), "leaving atomic mode must drop the cache")

    # ---------------------------------------------------------------- R2
    um = ck.repo.mod(UT)
    for n in (8, 16, 32, 64):
        fn = bm.func("bin_stream.get_u%d" % n)
        reads = [c for c in walk_body(fn) if isinstance(c, ast.Call) and dotted(c.func) == "self.getbytes"]
        size_ok = bool(reads) and len(reads[0].args) == 2 and norm(reads[0].args[1]) == str(n // 8)
        branch_ok = False
        detail = ""
        # per path of the function (whatever the layout of the test: two arms, guard + fall-through, conditional expression):
        # the byte order known on the path and the unpacking helper returned
        from sa import symval as _sv

        def fmt_of_call(v):
            if isinstance(v, ast.Call):
                nm = callee_attr(v)
                lam = um.assigns.get(nm)
                if isinstance(lam, ast.Lambda):
                    for c in walk_local(lam.body):
                        if isinstance(c, ast.Call) and dotted(c.func) == "struct.unpack" and isinstance(c.args[0], ast.Constant):
                            return nm, c.args[0].value
            return None, None
        seen_ = {}
        for p_ in _sv.paths(fn.body):
            if p_.kind != "return" or p_.value is None:
                continue
            order = None
            for t_, b_ in p_.conds:
                pp = cmp_parts(t_)
                if pp and pp[1] in ("==", "!=") and ("LITTLE_ENDIAN" in (norm(pp[0]), norm(pp[2])) or "BIG_ENDIAN" in (norm(pp[0]), norm(pp[2]))):
                    little = "LITTLE_ENDIAN" in (norm(pp[0]), norm(pp[2]))
                    holds = b_ if pp[1] == "==" else not b_
                    order = "little" if little == holds else "big"
            vals = [p_.value]
            if isinstance(p_.value, ast.IfExp):
                pp = cmp_parts(p_.value.test)
                if pp and pp[1] == "==" and "LITTLE_ENDIAN" in (norm(pp[0]), norm(pp[2])):
                    seen_["little"] = fmt_of_call(p_.value.body)
                    seen_["big"] = fmt_of_call(p_.value.orelse)
                    continue
            if order is not None:
                seen_[order] = fmt_of_call(p_.value)
        (ln, lf), (bn, bf) = seen_.get("little", (None, None)), seen_.get("big", (None, None))
        if lf and bf:
            branch_ok = lf[0] == "<" and bf[0] == ">" and FMT.get(lf[-1]) == n // 8 and FMT.get(bf[-1]) == n // 8
            detail = "little -> %s %r, big -> %s %r" % (ln, lf, bn, bf)
        ck.ob("R2", "bin_stream.get_u%d" % n, size_ok and branch_ok, bm.where(fn),
              "get_u%d must read %d byte(s) and unpack '<'/'>' formats of that size (%s)" % (n, n // 8, detail))

    # ---------------------------------------------------------------- R3 / R4
    base_get = bm.func("bin_stream._getbytes")
    slices_bin = any(isinstance(x, ast.Subscript) and norm(x.value) == "self.bin" for x in walk_body(base_get))
    for cname, cdef in sorted(bm.classes.items()):
        if not cname.startswith("bin_stream"):
            continue
        mro = ck.repo.mro_methods(bm, cname)
        own = dict((st.name, st) for st in cdef.body if isinstance(st, ast.FunctionDef))
        file_like = False
        for st in own.values():
            for c in walk_body(st):
                if isinstance(c, ast.Call) and isinstance(c.func, ast.Attribute) and norm(c.func.value) == "self.bin" and \
                        c.func.attr in ("seek", "tell", "read"):
                    file_like = True
        if cname != "bin_stream":
            g = mro.get("_getbytes")
            inherits_slicing = g is not None and g[1] is base_get and slices_bin
            ck.ob("R3", cname, not (file_like and inherits_slicing), bm.where(cdef),
                  "%s uses self.bin as a file object (seek/tell/read) but inherits bin_stream._getbytes, which slices self.bin: "
                  "getbytes() raises TypeError instead of returning the file's bytes" % cname)
        if "_getbytes" in own and cname != "bin_stream":
            fn = own["_getbytes"]
            from sa.astutil import less_than as _lt
            tests = [n.test for n in walk_body(fn) if isinstance(n, ast.If) and any(
                isinstance(s, ast.Raise) and "IOError" in norm(s) for s in n.body)]
            lts = [x for x in (_lt(t, True) for t in tests) if x is not None]          # (lo, hi, strict): raise when lo < hi
            upper = any(("self.l" in norm(lo) or "len(" in norm(lo)) for (lo, hi, _s) in lts)
            lower = any(norm(hi) == "0" for (lo, hi, _s) in lts)
            conv = any(isinstance(n, ast.Try) and any(any(isinstance(s, ast.Raise) and "IOError" in norm(s) for s in h.body) for h in n.handlers)
                       for n in walk_body(fn))
            ck.ob("R4", "%s._getbytes" % cname, (upper and lower) or conv, bm.where(fn),
                  "%s._getbytes neither tests both ends of the request (upper=%s, lower=%s) nor converts the source's error to IOError"
                  % (cname, upper, lower))

    # ---------------------------------------------------------------- R5
    fn = bm.func("bin_stream.getbytes")
    from sa.astutil import Resolver as _Res
    from sa.facts import guard_facts as _gf, truthy as _truthy
    res5 = _Res(fn)
    p1, p2 = fn.args.args[1].arg, fn.args.args[2].arg
    key = "(%s, %s)" % (p1, p2)
    cfg = CFG(fn)
    facts5 = _gf(cfg)
    probes, stores, touching = [], [], []
    for nd in cfg.nodes:
        if nd.ast is None:
            continue
        hit = False
        for e_ in ([nd.ast] if nd.kind in ("stmt", "test") else []):
            for x in walk_local(e_):
                if isinstance(x, ast.Call) and dotted(x.func) in ("self._cache.get", "self._cache.setdefault") and x.args:
                    probes.append(x.args[0])
                    hit = True
                if isinstance(x, ast.Compare) and len(x.ops) == 1 and isinstance(x.ops[0], (ast.In, ast.NotIn)) and norm(x.comparators[0]) == "self._cache":
                    probes.append(x.left)
                    hit = True
                if isinstance(x, ast.Subscript) and norm(x.value) == "self._cache":
                    (stores if isinstance(x.ctx, ast.Store) else probes).append(x.slice)
                    hit = True
        if hit:
            touching.append(nd)
    keys_ok = bool(probes) and bool(stores) and all(norm(res5.expand_node(k)).replace(" ", "") == key.replace(" ", "") for k in probes + stores)
    ck.ob("R5", "getbytes:key", keys_ok, bm.where(fn), "cache lookup key and fill key differ or are not (start, length): %s"
          % sorted(set(norm(res5.expand_node(k)) for k in probes + stores)))
    fills = [n for n in walk_body(fn) if isinstance(n, ast.Assign) and isinstance(n.targets[0], ast.Subscript) and norm(n.targets[0].value) == "self._cache"]
    ok = bool(fills)
    for n in fills:
        v = n.value
        vx = res5.expand_node(v)
        direct = norm(vx) == "self._getbytes(%s, %s)" % (p1, p2)
        via = isinstance(v, ast.Name) and any(norm(d) == "self._getbytes(%s, %s)" % (p1, p2) for d in res5.all_defs(v.id))
        ok = ok and (direct or via)
    ck.ob("R5", "getbytes:fill-from-source", ok, bm.where(fn), "the cached value is not the result of _getbytes(start, length)")
    ok = bool(touching) and all(_truthy(facts5.get(nd.id, frozenset()), "self._atomic_mode") for nd in touching)
    ck.ob("R5", "getbytes:bypass", ok, bm.where(fn), "the cache is consulted or filled on a path where atomic mode is not known to be on")


def _offset_rules(ck):
    """R6: a stream with a base address indexes its source with the RELATIVE offset (absolute - base), and on every path to the access
    both ends of the request are known to lie inside the source in that same coordinate: rel >= 0 and rel + length <= source length.
    A test made on the absolute offset (before rebasing) says nothing about the index: a read just below the base becomes a
    negative index, which Python counts from the end of the bytes."""
    from sa.astutil import linear, Resolver
    from sa.facts import guard_facts, entails_nonneg, _lin_sub
    ck.rule("R6", "the source is indexed with the rebased offset, proved >= 0 and <= length - request on every path", floor=3)
    m = ck.repo.mod(BS)
    for cname in ("bin_stream_str", "bin_stream_file"):
        if ("%s._getbytes" % cname) not in m.funcs:
            continue          # the class inherits its reader: R3 / R4 decide that case
        fn = m.func("%s._getbytes" % cname)
        start, ln = fn.args.args[1].arg, fn.args.args[2].arg
        cfg = CFG(fn)
        facts = guard_facts(cfg)
        res = Resolver(fn)
        sinks = []
        for nd in cfg.nodes:
            for c in node_calls(nd):
                if isinstance(c.func, ast.Attribute) and c.func.attr == "_getbytes" and isinstance(c.func.value, ast.Call) and dotted(c.func.value.func) == "super" and c.args:
                    sinks.append((nd, c, c.args[0], c.args[1] if len(c.args) > 1 else None))
                if dotted(c.func) == "self.bin.seek" and len(c.args) == 1 and not (isinstance(c.args[0], ast.Name) and c.args[0].id.startswith("cur")):
                    sinks.append((nd, c, c.args[0], None))
            if nd.ast is not None and nd.kind == "stmt":
                for s_ in walk_local(nd.ast):
                    if isinstance(s_, ast.Subscript) and norm(s_.value) == "self.bin" and isinstance(s_.slice, ast.Slice) and s_.slice.lower is not None:
                        sinks.append((nd, s_, s_.slice.lower, None))
        ck.need(sinks, "%s._getbytes: access to the source not found" % cname)
        # a file source is read at its current position: every path to the read positions the file at the rebased offset first
        # (a skipped seek is acceptable only where the current position is known to BE the rebased offset)
        reads = [nd for nd in cfg.nodes if any(dotted(c.func) == "self.bin.read" for c in node_calls(nd))]
        if reads:
            from sa.pathob import undischarged, path_text

            def lin_x(e):
                return linear(res.expand_node(e))
            want = (frozenset([(start, 1), ("self.base_address", -1)]), 0)

            def positions(nd):
                return any(dotted(c.func) == "self.bin.seek" and len(c.args) == 1 and lin_x(c.args[0]) == want for c in node_calls(nd))

            def already_there(nd, label):
                if nd.kind != "test" or not isinstance(nd.ast, ast.Compare) or len(nd.ast.ops) != 1:
                    return False
                op = nd.ast.ops[0]
                if not ((isinstance(op, ast.Eq) and label is True) or (isinstance(op, ast.NotEq) and label is False)):
                    return False
                d = _lin_sub(lin_x(nd.ast.left), lin_x(nd.ast.comparators[0]))
                tell = (frozenset([(start, 1), ("self.base_address", -1), ("self.bin.tell()", -1)]), 0)
                neg = (frozenset((k, -v) for k, v in tell[0]), 0)
                return d == tell or d == neg
            for rd in reads:
                p_ = undischarged(cfg, positions, edge_ok=already_there, targets=[rd.id])
                ck.ob("R6", "%s._getbytes:positioned-before-read" % cname, p_ is None, m.where(rd.ast),
                      "the file can be read without having been positioned at %s - self.base_address (path: %s): the bytes come from wherever "
                      "the file pointer was" % (start, path_text(p_) if p_ else ""))
        rebased_in_place = any(nd.kind == "stmt" and isinstance(nd.ast, ast.AugAssign) and isinstance(nd.ast.op, ast.Sub) and norm(nd.ast.target) == start
                               and norm(nd.ast.value) == "self.base_address" for nd in cfg.nodes) or \
            any(nd.kind == "stmt" and isinstance(nd.ast, ast.Assign) and norm(nd.ast.targets[0]) == start and norm(nd.ast.value) == "%s - self.base_address" % start for nd in cfg.nodes)
        for (nd, c, idx, _l2) in sinks:
            e = res.expand_node(idx)
            R = linear(e)
            rebased = ("self.base_address", -1) in R[0] or (rebased_in_place and R == (frozenset([(start, 1)]), 0))
            ck.ob("R6", "%s._getbytes:index-is-rebased" % cname, rebased, m.where(c),
                  "the source is accessed at `%s`, which is not the request's offset minus self.base_address" % norm(e)[:50])
            f = facts.get(nd.id, frozenset())
            # facts are texts over the names as bound at this node: use the un-expanded index when the parameter was rebased in place
            cands = [linear(idx), R]
            low = None
            for Rf in cands:
                low = low or entails_nonneg(f, Rf)
            ck.ob("R6", "%s._getbytes:lower-bound" % cname, low is not None, m.where(c),
                  "no test on the path implies `%s` >= 0 (tests known here: %s): a request starting below the base address indexes the "
                  "source from its end instead of raising IOError" % (norm(idx)[:40], sorted("%s %s %s" % (x[1], x[2], x[3]) for x in f if x[0] == "cmp")[:4]))
            up = None
            for Rf in cands:
                goal = _lin_sub(_lin_sub((frozenset([("self.l", 1)]), 0), Rf), (frozenset([(ln, 1)]), 0))
                up = up or entails_nonneg(f, goal)
            ck.ob("R6", "%s._getbytes:upper-bound" % cname, up is not None, m.where(c),
                  "no test on the path implies `%s` + %s <= self.l" % (norm(idx)[:40], ln))


def _init_order_rules(ck):
    """R7: a stream class that configures itself in __init__ (byte order taken from the VM, base address ...) and also runs the base
    initialiser must run the base initialiser FIRST: `bin_stream.__init__` sets the defaults (`endianness = LITTLE_ENDIAN`, empty cache,
    atomic mode off), and called afterwards it silently overwrites what the subclass derived - integer reads of a big-endian VM come
    back byte-swapped."""
    ck.rule("R7", "a subclass initialiser does not run the base initialiser after setting an attribute the base initialiser assigns", floor=1)
    m = ck.repo.mod(BS)
    base = m.func("bin_stream.__init__")
    base_attrs = set(dotted(t)[5:] for n in walk_body(base) if isinstance(n, ast.Assign) for t in n.targets if dotted(t) and dotted(t).startswith("self."))
    n = 0
    for cname, cdef in sorted(m.classes.items()):
        if cname == "bin_stream":
            continue
        init = m.funcs.get("%s.__init__" % cname)
        if init is None:
            continue
        cfg = CFG(init)
        calls = [nd for nd in cfg.nodes if any((dotted(c.func) or "").endswith(".__init__") and (dotted(c.func).startswith("bin_stream") or "super" in norm(c.func))
                                                for c in node_calls(nd))]
        if not calls:
            continue
        n += 1
        early = []
        for nd in cfg.nodes:
            if nd.kind == "stmt" and isinstance(nd.ast, ast.Assign):
                for t in nd.ast.targets:
                    d = dotted(t)
                    if d and d.startswith("self.") and d[5:] in base_attrs and any(cfg.can_reach(nd.id, c.id) for c in calls if c is not nd):
                        early.append(d)
        ck.ob("R7", "%s.__init__:base-init-first" % cname, not early, m.where(init),
              "%s sets %s and then runs the base initialiser, which assigns the same attribute(s): the derived value is overwritten by the default"
              % (cname, sorted(set(early))))
    ck.ob("R7", "subclass-initialisers-seen", n >= 1, BS, "no subclass initialiser calling the base initialiser found (extractor blind)")
