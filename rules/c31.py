"""C31 - recursive disassembly yields a well-formed control-flow graph (core/asmblock.py: disasmEngine).

 R1 exit consistency of _dis_block: every `break` out of the decoding loop either leaves a bad (empty)
    block, or has recorded how control continues: a fall-through constraint, or the deferred
    `add_next_offset` flag (siblings: five exits do, the rule names the one that does not)
 R2 an offset enters job_done in the same iteration, and before, its instruction is appended; the offset
    advances by the instruction length; an offset already in job_done ends the block
 R3 dis_multiblock adds every block, propagates job_done, queues the successors, honours the block-count
    limit and ends with apply_splitting; apply_splitting rebuilds the edges whenever it split, and its
    writes to the pendings are followed by that rebuild
 R4 splitting partitions the instruction list at the offset, links the head to the tail by a
    fall-through constraint and moves the former constraints to the tail
 R5 decoded flow destinations become c_to constraints; after a flow-breaking instruction with split flow
    the fall-through is recorded
"""
import ast

from sa.astutil import walk_body, walk_local, dotted, norm, callee_attr
from sa.cfg import CFG, node_calls, node_exprs

REL = "miasm/core/asmblock.py"
LEVEL_TEXT = ("Path rules over disasmEngine._dis_block (every loop exit accounted for), ordering rules for job_done, "
              "must-call rules for dis_multiblock/apply_splitting, partition shape of AsmBlock.split. Decides these "
              "necessary clauses for every byte buffer; decodes nothing.")
LEVEL_TEXT += " Also: block merging removes the head's last instruction only under breakflow() and dstflow() of that instruction and appends all the son's lines."
ASSUMPTIONS = ["CPython ast", "arch.dis() returns the single-instruction decoding at the offset"]


def run(ck):
    ck.rule("R6", "no loop walks a live view of a container of the graph while removing from that container", floor=13)
    from rules.c30 import live_iteration_rules
    live_iteration_rules(ck, "R6", [("miasm/core/asmblock.py", "AsmCFG")])
    m = ck.repo.mod(REL)
    ck.rule("R1", "every exit of the decoding loop records the block's continuation (or leaves a bad block)", floor=4)
    ck.rule("R2", "job_done is updated with the offset of each appended instruction, before it is appended", floor=1)
    ck.rule("R3", "dis_multiblock adds every block, shares job_done, queues successors, ends with apply_splitting; splitting triggers rebuild_edges", floor=4)
    ck.rule("R4", "AsmBlock.split partitions lines and re-links constraints", floor=1)
    ck.rule("R5", "flow destinations become c_to constraints; split flow records the fall-through", floor=1)
    ck.rule("R7", "block merging removes the last instruction of the head only where it is known to be a jump with an encoded destination, and keeps every "
                  "line of the son", floor=1)
    _merge_rules(ck, m)

    from sa.prenorm import inline_helpers
    # private helpers of the engine are part of _dis_block (an extracted `_add_next_constraint` is still _dis_block recording the continuation)
    fn = inline_helpers(m.func("disasmEngine._dis_block"), m.methods("disasmEngine"), accept=lambda n_: n_.startswith("_") and not n_.startswith("__"))
    loops = [n for n in fn.body if isinstance(n, ast.While)]
    ck.need(loops, "_dis_block: decoding loop not found")
    loop = loops[0]
    cfg = CFG(loop.body)     # one iteration; `break`/`continue` nodes have no successors here
    breaks = [nd for nd in cfg.nodes if nd.kind == "stmt" and isinstance(nd.ast, ast.Break)]
    ck.need(len(breaks) >= 6, "_dis_block: fewer loop exits than on the pinned tree (%d)" % len(breaks))

    def handled(nd):
        if nd.kind != "stmt":
            return False
        a = nd.ast
        for c in node_calls(nd):
            if isinstance(c.func, ast.Attribute) and c.func.attr == "add_cst" and "c_next" in norm(c):
                return True
            if callee_attr(c) == "AsmBlockBad":
                return True
        if isinstance(a, ast.Assign) and norm(a.targets[0]) == "add_next_offset" and norm(a.value) == "True":
            return True
        return False
    def unhandled_path(target):
        """Is there a path entry -> target that avoids every 'handled' node and never takes the
        block-is-empty edge of a `cur_block.lines` test (an empty block has nothing to continue)?"""
        seen = set()
        stack = [cfg.entry.id]
        while stack:
            x = stack.pop()
            if x in seen:
                continue
            seen.add(x)
            if x == target:
                return True
            nd = cfg.nodes[x]
            if handled(nd):
                continue
            for (s2, lab) in cfg.succ[x]:
                if nd.kind == "test" and norm(nd.ast) in ("cur_block.lines", "len(cur_block.lines)", "len(cur_block.lines) > 0") and lab is False:
                    continue
                stack.append(s2)
        return False
    for b in breaks:
        p = True if unhandled_path(b.id) else None
        # describe the exit by its controlling condition (innermost enclosing if)
        par = getattr(b.ast, "_parent", None)
        while par is not None and not isinstance(par, ast.If):
            par = getattr(par, "_parent", None)
        label = norm(par.test)[:60] if par is not None else "?"
        ck.ob("R1", "_dis_block:exit[%s]" % label, p is None, m.where(b.ast),
              "the decoding loop is left under `%s` without a fall-through constraint: a non-empty block ending there has no "
              "successor and the following instructions are never disassembled" % label)
    # the deferred flag is honoured after the loop
    post = [s for s in fn.body if isinstance(s, ast.If) and norm(s.test) == "add_next_offset"]
    ok = bool(post) and any(isinstance(c, ast.Call) and callee_attr(c) == "add_cst" and "c_next" in norm(c) for c in walk_local(post[0])) and \
        any(isinstance(c, ast.Call) and dotted(c.func) == "offsets_to_dis.add" for c in walk_local(post[0]))
    ck.ob("R1", "_dis_block:deferred-next", ok, m.where(fn), "add_next_offset is not turned into a fall-through constraint and a queued offset after the loop")

    # ---------------------------------------------------------------- R2
    adds = [nd for nd in cfg.nodes if any(isinstance(c.func, ast.Attribute) and c.func.attr == "addline" for c in node_calls(nd))]
    ck.need(adds, "_dis_block: cur_block.addline not found")
    jd = [nd for nd in cfg.nodes if any(dotted(c.func) == "job_done.add" and c.args and norm(c.args[0]) == "offset" for c in node_calls(nd))]
    adv = [nd for nd in cfg.nodes if nd.kind == "stmt" and isinstance(nd.ast, ast.AugAssign) and norm(nd.ast.target) == "offset" and norm(nd.ast.value) == "instr.l"]
    dom = cfg.dominators()
    ok = all(any(j.id in dom[a.id] for j in jd) for a in adds)
    ck.ob("R2", "_dis_block:job_done-before-append", ok, m.where(fn), "an instruction is appended without its offset being recorded in job_done")
    # job_done.add(offset) must precede the advance of offset
    ok = bool(adv) and all(any(j.id in dom[a.id] for j in jd if not cfg.can_reach(a.id, j.id)) for a in adv) and \
        all(any(x.id in dom[a.id] for x in adv) for a in adds)
    ck.ob("R2", "_dis_block:offset-advance", ok, m.where(fn), "offset must advance by instr.l after being recorded and before the next iteration")
    ok = False
    for nd in cfg.nodes:
        if nd.kind == "test" and norm(nd.ast) == "offset in job_done":
            ts = [s for (s, l) in cfg.succ[nd.id] if l is True]
            # leads to break without decoding
            if ts and not any(cfg.can_reach(ts[0], a.id) or ts[0] == a.id for a in adds):
                ok = all(nd.id in dom[a.id] for a in adds)
    ck.ob("R2", "_dis_block:already-done-stops", ok, m.where(fn), "an offset already disassembled does not end the block (an instruction would belong to two blocks)")

    # ---------------------------------------------------------------- R3
    fn = m.func("disasmEngine.dis_multiblock")
    wl = [n for n in fn.body if isinstance(n, ast.While)]
    ck.need(wl, "dis_multiblock: work-list loop not found")
    body = ast.Module(body=wl[0].body, type_ignores=[])
    disc = [c for c in walk_local(body) if isinstance(c, ast.Call) and dotted(c.func) == "self._dis_block"]
    ok = bool(disc) and len(disc[0].args) >= 2 and norm(disc[0].args[1]) == "job_done"
    ck.ob("R3", "dis_multiblock:shared-job_done", ok, m.where(fn), "job_done is not shared between blocks: overlapping blocks can be produced")
    par = getattr(disc[0], "_parent", None) if disc else None
    names = [norm(e) for e in par.targets[0].elts] if isinstance(par, ast.Assign) and isinstance(par.targets[0], ast.Tuple) else []
    ok = len(names) == 2 and any(isinstance(c, ast.Call) and isinstance(c.func, ast.Attribute) and c.func.attr == "add_block" and
                                 c.args and norm(c.args[0]) == names[0] for c in walk_local(body))
    ck.ob("R3", "dis_multiblock:add-block", ok, m.where(fn), "a disassembled block is not added to the graph")
    ok = len(names) == 2 and any(isinstance(n, ast.AugAssign) and norm(n.target) == "todo" and norm(n.value) == names[1] for n in walk_local(body)) or \
        (len(names) == 2 and any(isinstance(c, ast.Call) and dotted(c.func) == "todo.extend" and norm(c.args[0]) == names[1] for c in walk_local(body)))
    ck.ob("R3", "dis_multiblock:queue-successors", ok, m.where(fn), "the offsets returned by _dis_block are not queued")
    ok = any(isinstance(n, ast.If) and "self.blocs_wd" in norm(n.test) and any(isinstance(x, ast.Compare) and isinstance(x.ops[0], (ast.Lt, ast.LtE, ast.Gt, ast.GtE)) for x in ast.walk(n.test)) and any(isinstance(s, ast.Break) for s in n.body)
             for n in walk_local(body))
    ck.ob("R3", "dis_multiblock:block-limit", ok, m.where(fn), "the block-count limit does not stop the work list")
    tail = [s for s in fn.body if not isinstance(s, ast.Return)]
    ok = bool(tail) and isinstance(tail[-1], ast.Expr) and isinstance(tail[-1].value, ast.Call) and dotted(tail[-1].value.func) == "self.apply_splitting"
    ck.ob("R3", "dis_multiblock:apply-splitting-last", ok, m.where(fn), "dis_multiblock does not end with apply_splitting(blocks)")
    fn = m.func("disasmEngine.apply_splitting")
    cfg2 = CFG(fn)
    splits = [nd for nd in cfg2.nodes if any(isinstance(c.func, ast.Attribute) and c.func.attr == "split" for c in node_calls(nd))]
    addb = [nd for nd in cfg2.nodes if any(isinstance(c.func, ast.Attribute) and c.func.attr == "add_block" for c in node_calls(nd))]
    is_rb = lambda nd: any(isinstance(c.func, ast.Attribute) and c.func.attr == "rebuild_edges" for c in node_calls(nd))
    ok = bool(splits) and bool(addb)
    for a in addb:
        if not cfg2.must_pass(is_rb, targets=[cfg2.exit.id], from_node=a.id)[cfg2.exit.id]:
            # allowed only through a flag test: the flag must have been set on the path
            flags = [nd for nd in cfg2.nodes if nd.kind == "stmt" and isinstance(nd.ast, ast.Assign) and norm(nd.ast.value) == "True"]
            guarded = [nd for nd in cfg2.nodes if nd.kind == "test" and any(norm(nd.ast) == norm(f.ast.targets[0]) for f in flags)]
            fl_ok = any(f.id in cfg2.dominators()[a.id] or cfg2.can_reach(f.id, a.id) and f.id in cfg2.dominators().get(a.id, ()) for f in flags)
            set_before = any(f.id in cfg2.dominators()[a.id] for f in flags)
            rb_under = any(is_rb(cfg2.nodes[s]) for g in guarded for (s, l) in cfg2.succ[g.id] if l is True)
            if not (set_before and rb_under):
                ok = False
    ck.ob("R3", "apply_splitting:rebuild-after-split", ok, m.where(fn),
          "a block added by splitting can reach the end of apply_splitting without rebuild_edges (its edges would be missing)")
    # after a split the head (still `cur_block`, now shorter) must keep being scanned against the remaining destinations,
    # or be queued again: leaving the scan loop at that point abandons the destinations that fall into the head
    inner = [n for n in walk_body(fn) if isinstance(n, ast.For) and any(
        isinstance(c, ast.Call) and isinstance(c.func, ast.Attribute) and c.func.attr == "split" for c in walk_local(n))]
    ok = bool(inner)
    for lp in inner:
        bcfg = CFG(lp.body)
        sp = [nd for nd in bcfg.nodes if any(isinstance(c.func, ast.Attribute) and c.func.attr == "split" for c in node_calls(nd))]
        recv = norm([c for nd in sp for c in node_calls(nd) if isinstance(c.func, ast.Attribute) and c.func.attr == "split"][0].func.value) if sp else "?"
        requeue = [nd for nd in bcfg.nodes if any(dotted(c.func) == "todo.add" and c.args and norm(c.args[0]) == recv for c in node_calls(nd))]
        for nd in bcfg.nodes:
            if nd.kind == "stmt" and isinstance(nd.ast, ast.Break) and any(bcfg.can_reach(s_.id, nd.id) for s_ in sp):
                # a break after the split is acceptable only if the head was queued again on the way
                if not any(bcfg.can_reach(r.id, nd.id) and any(bcfg.can_reach(s_.id, r.id) for s_ in sp) for r in requeue):
                    ok = False
    ck.ob("R3", "apply_splitting:head-rescanned", ok, m.where(fn),
          "after splitting `cur_block` the scan over the pending destinations is abandoned (break) without queueing the head again: "
          "a destination inside the head that comes later in the list never starts a block")
    pw = [nd for nd in cfg2.nodes if nd.kind == "stmt" and isinstance(nd.ast, ast.Assign) and any(
        isinstance(t, ast.Subscript) and isinstance(t.value, ast.Attribute) and t.value.attr in ("pendings", "_pendings") for t in nd.ast.targets)]
    ok = True
    for w in pw:
        # every such write happens on the split path, which sets the rebuild flag afterwards
        if not any(cfg2.can_reach(w.id, a.id) for a in addb):
            ok = False
    ck.ob("R3", "apply_splitting:pending-writes-rebuilt", ok, m.where(fn), "pendings are edited on a path that does not lead to the rebuild")

    # ---------------------------------------------------------------- R4
    fn = m.func("AsmBlock.split")
    from sa.normal import state_after
    meths_ab = dict((q.split(".", 1)[1], f) for q, f in m.funcs.items() if q.startswith("AsmBlock.") and q.count(".") == 1)
    st8 = state_after(fn.body, methods=meths_ab)
    head, tail = st8.get("self.lines"), st8.get("new_block.lines")

    def _slice_of_lines(e):
        if isinstance(e, ast.Subscript) and isinstance(e.slice, ast.Slice) and norm(e.value) == "self.lines" and e.slice.step is None:
            return e.slice.lower, e.slice.upper
        return None
    hs, ts = _slice_of_lines(head) if head is not None else None, _slice_of_lines(tail) if tail is not None else None
    ok = hs is not None and ts is not None and hs[0] is None and hs[1] is not None and ts[1] is None and ts[0] is not None and norm(hs[1]) == norm(ts[0])
    ck.ob("R4", "AsmBlock.split:partition", ok, m.where(fn), "lines are not partitioned as lines[:i] / lines[i:] of the block's former lines (head = %s, tail = %s)"
          % (norm(head)[:40] if head is not None else None, norm(tail)[:40] if tail is not None else None))
    idx = hs[1] if ok else None
    okx = False
    if idx is not None and isinstance(idx, ast.Call) and isinstance(idx.func, ast.Attribute) and idx.func.attr == "index" and len(idx.args) == 1:
        seq = idx.func.value
        okx = isinstance(seq, ast.ListComp) and len(seq.generators) == 1 and norm(seq.generators[0].iter) == "self.lines" and not seq.generators[0].ifs \
            and isinstance(seq.elt, ast.Attribute) and seq.elt.attr == "offset" and norm(seq.elt.value) == norm(seq.generators[0].target)
        # the searched value is the offset the block is split at (possibly re-read from the location database)
        okx = okx and ("offset" in norm(idx.args[0]))
    ck.ob("R4", "AsmBlock.split:index", okx, m.where(fn), "the split index is not the position, among the block's instruction offsets, of the instruction starting at the offset")
    # else-branch: tail gets the former constraints, head gets the single c_next to the tail
    ok = any(isinstance(n, ast.Assign) and norm(n.targets[0]) == "new_block.bto" and norm(n.value) == "self.bto" for n in walk_body(fn)) and \
        any(isinstance(n, ast.Assign) and norm(n.targets[0]) == "self.bto" and norm(n.value) == "set([c])" for n in walk_body(fn)) and \
        any(isinstance(n, ast.Assign) and norm(n.targets[0]) == "c" and norm(n.value) == "AsmConstraint(loc_key, AsmConstraint.c_next)" for n in walk_body(fn))
    ck.ob("R4", "AsmBlock.split:relink", ok, m.where(fn), "head/tail constraints are not re-linked (head -> c_next tail, tail inherits the old constraints)")

    # ---------------------------------------------------------------- R5
    fn = m.func("disasmEngine._dis_block")
    ok = any(isinstance(c, ast.Call) and dotted(c.func) == "cur_block.bto.update" and "AsmConstraint.c_to" in norm(c) and "known_dsts" in norm(c)
             for c in walk_body(fn))
    ck.ob("R5", "_dis_block:c_to", ok, m.where(fn), "decoded flow destinations are not recorded as c_to constraints")
    ok = any(isinstance(n, ast.If) and "instr.splitflow()" in norm(n.test) and any(
        isinstance(s, ast.Assign) and norm(s.targets[0]) == "add_next_offset" and norm(s.value) == "True" for s in n.body) for n in walk_body(fn))
    ck.ob("R5", "_dis_block:splitflow-next", ok, m.where(fn), "a split-flow instruction does not record the fall-through")


def _merge_rules(ck, m):
    """bbl_simplifier's only pass: `_merge_blocks` concatenates a block with its single son.  The head's last instruction may be dropped
    only when it is the jump that linked the two (it breaks the flow AND encodes a destination): an instruction that breaks the flow
    without a destination (software interrupt, conditional write to PC) falls through into the son and must stay."""
    from sa.facts import guard_facts, truthy
    fn = m.funcs.get("_merge_blocks")
    if fn is None:
        ck.ob("R7", "_merge_blocks", False, REL, "function vanished")
        return
    cfg = CFG(fn)
    facts = guard_facts(cfg)
    pops = []
    for nd in cfg.nodes:
        for c in node_calls(nd):
            if isinstance(c.func, ast.Attribute) and c.func.attr == "pop" and norm(c.func.value).endswith(".lines"):
                pops.append((nd, c))
        if nd.kind == "stmt" and isinstance(nd.ast, ast.Delete) and any(isinstance(t, ast.Subscript) and norm(t.value).endswith(".lines") for t in nd.ast.targets):
            pops.append((nd, nd.ast))
        if nd.kind == "stmt" and isinstance(nd.ast, ast.Assign) and any(norm(t).endswith(".lines") for t in nd.ast.targets) and \
                isinstance(nd.ast.value, ast.Subscript) and isinstance(nd.ast.value.slice, ast.Slice):
            pops.append((nd, nd.ast))
    from sa.facts import with_bool_temps
    from sa.astutil import Resolver as _Rm
    res_ = _Rm(fn)
    for nd, c in pops:
        f = with_bool_temps(facts.get(nd.id, frozenset()), res_)
        bf = [t for t in f if t[0] == "true" and t[1].endswith(".breakflow()")]
        df = [t for t in f if t[0] == "true" and t[1].endswith(".dstflow()")]
        same = bool(bf) and bool(df) and any(b[1].rsplit(".", 1)[0] == d[1].rsplit(".", 1)[0] for b in bf for d in df)
        ck.ob("R7", "_merge_blocks:drops-only-linking-jump", same, m.where(nd.ast),
              "the head's last instruction is removed where it is only known that %s: an instruction that breaks the flow without an encoded "
              "destination (INT, SYSCALL, a conditional write to PC) disappears from the merged block"
              % (sorted(t[1] for t in f if t[0] == "true") or "nothing"))
    ck.ob("R7", "_merge_blocks:removal-found", bool(pops), m.where(fn), "the removal of the linking jump was not found (extractor blind)")
    keep = any(isinstance(n, ast.AugAssign) and norm(n.target).endswith(".lines") and norm(n.value).endswith(".lines") for n in walk_body(fn)) or \
        any(isinstance(c, ast.Call) and isinstance(c.func, ast.Attribute) and c.func.attr == "extend" and norm(c.func.value).endswith(".lines")
            and c.args and norm(c.args[0]).endswith(".lines") for c in walk_body(fn))
    ck.ob("R7", "_merge_blocks:son-lines-appended", keep, m.where(fn), "the son's lines are not appended as a whole to the head's")
