"""C33 - patchable byte buffer (miasm/loader/strpatchwork.py).

Decides structural clauses, not the behaviour:
 R1 every method that mutates the byte array resets the search cache on every path to its exit
 R1b the search methods rebuild a missing cache from the byte array before using it
 R2 an integer index used as a subscript of the byte array is proved < len(array) at the use
 R3 __setitem__ grows the array to the slice stop (by exactly stop-len padding bytes) before storing
 R4 read-only methods do not mutate the byte array (a padded read works on a copy)
 R5 a slice read past the end pads with exactly stop-len padding bytes
"""
import ast

from sa.astutil import (walk_body, walk_local, dotted, norm, Resolver, MUTATORS, assigned_targets,
                        less_than, callee_attr)
from sa.cfg import CFG, node_exprs
from sa.facts import guard_facts, has_cmp

REL = "miasm/loader/strpatchwork.py"
LEVEL_TEXT = ("Static rules over the AST/CFG of StrPatchwork: cache-invalidation pairing on all paths, "
              "guard-dominates-subscript with the exact bound, growth-before-store with the exact amount, "
              "purity of read methods. Decides these necessary clauses for every input; does not evaluate "
              "any read or search result.")
LEVEL_TEXT += ' Also: padding for a strided window is counted with a ceiling division.'
ASSUMPTIONS = ["CPython ast; array('B') semantics (extend/slice assignment) as documented",
               "the class keeps its bytes in one attribute (self.s) and its cache in self.s_cache; both are "
               "re-derived from __init__ on every run"]

READERS = ["__getitem__", "__bytes__", "__len__", "__contains__", "find", "rfind", "__repr__", "__str__"]


def _fields(ck, m):
    """Derive (buffer attribute, cache attribute) from __init__/find instead of freezing names."""
    meths = m.methods("StrPatchwork")
    ck.need("__init__" in meths and "find" in meths, "StrPatchwork.__init__/find vanished")
    find = meths["find"]
    cache = None
    for n in walk_body(find):
        if isinstance(n, ast.Call) and isinstance(n.func, ast.Attribute) and n.func.attr == "find":
            d = dotted(n.func.value)
            if d and d.startswith("self."):
                cache = d[5:]
    ck.need(cache is not None, "cannot derive cache attribute from StrPatchwork.find")
    buf = None
    ln = meths.get("__len__")
    ck.need(ln is not None, "StrPatchwork.__len__ vanished")
    for n in walk_body(ln):
        if isinstance(n, ast.Call) and callee_attr(n) == "len" and n.args:
            d = dotted(n.args[0])
            if d and d.startswith("self."):
                buf = d[5:]
    ck.need(buf is not None, "cannot derive buffer attribute from StrPatchwork.__len__")
    return meths, buf, cache


def _aliases(fn, buf):
    """Local names that may denote the live buffer object (not a copy)."""
    al = set(["self." + buf])
    res = Resolver(fn)
    changed = True
    while changed:
        changed = False
        for name, defs in res.defs.items():
            if name in al:
                continue
            for d in defs:
                if d is not None and norm(d) in al:
                    al.add(name)
                    changed = True
    return al


def _mutations(fn, buf, flow_sensitive_copy=True):
    """(ast node, alias text) for in-place mutations of the live buffer in fn."""
    al = _aliases(fn, buf)
    out = []
    for n in walk_body(fn):
        if isinstance(n, (ast.Assign, ast.AugAssign, ast.Delete)):
            for t in assigned_targets(n):
                if isinstance(t, ast.Subscript) and norm(t.value) in al:
                    out.append((n, norm(t.value)))
                elif isinstance(n, ast.AugAssign) and norm(t) in al:
                    out.append((n, norm(t)))
                elif norm(t) == "self." + buf and not isinstance(n, ast.Delete):
                    out.append((n, norm(t)))
        elif isinstance(n, ast.Call) and isinstance(n.func, ast.Attribute) and n.func.attr in MUTATORS | set(["frombytes", "fromstring", "fromlist", "byteswap"]):
            if norm(n.func.value) in al:
                out.append((n, norm(n.func.value)))
    return out, al


def _live_at(cfg, fn, node, name, buf):
    """Is local `name` possibly the live buffer at CFG node? (a rebinding to a copy kills it)."""
    if name == "self." + buf:
        return True

    def flow(nd, st):
        a = nd.ast
        if nd.kind == "stmt" and isinstance(a, ast.Assign):
            for t in a.targets:
                if isinstance(t, ast.Name) and t.id == name:
                    v = norm(a.value)
                    return v == "self." + buf or (st and v == name)
        return st
    IN, _ = cfg.forward(False, flow, lambda a, b: a or b)
    return IN.get(node.id, False)


def run(ck):
    m = ck.repo.mod(REL)
    meths, buf, cache = _fields(ck, m)
    SB, SC = "self." + buf, "self." + cache
    # small straight-line helpers of the class (e.g. a padding builder extracted from __getitem__/__setitem__) are expanded at their
    # call sites first, so that the rules see one body whatever the factoring (sa/prenorm.inline_helpers)
    from sa.prenorm import inline_helpers
    raw = dict(meths)
    meths = dict((k, inline_helpers(f, raw) if k != "__init__" else f) for k, f in raw.items())

    ck.rule("R1", "every method mutating the byte array resets the search cache on every path from the "
                  "mutation to a normal exit", floor=1)
    ck.rule("R1b", "search methods use the cache only after rebuilding it from the byte array when missing", floor=1)
    ck.rule("R2", "a non-slice index into the byte array is proved < len(array) at the subscript", floor=1)
    ck.rule("R3", "__setitem__ pads the array up to the slice stop (exactly stop-len bytes) before the store", floor=1)
    ck.rule("R4", "read-only methods never mutate the live byte array", floor=4)
    ck.rule("R5", "a slice read past the end pads a copy with exactly stop-len padding bytes", floor=1)

    # ---------------- R1 / R4 ----------------
    for name, fn in sorted(meths.items()):
        if name == "__init__":
            continue
        cfg = CFG(fn)
        muts, al = _mutations(fn, buf)
        live = []
        for (n, alias) in muts:
            nodes = cfg.node_containing(n)
            if not nodes:
                continue
            if any(_live_at(cfg, fn, nd, alias, buf) for nd in nodes):
                live.append((n, alias, nodes))
        if name in READERS:
            ck.ob("R4", "StrPatchwork.%s" % name, not live, m.where(fn),
                  "read-only method mutates the live buffer: %s" % "; ".join(norm(n) for n, _a, _ in live))
            continue
        if not live:
            continue

        def resets(nd):
            a = nd.ast
            if nd.kind == "stmt" and isinstance(a, ast.Assign) and any(dotted(t) == SC for t in a.targets):
                v = a.value
                if isinstance(v, ast.Constant) and v.value is None:
                    return True
                # a rebuild from the current buffer is also a reset
                return SB in [dotted(x) for x in walk_local(v) if isinstance(x, ast.Attribute)]
            return False
        ok = True
        detail = ""
        for (n, alias, nodes) in live:
            for nd in nodes:
                res = cfg.must_pass(resets, targets=[cfg.exit.id], from_node=nd.id)
                if not res[cfg.exit.id]:
                    ok = False
                    p = cfg.path_avoiding(resets, cfg.exit.id, from_node=nd.id)
                    detail = ("`%s` mutates %s and a path reaches the method exit without resetting %s: %s"
                              % (norm(n).split("\n")[0], SB, SC, " -> ".join(repr(x) for x in (p or [])[:6])))
        ck.ob("R1", "StrPatchwork.%s" % name, ok, m.where(fn), detail)

    # ---------------- R1b ----------------
    for name in ("find", "rfind"):
        fn = meths.get(name)
        ck.need(fn is not None, "StrPatchwork.%s vanished" % name)
        cfg = CFG(fn)
        facts = guard_facts(cfg)
        ok = True
        detail = ""
        uses = 0
        for nd in cfg.nodes:
            for e in node_exprs(nd):
                for x in walk_local(e):
                    if isinstance(x, ast.Call) and isinstance(x.func, ast.Attribute) and dotted(x.func.value) == SC:
                        uses += 1
                        # on every path: either the cache was tested truthy, or it was just rebuilt from the buffer
                        def rebuilt(n2):
                            a = n2.ast
                            return (n2.kind == "stmt" and isinstance(a, ast.Assign)
                                    and any(dotted(t) == SC for t in a.targets)
                                    and SB in [dotted(y) for y in walk_local(a.value) if isinstance(y, ast.Attribute)])

                        def tested_ok(n2):
                            return False
                        # paths avoiding a rebuild must carry the fact "cache truthy / is not None"
                        p = cfg.path_avoiding(rebuilt, nd.id)
                        if p is not None:
                            # that path must have passed a test establishing the cache is usable
                            passed = False
                            for a_, b_ in zip(p, p[1:]):
                                if a_.kind == "test" and SC in norm(a_.ast):
                                    passed = True
                            if not passed:
                                ok = False
                                detail = "%s used without a validity test or rebuild" % SC
        ck.need(uses > 0, "no use of %s in %s" % (SC, name))
        ck.ob("R1b", "StrPatchwork.%s" % name, ok, m.where(fn), detail)

    # ---------------- R2 ----------------
    fn = meths.get("__getitem__")
    ck.need(fn is not None, "StrPatchwork.__getitem__ vanished")
    cfg = CFG(fn)
    facts = guard_facts(cfg)
    al = _aliases(fn, buf)
    n_sub = 0
    for nd in cfg.nodes:
        for e in node_exprs(nd):
            for x in walk_local(e):
                if isinstance(x, ast.Subscript) and isinstance(x.ctx, ast.Load) and norm(x.value) in al \
                        and not isinstance(x.slice, ast.Slice):
                    idx = norm(x.slice)
                    f = facts.get(nd.id, frozenset())
                    # the slice-object branch: index known to be a slice (isinstance test true)
                    if ("true", "isinstance(%s, slice)" % idx) in f or ("cmp", "type(%s)" % idx, "is", "slice") in f:
                        continue
                    n_sub += 1
                    base = norm(x.value)
                    ok = (has_cmp(f, idx, "<", "len(%s)" % base) or has_cmp(f, idx, "<=", "len(%s) - 1" % base))
                    in_try = False
                    p = getattr(x, "_parent", None)
                    while p is not None and p is not fn:
                        if isinstance(p, ast.Try) and any(
                                h.type is None or "IndexError" in norm(h.type) for h in p.handlers):
                            in_try = True
                        p = getattr(p, "_parent", None)
                    rel = sorted(ft for ft in f if ft[0] == "cmp" and idx in (ft[1], ft[3]))
                    ck.ob("R2", "StrPatchwork.__getitem__:%s[%s]" % (base, idx), ok or in_try, m.where(x),
                          "subscript %s[%s] is reached with only %s known; index == len(%s) raises IndexError "
                          "instead of returning the padding byte" % (base, idx, rel or "nothing", base))
    ck.need(n_sub >= 1, "no integer subscript of the buffer found in __getitem__")

    # ---------------- R3 ----------------
    fn = meths.get("__setitem__")
    ck.need(fn is not None, "StrPatchwork.__setitem__ vanished")
    _growth_rule(ck, m, fn, buf, "R3", store=True)
    # ---------------- R5 ----------------
    _growth_rule(ck, m, meths["__getitem__"], buf, "R5", store=False)
    # every value returned from the slice branch is the slice of ONE buffer (the live array, or its padded copy): padding
    # appended to the sliced result is counted from the length, not from the slice start, and is wrong whenever the start
    # lies outside [0, len]
    fn = meths["__getitem__"]
    pn = fn.args.args[1].arg
    nret = 0
    # the slice branch = the returns at which `isinstance(item, slice)` is known to hold (two-armed test, guard + fall-through, either polarity)
    from sa.facts import guard_facts as _gf, truthy as _truthy
    from sa.cfg import CFG as _CFG
    gcfg = _CFG(fn)
    gfacts = _gf(gcfg)
    slice_returns = [nd.ast for nd in gcfg.nodes if nd.kind == "stmt" and isinstance(nd.ast, ast.Return) and nd.ast.value is not None and
                     (_truthy(gfacts.get(nd.id, frozenset()), "isinstance(%s, slice)" % pn) or _truthy(gfacts.get(nd.id, frozenset()), "type(%s) is slice" % pn))]
    for _once in (1,):
        res = Resolver(fn)
        for r_ in slice_returns:
            nret += 1
            v = res.expand_node(r_.value)
            while isinstance(v, ast.Call) and callee_attr(v) in ("array_tobytes", "bytes", "tobytes", "tostring") and (v.args or isinstance(v.func, ast.Attribute)):
                v = v.args[0] if v.args else v.func.value
            ok = isinstance(v, ast.Subscript) and isinstance(v.value, ast.Name) and norm(v.slice) == pn
            if not ok and "start" in norm(res.expand_node(r_.value)):
                # padding alone, counted from the window: the number of elements of range(start, end, step) is a CEILING division
                # ((end - start + step - 1) // step, -(-(end - start) // step), len(range(...))); a plain floor `(end - start) // step` is
                # one short whenever the step does not divide the window
                vx = res.expand_node(r_.value)
                floors = [x for x in ast.walk(vx) if isinstance(x, ast.BinOp) and isinstance(x.op, ast.FloorDiv) and "step" in norm(x.right)]
                plain_floor = False
                for fl_ in floors:
                    num = norm(fl_.left).replace(" ", "")
                    ceil_adjust = ("+step-1" in num or "step-1+" in num or "-1+step" in num or num.startswith("-(") or num.startswith("-"))
                    neg_outer = isinstance(getattr(fl_, "_parent", None), ast.UnaryOp)
                    if not ceil_adjust and not neg_outer:
                        plain_floor = True
                if plain_floor:
                    ck.ob("R5", "StrPatchwork.__getitem__:strided-window-count", False, m.where(r_),
                          "padding for a strided window is counted with a floor division (`%s`): range(start, end, step) has "
                          "ceil((end - start) / step) elements, one more whenever the step does not divide the window" % norm(r_.value)[:80])
                    continue
                # a padding amount computed from the slice start can be right: not decided here
                ck.undet("R5", "StrPatchwork.__getitem__:slice-of-one-buffer", "padding computed from the slice start: `%s`" % norm(r_.value)[:80])
                ok = True
            ck.ob("R5", "StrPatchwork.__getitem__:slice-of-one-buffer", ok, m.where(r_),
                  "the slice branch returns `%s`: not the slice of a single (padded) buffer; padding glued to the sliced bytes is "
                  "wrong for a start beyond the end or a negative start" % norm(r_.value)[:80])
    ck.need(nret >= 1, "StrPatchwork.__getitem__: no return in the slice branch")


def _growth_rule(ck, m, fn, buf, rid, store):
    """Find the padded extension `X.extend(pad * (STOP - LEN))` guarded by LEN < STOP and check the
    amount and the guard orientation; for the store variant, also that it dominates the store."""
    from sa.repo import AnalysisError
    res = Resolver(fn)
    cfg = CFG(fn)
    SB = "self." + buf
    al = _aliases(fn, buf) | set([SB])
    # candidate extends
    exts = []
    for n in walk_body(fn):
        if isinstance(n, ast.Call) and isinstance(n.func, ast.Attribute) and n.func.attr in ("extend", "append", "frombytes", "fromstring") \
                and norm(n.func.value) in al:
            exts.append(n)
        if isinstance(n, ast.AugAssign) and norm(n.target) in al and isinstance(n.op, ast.Add):
            exts.append(n)
        # `copy = copy + padding` (a new, longer array bound to the local the slice is taken from)
        if isinstance(n, ast.Assign) and len(n.targets) == 1 and norm(n.targets[0]) in al and isinstance(n.value, ast.BinOp) and isinstance(n.value.op, ast.Add) \
                and norm(n.value.left) in al:
            exts.append(n)
    qual = "StrPatchwork.%s" % fn.name
    if not exts:
        ck.ob(rid, qual, False, m.where(fn), "no growth of the byte array at all: an access past the end is not padded")
        return
    # the amount: find a multiplication  paddingbyte * AMOUNT feeding the extension
    amount = None
    for n in walk_body(fn):
        if isinstance(n, ast.BinOp) and isinstance(n.op, ast.Mult):
            l, r = norm(n.left), norm(n.right)
            if "paddingbyte" in l:
                amount = n.right
            elif "paddingbyte" in r:
                amount = n.left
    if amount is None:
        raise AnalysisError("%s: growth present but padding amount expression not recognised" % qual)
    amt = res.expand_node(amount)
    if not (isinstance(amt, ast.BinOp) and isinstance(amt.op, ast.Sub)):
        ck.ob(rid, qual, False, m.where(amount), "padding amount `%s` is not of the form stop - len" % norm(amt))
        return
    stop_t, len_t = norm(amt.left), norm(amt.right)
    len_ok = len_t in ["len(%s)" % a for a in al]
    stop_ok = stop_t.endswith(".stop")
    # the guard: a test node dominating the extension stating LEN < STOP (or <=)
    ext_nodes = []
    for e in exts:
        ext_nodes.extend(cfg.node_containing(e))
    dom = cfg.dominators()
    guard_ok = False
    guard_seen = None
    for en in ext_nodes:
        for did in dom.get(en.id, ()):  # dominating tests
            dn = cfg.nodes[did]
            if dn.kind != "test":
                continue
            # which polarity leads to the extension?
            for (succ, label) in cfg.succ[did]:
                if label not in (True, False):
                    continue
                if succ == en.id or cfg.can_reach(succ, en.id) and not _reach_other(cfg, did, label, en.id):
                    tx = res.expand_node(dn.ast)
                    # a tested boolean temporary `t = A and B and C` taken true says each conjunct
                    parts = list(tx.values) if (isinstance(tx, ast.BoolOp) and isinstance(tx.op, ast.And) and label is True) else [tx]
                    for part in parts:
                        lt = less_than(part, label)
                        if lt is None:
                            continue
                        a, b, strict = lt
                        guard_seen = "%s %s %s" % (norm(a), "<" if strict else "<=", norm(b))
                        if norm(a) == len_t and norm(b) == stop_t:
                            guard_ok = True
    detail = []
    if not len_ok:
        detail.append("subtrahend `%s` is not the array length" % len_t)
    if not stop_ok:
        detail.append("minuend `%s` is not the slice stop" % stop_t)
    if not guard_ok:
        detail.append("no dominating guard `%s < %s` on the path to the extension (saw: %s)" % (len_t, stop_t, guard_seen))
    ok = len_ok and stop_ok and guard_ok
    if ok and store:
        # the extension-or-guard must dominate the store self.s[item] = ...
        stores = [n for n in walk_body(fn) if isinstance(n, ast.Assign)
                  and any(isinstance(t, ast.Subscript) and norm(t.value) == SB for t in n.targets)]
        if not stores:
            raise AnalysisError("%s: slice store into %s not found" % (qual, SB))
        for s in stores:
            tgt = [t for t in s.targets if isinstance(t, ast.Subscript)][0]
            idx_stop = res.expand(ast.Attribute(value=tgt.slice, attr="stop", ctx=ast.Load()))
            if idx_stop != stop_t:
                ok = False
                detail.append("store index stop `%s` differs from the padded-to bound `%s`" % (idx_stop, stop_t))
            for sn in cfg.node_containing(s):
                # every path to the store passes the guard test node
                gids = [did for did in dom.get(sn.id, ()) if cfg.nodes[did].kind == "test"
                        and less_than(res.expand_node(cfg.nodes[did].ast), True) is not None
                        and set([norm(x) for x in less_than(res.expand_node(cfg.nodes[did].ast), True)[:2]]) == set([len_t, stop_t])]
                if not gids:
                    ok = False
                    detail.append("the length test does not dominate the store")
                # store must come after the extension on the growing path
                for en in ext_nodes:
                    if cfg.can_reach(sn.id, en.id) and not cfg.can_reach(en.id, sn.id):
                        ok = False
                        detail.append("the store precedes the growth")
    ck.ob(rid, qual, ok, m.where(fn), "; ".join(detail))


def _reach_other(cfg, test_id, label, target):
    """True if the *other* branch of the test also reaches target (then the test does not guard it)."""
    for (succ, l2) in cfg.succ[test_id]:
        if l2 in (True, False) and l2 != label:
            if succ == target or cfg.can_reach(succ, target):
                return True
    return False
