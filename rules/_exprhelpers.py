"""The small constructors of Expr that every translator / simplifier rule takes as primitives: x.zeroExtend(n), x.signExtend(n), x.msb().

The term engines (sa/transterm, sa/peval) read `e.signExtend(n)` as "the sign extension of e to n bits"; this module checks that the
methods mean that, per path (sa/symval):
    zeroExtend / signExtend(size):  `self` only under the fact self.size == size;  otherwise ExprOp('<zeroExt|signExt>_%d' % size, self);
        a constant shortcut is accepted when it is the extension: ExprInt(int(self), size) for zero extension, and for sign extension
        ExprInt(int(self) [- (1 << self.size)], size) with the subtraction exactly on the paths where int(self) >= 1 << (self.size - 1)
    msb(): self[self.size - 1:self.size]
Any other formulation is reported as not understood (exit 2), never as a violation."""
import ast

from sa.astutil import norm
from sa.repo import AnalysisError

REL = "miasm/expression/expression.py"


def _flat(conds):
    out = []

    def add(t, v):
        if isinstance(t, ast.BoolOp) and ((isinstance(t.op, ast.And) and v) or (isinstance(t.op, ast.Or) and not v)):
            for x in t.values:
                add(x, v)
        elif isinstance(t, ast.UnaryOp) and isinstance(t.op, ast.Not):
            add(t.operand, not v)
        else:
            out.append((t, v))
    for t, v in conds:
        add(t, v)
    return out


def _sign_fact(conds, S):
    """'neg' / 'nonneg' / None: what the path knows about int(self) against 1 << (self.size - 1)"""
    T = set(["1 << %s.size - 1" % S, "1 << (%s.size - 1)" % S, "2 ** (%s.size - 1)" % S])
    V = set(["int(%s)" % S, "%s.arg" % S, "%s._arg" % S, "int(%s.arg)" % S, "int(%s._arg)" % S])
    res = None
    for t, v in conds:
        if isinstance(t, ast.Compare) and len(t.ops) == 1:
            a, b = norm(t.left), norm(t.comparators[0])
            op = type(t.ops[0])
            if a in T and b in V:
                a, b = b, a
                op = {ast.Lt: ast.Gt, ast.Gt: ast.Lt, ast.LtE: ast.GtE, ast.GtE: ast.LtE}.get(op, op)
            if a in V and b in T:
                # v OP T with truth v
                if (op is ast.GtE and v) or (op is ast.Lt and not v) or (op is ast.Gt and v):
                    res = "neg"          # value >= T (a strict > also implies it)
                if (op is ast.Lt and v) or (op is ast.GtE and not v):
                    res = "nonneg"       # value < T
                if (op is ast.Gt and not v) or (op is ast.LtE and v):
                    res = res or "le"    # value <= T only: the boundary T itself is not decided
        if isinstance(t, ast.Call) and norm(t) in ("%s.msb()" % S,):
            pass
    return res


def extension_helper_rules(ck, rid):
    from sa import symval
    m = ck.repo.mod(REL)
    k = 0
    for name, tag in (("zeroExtend", "zeroExt"), ("signExtend", "signExt")):
        fn = m.func("Expr." + name)
        ck.need(len(fn.args.args) == 2, "Expr.%s: unexpected signature" % name)
        S, N = fn.args.args[0].arg, fn.args.args[1].arg
        node_form = "ExprOp('%s_%%d' %% %s, %s)" % (tag, N, S)
        node_forms = set([node_form, "ExprOp('%s_' + str(%s), %s)" % (tag, N, S), "ExprOp('%s_%%d' %% (%s,), %s)" % (tag, N, S),
                          "ExprOp('%s_{}'.format(%s), %s)" % (tag, N, S), "ExprOp(f'%s_{%s}', %s)" % (tag, N, S)])
        for p in symval.paths(fn.body, env={}):
            if p.kind != "return" or p.value is None:
                continue
            conds = _flat(p.conds)
            v = norm(p.value)
            where = m.where(fn)
            k += 1
            if v == S:
                ok = any(tv and isinstance(t, ast.Compare) and isinstance(t.ops[0], ast.Eq) and
                         set([norm(t.left), norm(t.comparators[0])]) == set(["%s.size" % S, N]) for t, tv in conds)
                ck.ob(rid, "Expr.%s:unchanged-only-at-equal-size" % name, ok, where, "Expr.%s returns the operand itself on a path where the sizes are not known to be equal" % name)
                continue
            if v in node_forms:
                ck.ob(rid, "Expr.%s:builds-%s" % (name, tag), True, where, "")
                continue
            if isinstance(p.value, ast.Call) and norm(p.value.func) == "ExprOp":
                ck.ob(rid, "Expr.%s:builds-%s" % (name, tag), False, where,
                      "Expr.%s builds `%s` instead of the %s_<size> operator on its operand: every user of the helper (simplifications, the z3 "
                      "translation of signed division, semantics) gets another value" % (name, v[:70], tag))
                continue
            if isinstance(p.value, ast.Call) and norm(p.value.func) == "ExprInt" and len(p.value.args) == 2 and norm(p.value.args[1]) == N:
                isint = any(tv and norm(t) == "%s.is_int()" % S for t, tv in conds)
                val = norm(p.value.args[0])
                plain = val in ("int(%s)" % S, "%s.arg" % S, "int(%s.arg)" % S, "%s._arg" % S)
                minus = val in ("int(%s) - (1 << %s.size)" % (S, S), "%s.arg - (1 << %s.size)" % (S, S), "int(%s) - 2 ** %s.size" % (S, S))
                if not (plain or minus):
                    raise AnalysisError("Expr.%s: constant shortcut value `%s` is a form this rule does not know" % (name, val))
                if tag == "zeroExt":
                    ck.ob(rid, "Expr.%s:constant-shortcut" % name, isint and plain, where,
                          "the constant shortcut of zeroExtend is not ExprInt(int(self), size) under self.is_int()")
                else:
                    sf = _sign_fact(conds, S)
                    good = isint and ((minus and sf == "neg") or (plain and sf == "nonneg"))
                    ck.ob(rid, "Expr.%s:constant-shortcut:%s" % (name, "minus" if minus else "plain"), good, where,
                          "the constant shortcut of signExtend %s on a path that knows only `%s` about the sign bit: the constant whose only "
                          "set bit is the sign bit (1 << size-1) is extended with the wrong sign"
                          % ("subtracts 1 << size" if minus else "keeps the value", {"le": "value <= 1 << size-1", None: "nothing"}.get(sf, sf)))
                continue
            raise AnalysisError("Expr.%s: returned value `%s` is a form this rule does not know" % (name, v[:80]))
    fn = m.func("Expr.msb")
    S = fn.args.args[0].arg
    for p in symval.paths(fn.body, env={}):
        if p.kind != "return" or p.value is None:
            continue
        v = p.value
        k += 1
        ok = isinstance(v, ast.Subscript) and norm(v.value) == S and isinstance(v.slice, ast.Slice) and v.slice.lower is not None and v.slice.upper is not None \
            and norm(v.slice.lower) == "%s.size - 1" % S and norm(v.slice.upper) == "%s.size" % S
        if not ok and not isinstance(v, (ast.Subscript, ast.Call)):
            raise AnalysisError("Expr.msb: returned value `%s` is a form this rule does not know" % norm(v)[:80])
        ck.ob(rid, "Expr.msb:top-bit", ok, m.where(fn), "Expr.msb returns `%s`, not the slice [size-1:size] of its operand" % norm(v)[:60])
    ck.need(k >= 5, "Expr.zeroExtend / signExtend / msb: fewer than 5 returning paths understood (%d)" % k)
