"""C03 - constant evaluation follows fixed-width two's-complement arithmetic (structural clauses).

 R1 operator-table agreement over the constant folder: each branch of simp_cst_propagation is reduced to
    features (Python operator applied, signed/unsigned view of each operand, zero-divisor guard, shift
    saturation, rotation by two opposite shifts with the count reduced modulo the width), classified, and
    compared with the reference meaning of the operator (OT-0); the signed division / remainder of
    core/modint.py are classified from their own bodies (truncating quotient, remainder a - b*(a//b))
 R2 result masking: every folded value reaches the expression only through ExprInt(., operand width);
    comparisons and parity produce 1-bit results
 R3 division guard: every division / remainder branch returns the unfolded expression for a zero divisor
 R4 flag delegation exhaustiveness: every operator accepted by simp_flag_cst has a branch in simp_flags
 R5 parity masks its argument with 0xFF and starts from 1; zero counts of zero give the width;
    extensions and comparisons use the signed view exactly for the signed variants
"""
import ast
import re

from sa.astutil import walk_body, walk_local, dotted, norm, callee_attr, str_elts, clone
from sa.optable import OT0
from sa.repo import AnalysisError
from sa.dispatch import tok_consts

SC = "miasm/expression/simplifications_common.py"
SX = "miasm/expression/simplifications_explicit.py"
EH = "miasm/expression/expression_helper.py"
MI = "miasm/core/modint.py"
EX = "miasm/expression/expression.py"
LEVEL_TEXT = ("Feature extraction over every constant-folding branch (operator, operand signedness, guards, rotation/"
              "saturation skeleton) classified against the reference operator table; masking, zero-divisor guard, flag "
              "dispatch exhaustiveness, parity/zero-count/extension/comparison structure. Decides which operation with "
              "which signedness and mask each operator folds to; evaluates nothing.")
ASSUMPTIONS = ["CPython ast; Python integer operator semantics", "OT-0 reference table in sa/optable.py (from doc/expression)"]
PYOP = {ast.Add: "+", ast.Mult: "*", ast.Pow: "**", ast.BitXor: "^", ast.BitAnd: "&", ast.BitOr: "|", ast.RShift: ">>",
        ast.LShift: "<<", ast.FloorDiv: "//", ast.Mod: "%", ast.Div: "/", ast.Sub: "-"}


def _view(e, local):
    """('S'|'U', k) if expression e is a view of operand int<k> (through mod_size2int / mod_size2uint / int())."""
    e0 = e
    seen = 0
    signed = None
    if isinstance(e, ast.BinOp) and isinstance(e.op, ast.Mod) and norm(e.right) in ("int1.size", "int2.size"):
        inner = _view(e.left, local)
        if inner:
            return (inner[0] + "%", inner[1])
    while seen < 6:
        seen += 1
        if isinstance(e, ast.Name) and e.id in local:
            e = local[e.id]
            continue
        if isinstance(e, ast.Call) and isinstance(e.func, ast.Subscript) and dotted(e.func.value) in ("mod_size2int", "mod_size2uint") and e.args:
            if signed is None:
                signed = dotted(e.func.value) == "mod_size2int"
            e = e.args[0]
            continue
        if isinstance(e, ast.Call) and callee_attr(e) == "int" and e.args:
            e = e.args[0]
            continue
        break
    if isinstance(e, ast.Name) and e.id in ("int1", "int2"):
        return ("S" if signed else "U", e.id[-1])
    return None


def _branch_features(body):
    """Features of one operator branch (list of statements)."""
    local = {}
    feats = {"zero_guard": False, "sat": None, "ops": [], "rot": None, "masked_out": True}
    for st in body:
        for n in walk_local(st):
            if isinstance(n, ast.Assign) and isinstance(n.targets[0], ast.Name) and n.targets[0].id not in ("out",):
                local[n.targets[0].id] = n.value
    for st in body:
        if isinstance(st, ast.If):
            t = norm(st.test).replace(" ", "")
            if t in ("int(int2)==0", "int2.is_int(0)", "notint(int2)") and any(isinstance(s, ast.Return) and norm(s.value) == "expr" for s in st.body):
                feats["zero_guard"] = True
                continue
            # saturation: count > size
            cmp_ = st.test
            from sa.astutil import less_than as _lt
            lt_ = _lt(cmp_, True) if isinstance(cmp_, ast.Compare) else None      # (lo, hi, strict): lo < hi
            if lt_ is not None:
                lv = _view(lt_[1], local)
                if lv and lv[1] == "2" and norm(lt_[0]) in ("int1.size", "int2.size"):
                    from sa.symval import paths as _paths
                    outs, sign_dep = [], False
                    for p_ in _paths(st.body, env=dict(local)):
                        v_ = p_.env.get("out")
                        if isinstance(v_, ast.IfExp):
                            sign_dep = sign_dep or "sign" in norm(v_.test) or "1 << int1.size - 1" in norm(v_.test)
                            outs += [norm(v_.body), norm(v_.orelse)]
                        elif v_ is not None:
                            outs.append(norm(v_))
                        sign_dep = sign_dep or any("sign" in norm(c) or "1 << int1.size - 1" in norm(c) for c, _b in p_.conds)
                    feats["sat"] = "sign" if (sign_dep and set(outs) == set(["-1", "0"])) else ("zero" if set(outs) == set(["0"]) else "?")
                    body2 = st.orelse
                    for s in body2:
                        _collect_ops(s, local, feats)
                    continue
        _collect_ops(st, local, feats)
    return feats


def _collect_ops(st, local, feats):
    for n in walk_local(st):
        if isinstance(n, ast.Assign) and norm(n.targets[0]) == "out":
            v = n.value
            if isinstance(v, ast.Call) and isinstance(v.func, ast.Subscript) and dotted(v.func.value) == "mod_size2uint" and v.args:
                v = v.args[0]
            if isinstance(v, ast.Call) and callee_attr(v) == "pow" and len(v.args) == 3:
                # modular exponentiation: pow(base, exponent, 2^width) == (base ** exponent) mod 2^width
                a, b = _view(v.args[0], local), _view(v.args[1], local)
                if a and b and a[1] == "1" and b[1] == "2" and norm(v.args[2]).replace(" ", "") in ("1<<int1.size",):
                    feats["ops"].append(("**", a[0], b[0]))
                    continue
            if isinstance(v, ast.BinOp):
                a, b = _view(v.left, local), _view(v.right, local)
                if a and b and a[1] == "1" and b[1] == "2":
                    feats["ops"].append((PYOP.get(type(v.op), "?"), a[0], b[0]))
                    continue
                # rotation: (x >> s) | (x << (size - s))
                if isinstance(v.op, ast.BitOr) and isinstance(v.left, ast.BinOp) and isinstance(v.right, ast.BinOp):
                    l, r = v.left, v.right
                    lo, ro = PYOP.get(type(l.op)), PYOP.get(type(r.op))
                    if set([lo, ro]) == set([">>", "<<"]) and _view(l.left, local) == ("U", "1") and _view(r.left, local) == ("U", "1"):
                        sh = local.get("shifter")
                        red = sh is not None and norm(sh).replace(" ", "") in ("int(int2)%int2.size", "int(int2)%int1.size")
                        comp = norm(r.right).replace(" ", "") in ("int2.size-shifter", "int1.size-shifter") and norm(l.right) == "shifter"
                        feats["rot"] = (lo, red, comp)
                        continue
            feats["ops"].append(("?" + norm(n.value)[:40], "?", "?"))


def _classify(op_name, f):
    if f["rot"]:
        first, red, comp = f["rot"]
        if not (red and comp):
            return "ROT_UNREDUCED"
        return "ROTR" if first == ">>" else "ROTL"
    if len(f["ops"]) != 1:
        return "UNKNOWN:%s" % f["ops"]
    pyop, v1, v2 = f["ops"][0]
    if pyop in ("+", "*", "**", "^", "&", "|") and (v1, v2) == ("U", "U"):
        return {"+": "ADD", "*": "MUL", "**": "POW", "^": "XOR", "&": "AND", "|": "OR"}[pyop]
    # Python integers are unbounded: an unguarded shift of the (un)signed view already yields 0 / the sign fill
    # for counts >= width once re-masked, so the explicit saturation guard is an optimisation, not semantics
    if v2.endswith("%"):
        return "SHIFT_COUNT_REDUCED_MODULO_WIDTH"
    if pyop == ">>" and v1 == "U":
        return "LSHR_SAT" if f["sat"] in ("zero", None) else "LSHR_?"
    if pyop == "<<" and v1 == "U":
        return "SHL_SAT" if f["sat"] in ("zero", None) else "SHL_?"
    if pyop == ">>" and v1 == "S":
        return "ASHR_SAT" if f["sat"] in ("sign", None) else "ASHR_?"
    if pyop == "//":
        return {("U", "U"): "UDIV", ("S", "S"): "SDIV_MODINT"}.get((v1, v2), "DIV_MIXED")
    if pyop == "%":
        return {("U", "U"): "UREM", ("S", "S"): "SREM_MODINT"}.get((v1, v2), "REM_MIXED")
    return "UNKNOWN:%s" % (f["ops"],)


def _specialise(body, op):
    """The statements of a multi-operator branch as executed for operator `op`: `if op_name == c` / `op_name in [...]` tests are
    decided, everything else is kept."""
    out = []
    for st in body:
        if isinstance(st, ast.If) and isinstance(st.test, ast.Compare) and norm(st.test.left) == "op_name" and len(st.test.ops) == 1:
            o = st.test.ops[0]
            c = st.test.comparators[0]
            val = None
            if isinstance(o, (ast.Eq, ast.NotEq)) and isinstance(c, ast.Constant):
                val = (c.value == op) == isinstance(o, ast.Eq)
            elif isinstance(o, (ast.In, ast.NotIn)) and str_elts(c) is not None:
                val = (op in str_elts(c)) == isinstance(o, ast.In)
            if val is not None:
                out.extend(_specialise(st.body if val else st.orelse, op))
                continue
        out.append(st)
    return out


def _rotation(stmts):
    """Classify a straight-line rotation folding: returns ('ROTR'|'ROTL'|'ROT_COUNT_MASKED'|'ROT_UNREDUCED'|None, description).
    Assignments are substituted in order, widths are unified (the folding loop only pairs constants of one width), then
    out = (x SH1 A) | (x SH2 B) is matched with A a count reduced modulo the width and B = width - A."""
    from sa.symval import paths
    ps = [p_ for p_ in paths(stmts) if p_.kind in ("fall", "return")]
    if len(ps) != 1:
        return None, "%d paths through a rotation branch" % len(ps)
    out = ps[0].env.get("out")
    if out is None:
        return None, "no assignment to out"

    def canon(e):
        t = norm(e).replace(" ", "")
        for a in ("int1.size", "int2.size", "expr.size"):
            t = t.replace(a, "W")
        t = t.replace("int(int2)", "c").replace("int(int1)", "x").replace("int2.arg", "c").replace("int1.arg", "x")
        return t
    if isinstance(out, ast.Call) and isinstance(out.func, ast.Subscript) and dotted(out.func.value) == "mod_size2uint" and out.args:
        out = out.args[0]
    if not (isinstance(out, ast.BinOp) and isinstance(out.op, ast.BitOr) and isinstance(out.left, ast.BinOp) and isinstance(out.right, ast.BinOp)):
        return None, "out = %s" % canon(out)[:80]
    l, r = out.left, out.right
    lo, ro = PYOP.get(type(l.op)), PYOP.get(type(r.op))
    if set([lo, ro]) != set([">>", "<<"]) or canon(l.left) != "x" or canon(r.left) != "x":
        return None, "out = %s" % canon(out)[:80]
    a, b = canon(l.right), canon(r.right)
    desc = "(x %s %s) | (x %s %s)" % (lo, a, ro, b)
    if "&(W-1)" in a or "&W-1" in a or "(W-1)&" in a:
        return "ROT_COUNT_MASKED", desc + ": `& (width - 1)` is the count modulo the width only for power-of-two widths"
    strip = lambda t: t[1:-1] if t.startswith("(") and t.endswith(")") else t
    if b not in ("W-%s" % a, "W-(%s)" % a, "(W-%s)" % a, "(W-(%s))" % a):
        return "ROT_UNREDUCED", desc + ": the second amount is not width - first amount"
    if strip(a) in ("c%W",):
        return ("ROTR" if lo == ">>" else "ROTL"), desc
    if strip(a) in ("(W-c%W)%W", "(W-(c%W))%W", "(W-c)%W"):
        return ("ROTL" if lo == ">>" else "ROTR"), desc
    if "%W" not in a:
        return "ROT_UNREDUCED", desc + ": the count is not reduced modulo the width"
    return None, desc


def _modint_classes(ck):
    """moduint.__div__ truncates toward zero (|num| // |den| times the sign of num*den) and __mod__ takes the dividend's sign
    (self - y * (self // y)).  Decided on the returned expression with locals substituted (sa/symval), comparison orientation and
    operand order of commutative operators being irrelevant."""
    from sa.symval import paths
    from sa.astutil import less_than
    m = ck.repo.mod(MI)
    d = m.func("moduint.__div__")

    def is_num(e, who):
        t = norm(e).replace(" ", "")
        return t in ("int(%s)" % who, "%s.arg" % who, "int(%s.arg)" % who)

    def sign_factor(e):
        """1 if num*den >= 0 else -1 (any spelling)"""
        if not isinstance(e, ast.IfExp):
            return False
        lt = less_than(e.test, True)
        if lt is None:
            return False
        lo, hi, strict = lt
        pos, neg = norm(e.body), norm(e.orelse)

        def is_prod(x):
            return isinstance(x, ast.BinOp) and isinstance(x.op, ast.Mult) and ((is_num(x.left, "self") and is_num(x.right, "y")) or (is_num(x.left, "y") and is_num(x.right, "self")))
        # 0 <= prod (non strict) -> body is the non-negative case ; prod < 0 -> body is the negative case
        if norm(lo) == "0" and is_prod(hi) and not strict:
            return pos == "1" and neg == "-1"
        if is_prod(lo) and norm(hi) == "0" and strict:
            return pos == "-1" and neg == "1"
        if norm(lo) == "-1" and is_prod(hi) and strict:
            return pos == "1" and neg == "-1"
        return False
    trunc = False
    rets = [p_.value for p_ in paths(d.body, limit=8) if p_.kind == "return" and p_.value is not None]
    if rets:
        trunc = True
        for v in rets:
            while isinstance(v, ast.Call) and len(v.args) == 1 and not isinstance(v.func, ast.Attribute) and norm(v.func) in ("cls", "self.__class__"):
                v = v.args[0]
            ok = isinstance(v, ast.BinOp) and isinstance(v.op, ast.Mult)
            if ok:
                q, sg = (v.left, v.right) if isinstance(v.left, ast.BinOp) else (v.right, v.left)
                ok = isinstance(q, ast.BinOp) and isinstance(q.op, ast.FloorDiv) and isinstance(q.left, ast.Call) and norm(q.left.func) == "abs" and \
                    isinstance(q.right, ast.Call) and norm(q.right.func) == "abs" and is_num(q.left.args[0], "self") and is_num(q.right.args[0], "y") and sign_factor(sg)
            trunc = trunc and ok
    fd = m.func("moduint.__floordiv__")
    deleg = any(isinstance(n, ast.Return) and norm(n.value) in ("self.__div__(y)",) for n in walk_body(fd))
    md = m.func("moduint.__mod__")
    dividend = False
    rets = [p_.value for p_ in paths(md.body, limit=8) if p_.kind == "return" and p_.value is not None]
    if rets:
        dividend = True
        for v in rets:
            while isinstance(v, ast.Call) and len(v.args) == 1 and norm(v.func) in ("cls", "self.__class__", "self.maxcast(y)"):
                v = v.args[0]
            ok = isinstance(v, ast.BinOp) and isinstance(v.op, ast.Sub) and is_num(v.left, "self") and isinstance(v.right, ast.BinOp) and isinstance(v.right.op, ast.Mult)
            if ok:
                parts = [norm(v.right.left).replace(" ", ""), norm(v.right.right).replace(" ", "")]
                ok = sorted(parts) in (sorted(["y", "self//y"]), sorted(["y", "(self//y)"]), sorted(["int(y)", "self//y"]))
            dividend = dividend and ok
    return (trunc and deleg), dividend, m, d, md


def run(ck):
    m = ck.repo.mod(SC)
    ck.rule("R1", "each constant-folding branch applies the reference operation with the reference signedness, guards and mask", floor=9)
    ck.rule("R2", "folded values are re-masked to the operand width; comparison/parity results are one bit", floor=2)
    ck.rule("R3", "every division/remainder folding returns the unfolded expression for a zero divisor", floor=3)
    ck.rule("R4", "every operator accepted by simp_flag_cst has a branch in simp_flags", floor=14)
    ck.rule("R5", "parity, zero counts, extensions and comparisons have the reference structure", floor=7)

    fn = m.func("simp_cst_propagation")
    eh = ck.repo.mod(EH)
    table = str_elts(eh.const("op_propag_cst"))
    ck.need(table, "op_propag_cst not a literal list")
    # the if/elif chain on op_name inside the folding loop
    chain = {}
    for n in walk_body(fn):
        if isinstance(n, ast.If) and isinstance(n.test, ast.Compare) and norm(n.test.left) == "op_name" and isinstance(n.test.ops[0], ast.Eq) \
                and isinstance(n.test.comparators[0], ast.Constant):
            par = getattr(n, "_parent", None)
            if isinstance(par, (ast.While, ast.If)) and any(isinstance(x, ast.While) for x in _ancestors(n)):
                chain.setdefault(n.test.comparators[0].value, n)
    # branches selecting several operators at once (`op_name in [...]`), refined inside by `if op_name == ...`
    multi = {}
    for n in walk_body(fn):
        if isinstance(n, ast.If) and isinstance(n.test, ast.Compare) and norm(n.test.left) == "op_name" and isinstance(n.test.ops[0], ast.In) \
                and any(isinstance(x, ast.While) for x in _ancestors(n)):
            ops_ = str_elts(n.test.comparators[0]) or []
            for o in ops_:
                multi.setdefault(o, n)
    for o, n in multi.items():
        # a nested `if op_name == o` found above is a refinement of this branch, not the branch of o
        if o in chain and any(a is n for a in _ancestors(chain[o])):
            del chain[o]
    trunc, dividend, mi, dfn, mfn = _modint_classes(ck)
    for op in table:
        ref = OT0.get(op)
        if ref is None:
            ck.ob("R1", "fold:%s" % op, False, m.where(fn), "operator %r is folded but has no reference meaning" % op)
            continue
        br = chain.get(op)
        if br is None and op in multi:
            br = ast.If(test=multi[op].test, body=_specialise(multi[op].body, op), orelse=[])
            ast.copy_location(br, multi[op])
        if br is not None and ref in ("ROTL", "ROTR"):
            got, how = _rotation(_specialise(br.body, op))
            if got is None:
                raise AnalysisError("simp_cst_propagation: folding branch of %r not understood (%s)" % (op, how))
            ck.ob("R1", "fold:%s" % op, got == ref, m.where(br), "operator %r folds as %s (%s); the reference operation is %s" % (op, got, how, ref))
            continue
        if br is None:
            ck.ob("R1", "fold:%s" % op, False, m.where(fn), "operator %r is listed in op_propag_cst but has no folding branch: `out` keeps a stale value" % op)
            continue
        f = _branch_features(br.body)
        got = _classify(op, f)
        if got.startswith("UNKNOWN"):
            raise AnalysisError("simp_cst_propagation: folding branch of %r not understood (%s)" % (op, got))
        if got == "SDIV_MODINT":
            got = "SDIV_TRUNC" if trunc else "SDIV_FLOOR?"
        if got == "SREM_MODINT":
            got = "SREM_DIVIDEND" if (dividend and trunc) else "SREM_OTHER?"
        ck.ob("R1", "fold:%s" % op, got == ref, m.where(br),
              "operator %r folds as %s (%s); the reference operation is %s" % (op, got, f["ops"] or f["rot"], ref))
        if ref in ("UDIV", "UREM", "SDIV_TRUNC", "SREM_DIVIDEND"):
            ck.ob("R3", "fold:%s:zero-divisor" % op, f["zero_guard"], m.where(br),
                  "folding %r with a zero divisor raises ZeroDivisionError instead of leaving the expression unfolded" % op)
    for op in chain:
        if op not in table and op in OT0:
            ck.note("branch for %r exists but the operator is not in op_propag_cst (dead branch)" % op)
    ck.ob("R1", "modint:signed-division", trunc, mi.where(dfn), "moduint.__div__/__floordiv__ no longer truncates toward zero (abs//abs * sign)")
    ck.ob("R1", "modint:signed-remainder", dividend, mi.where(mfn), "moduint.__mod__ is no longer a - b*(a//b) (remainder with the dividend's sign)")

    # ---------------------------------------------------------------- R2
    sinks = [c for c in walk_body(fn) if isinstance(c, ast.Call) and dotted(c.func) == "args.append" and c.args and isinstance(c.args[0], ast.Call)
             and callee_attr(c.args[0]) == "ExprInt" and "out" in norm(c.args[0])]
    ok = len(sinks) == 1 and norm(sinks[0].args[0]).replace(" ", "") == "ExprInt(int(out),int1.size)"
    ck.ob("R2", "fold:sink", ok, m.where(fn), "the folded value must re-enter the expression as ExprInt(int(out), int1.size) (which reduces it modulo 2^width)")
    ex = ck.repo.mod(EX)
    newi = ex.func("ExprInt.__new__")
    ok = any(isinstance(n, ast.Assign) and norm(n.value).replace(" ", "") in ("arg&(1<<size)-1",) for n in walk_body(newi))
    ck.ob("R2", "ExprInt:modular", ok, ex.where(newi), "ExprInt no longer reduces its value modulo 2^size")
    cmpf = m.func("simp_cmp_int_int")
    rets = [n.value for n in walk_body(cmpf) if isinstance(n, ast.Return) and isinstance(n.value, ast.Call) and norm(n.value.func) == "ExprInt"]
    ok = len(rets) >= 2 and all(len(r_.args) == 2 and norm(r_.args[1]) in ("1", "expr.size") for r_ in rets)
    ck.ob("R2", "compare:one-bit", ok, m.where(cmpf), "comparison folding must produce a 1-bit constant")
    ok = any(isinstance(n, ast.Return) and norm(n.value) == "ExprInt(parity(int(args[0])), 1)" for n in walk_body(fn))
    ck.ob("R2", "parity:one-bit", ok, m.where(fn), "parity folding must produce ExprInt(parity(value), 1)")

    # ---------------------------------------------------------------- R4
    ff = m.func("simp_flag_cst")
    accepted = None
    for n in walk_body(ff):
        if isinstance(n, ast.Compare) and isinstance(n.ops[0], (ast.NotIn, ast.In)) and norm(n.left) == "expr.op":
            accepted = str_elts(n.comparators[0])
    ck.need(accepted, "simp_flag_cst: accepted operator list not found")
    sx = ck.repo.mod(SX)
    sf = sx.func("simp_flags")
    handled = set()
    for n in walk_body(sf):
        if isinstance(n, ast.Call) and dotted(n.func) == "expr.is_op" and n.args:
            a = n.args[0]
            if isinstance(a, ast.Constant):
                handled.add(a.value)
            elif isinstance(a, ast.Name):
                v = ex.assigns.get(a.id)
                if isinstance(v, ast.Constant):
                    handled.add(v.value)
    for op in accepted:
        ck.ob("R4", "flag:%s" % op, op in handled, sx.where(sf),
              "simp_flag_cst accepts %r on constants but simp_flags has no branch for it: the operator is returned unchanged and "
              "expr_simp(simp_flags(.)) recurses on the same node" % op)

    # ---------------------------------------------------------------- R5
    pf = eh.func("parity")
    txt = norm(ast.Module(body=pf.body, type_ignores=[])).replace(" ", "")
    ap = pf.args.args[0].arg
    ck.ob("R5", "parity:low-byte", ("tmp=%s&255" % ap) in txt, eh.where(pf), "parity must be computed on the low byte only")
    ck.ob("R5", "parity:even-is-1", "cpt=1" in txt and "cpt^=tmp&1" in txt and "tmp>>=1" in txt, eh.where(pf), "parity must be 1 for an even number of set bits")
    _r5_counts(ck, m, fn)
    from rules._composites import flag_formula_rules
    flag_formula_rules(ck, "R5", sx.where(sf))
    _r5_views(ck, m, cmpf, tok_consts(ck.repo))


def _canon_x(t):
    t = t.replace(" ", "")
    for a, b in (("int(args[0])", "x"), ("args[0].arg", "x"), ("args[0].size", "W"), ("expr.size", "W")):
        t = t.replace(a, b)
    return t


def _branch(fn, op):
    """The top-level `if op_name == <op> and ...:` statement of simp_cst_propagation."""
    for st in fn.body:
        if isinstance(st, ast.If):
            t = norm(st.test)
            if ("op_name == '%s'" % op) in t and "is_int" in t:
                return st
    return None


def _bit_zero(conj, i="i"):
    """Is the conjunct `bit <i> of x is zero`?"""
    t = _canon_x(conj)
    return t in ("x&1<<%s==0" % i, "x&(1<<%s)==0" % i, "notx&1<<%s" % i, "x>>%s&1==0" % i, "(x>>%s)&1==0" % i, "not(x>>%s)&1" % i, "notx>>%s&1" % i)


def _conjuncts(test):
    if isinstance(test, ast.BoolOp) and isinstance(test.op, ast.And):
        out = []
        for v in test.values:
            out.extend(_conjuncts(v))
        return out
    return [test]


def _closed_form_counts(br, kind):
    """Closed-form family of the zero counts (no loop): every path returns ExprInt(V, W) with, under the path's knowledge about x == 0,
         cnttrailzeros:  x == 0 -> W ;  x != 0 -> (x & -x).bit_length() - 1
         cntleadzeros :  x == 0 -> W ;  otherwise W - x.bit_length()   (which is W for x == 0 too)
    Returns (zero_ok, formula_ok, detail) or None when the branch is not of this family."""
    from sa.symval import paths
    from sa.astutil import linear
    ps = [p_ for p_ in paths(br.body) if p_.kind == "return"]
    if not ps or any(isinstance(n, (ast.While, ast.For)) for st in br.body for n in ast.walk(st)):
        return None
    zero_ok = formula_ok = False
    seen = []
    for p_ in ps:
        v = p_.value
        if not (isinstance(v, ast.Call) and norm(v.func) == "ExprInt" and len(v.args) == 2 and _canon_x(norm(v.args[1])) == "W"):
            return None
        know = None                       # True: x == 0 on this path, False: x != 0, None: unknown
        for t, b in p_.conds:
            c = _canon_x(norm(t))
            if c in ("x==0", "0==x", "notx"):
                know = b
            elif c in ("x!=0", "0!=x", "x"):
                know = not b
        a0 = ast.parse(_canon_x(norm(v.args[0])), mode="eval").body
        terms, c = linear(a0)
        terms = dict((k_.replace(" ", ""), v_) for k_, v_ in terms)
        seen.append("%s -> %s" % ({True: "x == 0", False: "x != 0", None: "any x"}[know], _canon_x(norm(v.args[0]))))
        if terms == {"W": 1} and c == 0:
            if know is True:
                zero_ok = True
            else:
                return False, False, "the width is returned for %s" % seen[-1]
        elif kind == "lead" and terms == {"W": 1, "x.bit_length()": -1} and c == 0:
            formula_ok = True
            if know is None:
                zero_ok = True            # W - 0 for x == 0
        elif kind == "trail" and c == -1 and len(terms) == 1 and list(terms.values()) == [1] and \
                list(terms)[0] in ("(x&-x).bit_length()", "(-x&x).bit_length()") and know is False:
            formula_ok = True
        else:
            return zero_ok, False, "closed form not recognised: %s" % seen[-1]
    return zero_ok, formula_ok, "; ".join(seen)


def _r5_counts(ck, m, fn):
    from sa.astutil import straightline_env, linear
    from sa.symval import subst
    # ---- cnttrailzeros: i = 0; while bit i of x is zero and i < W: i += 1; result ExprInt(i, W)
    br = _branch(fn, "cnttrailzeros")
    ok_t = False
    detail = "branch not found"
    if br is not None:
        loops = [k for k, st in enumerate(br.body) if isinstance(st, ast.While)]
        if len(loops) == 1:
            k = loops[0]
            env = straightline_env(br.body[:k])
            lp = br.body[k]
            conj = [subst(c, dict((a, b) for a, b in env.items() if a != "i")) for c in _conjuncts(lp.test)]
            init = env.get("i")
            step = [st for st in lp.body if isinstance(st, ast.AugAssign) and norm(st.target) == "i" and isinstance(st.op, ast.Add) and norm(st.value) == "1"]
            rets = [st for st in br.body[k + 1:] if isinstance(st, ast.Return)]
            bound = any(_canon_x(norm(c)) in ("i<W", "W>i") for c in conj)
            zero = any(_bit_zero(norm(c)) for c in conj)
            r_ok = bool(rets) and isinstance(rets[0].value, ast.Call) and norm(rets[0].value.func) == "ExprInt" and \
                _canon_x(norm(subst(rets[0].value.args[0], dict((a, b) for a, b in env.items() if a != "i")))) == "i" and \
                _canon_x(norm(subst(rets[0].value.args[1], env))) == "W"
            ok_t = init is not None and norm(init) == "0" and len(step) == 1 and len(lp.body) == 1 and bound and zero and len(conj) == 2 and r_ok
            detail = "loop `while %s` from i = %s, result `%s`" % (norm(lp.test), norm(init) if init is not None else "?", norm(rets[0].value) if rets else "?")
        elif not loops:
            cf = _closed_form_counts(br, "trail")
            if cf is not None:
                ok_t, detail = cf[0] and cf[1], "closed form: " + cf[2]
    ck.ob("R5", "cnttrailzeros:zero-gives-size", ok_t, m.where(br or fn),
          "cnttrailzeros must count the zero bits from bit 0 and stop at the width (so that 0 gives the width): %s" % detail)
    # ---- cntleadzeros: 0 -> W; i = W - 1; while bit i zero: i -= 1; result ExprInt(W - (i + 1), W)
    br = _branch(fn, "cntleadzeros")
    ok_g = ok_f = False
    detail = "branch not found"
    if br is not None:
        loops = [k for k, st in enumerate(br.body) if isinstance(st, ast.While)]
        if len(loops) == 1:
            k = loops[0]
            pre = br.body[:k]
            env = straightline_env([st for st in pre if not isinstance(st, ast.If)])
            guards = [st for st in pre if isinstance(st, ast.If)]
            for g in guards:
                t = _canon_x(norm(subst(g.test, env)))
                r_ = [x for x in g.body if isinstance(x, ast.Return)]
                if t in ("x==0", "notx", "0==x") and r_ and isinstance(r_[0].value, ast.Call) and \
                        [_canon_x(norm(subst(a, env))) for a in r_[0].value.args] == ["W", "W"]:
                    ok_g = True
            env2 = dict((a, b) for a, b in env.items() if a != "i")
            lp = br.body[k]
            conj = [subst(c, env2) for c in _conjuncts(lp.test)]
            init = env.get("i")
            step = [st for st in lp.body if isinstance(st, ast.AugAssign) and norm(st.target) == "i" and isinstance(st.op, ast.Sub) and norm(st.value) == "1"]
            rets = [st for st in br.body[k + 1:] if isinstance(st, ast.Return)]
            r_ok = False
            if rets and isinstance(rets[0].value, ast.Call) and norm(rets[0].value.func) == "ExprInt":
                a0 = ast.parse(_canon_x(norm(subst(rets[0].value.args[0], env2))), mode="eval").body
                terms, c = linear(a0)
                r_ok = dict(terms) == {"W": 1, "i": -1} and c == -1 and _canon_x(norm(subst(rets[0].value.args[1], env))) == "W"
            i_ok = init is not None and _canon_x(norm(init)) == "W-1"
            ok_f = i_ok and len(step) == 1 and len(lp.body) == 1 and len(conj) == 1 and _bit_zero(norm(conj[0])) and r_ok
            detail = "loop `while %s` from i = %s, result `%s`" % (norm(lp.test), norm(init) if init is not None else "?", norm(rets[0].value) if rets else "?")
        elif not loops:
            cf = _closed_form_counts(br, "lead")
            if cf is not None:
                ok_g, ok_f, detail = cf[0], cf[1], "closed form: " + cf[2]
    ck.ob("R5", "cntleadzeros:zero-gives-size", ok_g, m.where(br or fn), "cntleadzeros(0) must fold to the width")
    ck.ob("R5", "cntleadzeros:formula", ok_f, m.where(br or fn), "cntleadzeros must count from the most significant bit: %s" % detail)
    # ---- unary minus
    ok = False
    for st in fn.body:
        if isinstance(st, ast.If) and "op_name == '-'" in norm(st.test) and "len(args) == 1" in norm(st.test) and "is_int" in norm(st.test):
            for r_ in st.body:
                if isinstance(r_, ast.Return) and isinstance(r_.value, ast.Call) and norm(r_.value.func) == "ExprInt":
                    ok = [_canon_x(norm(a)) for a in r_.value.args] == ["-x", "W"]
    ck.ob("R5", "neg:formula", ok, m.where(fn), "unary minus must fold to -value modulo 2^size")


def _view_of(e):
    """('S'|'U'|'?', text of the viewed operand): mod_size2int[..](x) is the signed view, mod_size2uint[..](x) / int(x) / x the unsigned one."""
    while isinstance(e, ast.Call) and callee_attr(e) == "int" and isinstance(e.func, ast.Name) and len(e.args) == 1:
        e = e.args[0]
    if isinstance(e, ast.Call) and isinstance(e.func, ast.Subscript) and dotted(e.func.value) in ("mod_size2int", "mod_size2uint") and len(e.args) == 1:
        x = e.args[0]
        while isinstance(x, ast.Call) and callee_attr(x) == "int" and isinstance(x.func, ast.Name) and len(x.args) == 1:
            x = x.args[0]
        szof = norm(e.func.slice).replace(".size", "")
        if szof != norm(x):
            return "?", norm(x)
        return ("S" if dotted(e.func.value) == "mod_size2int" else "U"), norm(x)
    if isinstance(e, (ast.Name, ast.Attribute, ast.Subscript)):
        return "U", norm(e)
    return "?", norm(e)


def _r5_views(ck, m, cmpf, toks):
    from sa.symval import paths, op_decider
    from sa.astutil import less_than
    # extensions
    ef = m.func("simp_ext_cst")
    ok = True
    seen = 0
    for op, want in (("zeroExt_32", "U"), ("signExt_32", "S")):
        for p_ in paths(ef.body, decide=op_decider(("expr.op",), op, toks)):
            if p_.kind != "return" or not (isinstance(p_.value, ast.Call) and norm(p_.value.func) == "ExprInt"):
                continue
            seen += 1
            v, who = _view_of(p_.value.args[0])
            ok = ok and v == want and norm(p_.value.args[1]) == "expr.size" and who == "expr.args[0]"
    ck.ob("R5", "ext:views", ok and seen >= 2, m.where(ef), "zero extension must use the unsigned value, sign extension the signed view, re-masked to the new width")
    # comparisons
    REF = {"<u": ("U", "<"), "<=u": ("U", "<="), "<s": ("S", "<"), "<=s": ("S", "<=")}
    ok = True
    seen = 0
    detail = ""
    for op, (view, rel) in sorted(REF.items()):
        for p_ in paths(cmpf.body, decide=op_decider(("expr.op",), op, toks)):
            if p_.kind != "return" or not (isinstance(p_.value, ast.Call) and norm(p_.value.func) == "ExprInt"):
                continue
            v0 = p_.value.args[0]
            pol = True
            if isinstance(v0, ast.IfExp) and isinstance(v0.body, ast.Constant) and isinstance(v0.orelse, ast.Constant) and (v0.body.value, v0.orelse.value) in ((1, 0), (0, 1)):
                pol = v0.body.value == 1
                v0 = v0.test
            elif isinstance(v0, ast.Constant) and v0.value in (0, 1):
                # `if <comparison>: ret = 1 else: ret = 0`: the comparison is the last path condition
                cmpc = [(c, b) for c, b in p_.conds if less_than(c, True) is not None and "is_int" not in norm(c)]
                if not cmpc:
                    continue
                c, b = cmpc[-1]
                pol = (b == bool(v0.value))
                v0 = c
            lt = less_than(v0, pol)
            if lt is None:
                continue
            seen += 1
            (va, wa), (vb, wb) = _view_of(lt[0]), _view_of(lt[1])
            good = va == vb == view and lt[2] == (rel == "<") and wa != wb and norm(p_.value.args[1]) == "1"
            if not good:
                ok = False
                detail = "%s folds as `%s`" % (op, norm(v0))
    ck.ob("R5", "compare:views", ok and seen >= 4, m.where(cmpf),
          "signed comparisons must use the signed view, unsigned ones the unsigned view; < vs <= by operator (%s)" % (detail or "%d folding paths understood" % seen))


def _ancestors(n):
    p = getattr(n, "_parent", None)
    while p is not None:
        yield p
        p = getattr(p, "_parent", None)
