"""C30 - assembly CFG edges mirror block constraints (core/asmblock.py: AsmCFG).

 R1 synchronised mutation: add_edge / del_edge update the constraint table, the DiGraph edge and the
    source block's `bto` together on every path that changes one of them
 R2 pending purge: a method that removes a block from the block table also drops the pending entries
    that block was waiting on; add_block resolves the waiters of the new block and files a pending entry
    for every absent destination / an edge for every present one
 R3 rebuild_edges resets the pendings, derives edges only from `bto`, and deletes edges no longer in `bto`
 R4 who-writes: the three internal tables are written only inside AsmCFG (all of miasm/ scanned)
"""
import ast

from sa.astutil import walk_body, walk_local, dotted, norm, callee_attr, MUTATORS, assigned_targets
from sa.cfg import CFG, node_calls, node_exprs

REL = "miasm/core/asmblock.py"
LEVEL_TEXT = ("Pairing / who-writes rules over AsmCFG's mutators: per-path co-update of edges2constraint, the DiGraph edge "
              "and bto; pending purge wherever the block table shrinks; rebuild derives from bto only; no writer of the "
              "internal tables outside the class. Decides these necessary clauses for every mutation sequence.")
ASSUMPTIONS = ["CPython ast", "DiGraph.add_edge/del_edge keep _edges/_nodes_succ/_nodes_pred in step (C27-R1)"]
TABLES = ("edges2constraint", "_pendings", "_loc_key_to_block")


def _writes(node, table):
    """Does the ast subtree write self.<table> (store, del, mutating call, rebinding)?"""
    want = "self." + table
    for n in walk_local(node):
        if isinstance(n, (ast.Assign, ast.AugAssign, ast.Delete)):
            for t in assigned_targets(n):
                if dotted(t) == want:
                    return True
                b = t
                while isinstance(b, ast.Subscript):
                    b = b.value
                    if dotted(b) == want:
                        return True
        if isinstance(n, ast.Call) and isinstance(n.func, ast.Attribute) and n.func.attr in MUTATORS:
            b = n.func.value
            while isinstance(b, (ast.Subscript, ast.Call)):
                b = b.value if isinstance(b, ast.Subscript) else (b.func.value if isinstance(b.func, ast.Attribute) else None)
                if b is None:
                    break
            if b is not None and dotted(b) == want:
                return True
            if dotted(n.func.value) == want:
                return True
    return False


def run(ck):
    ck.rule("R5", "no loop walks a live view of a container of the graph while removing from that container", floor=13)
    from rules.c30 import live_iteration_rules
    live_iteration_rules(ck, "R5", [("miasm/core/asmblock.py", "AsmCFG")])
    m = ck.repo.mod(REL)
    from sa.prenorm import inline_helpers
    raw = m.methods("AsmCFG")
    # private helpers of the class are part of the method that calls them (an extracted `_add_pending` is still add_block filing a pending)
    meths = dict((k_, inline_helpers(v_, raw, accept=lambda n_: n_.startswith("_") and not n_.startswith("__"))) for k_, v_ in raw.items())
    ck.rule("R1", "add_edge/del_edge update constraint table, graph edge and bto together", floor=2)
    ck.rule("R2", "block removal purges its pendings; add_block resolves waiters and files pendings/edges", floor=2)
    ck.rule("R3", "rebuild_edges resets pendings and derives edges only from bto", floor=2)
    ck.rule("R4", "internal tables are written only by AsmCFG methods", floor=1)
    ck.rule("R6", "constraints live in a set (AsmBlock.bto) and are updated in place: they are hashed by identity", floor=1)
    # a constraint's target and kind are plain writable attributes (rebuild_edges and user code change them in place) and the
    # constraint sits in the set `bto`: with a value-based __eq__ / __hash__ an updated constraint stays filed under its old hash,
    # `bto.remove(c)` in del_edge raises KeyError half-way through del_block and leaves edges / pendings / blocks inconsistent
    for cname in ("AsmConstraint", "AsmConstraintNext", "AsmConstraintTo"):
        if cname not in m.classes:
            continue
        cdef = m.classes[cname]
        valued = sorted(st.name for st in cdef.body if isinstance(st, ast.FunctionDef) and st.name in ("__eq__", "__hash__", "__ne__", "__lt__", "__cmp__"))
        init = [st for st in cdef.body if isinstance(st, ast.FunctionDef) and st.name == "__init__"]
        writable = cname != "AsmConstraint" or any(isinstance(n, ast.Assign) and any(dotted(t) in ("self.loc_key", "self.c_t") for t in n.targets)
                                                   for f_ in init for n in walk_body(f_))
        frozen = any(isinstance(st, ast.Assign) and norm(st.targets[0]) in ("loc_key", "c_t") and "property(" in norm(st.value) for st in cdef.body)
        ck.ob("R6", "%s:identity-hash" % cname, not valued or (frozen and not writable), m.where(cdef),
              "%s defines %s while its target / kind are writable attributes and its instances are members of the set AsmBlock.bto: a "
              "constraint changed in place can no longer be found (or removed) in the set" % (cname, valued))

    # ---------------------------------------------------------------- R1
    fn = meths.get("add_edge")
    ck.need(fn is not None, "AsmCFG.add_edge vanished")
    cfg = CFG(fn)
    is_tab = lambda nd: nd.kind == "stmt" and _writes(nd.ast, "edges2constraint")
    is_sup = lambda nd: any(isinstance(c.func, ast.Attribute) and c.func.attr == "add_edge" and "super" in norm(c.func.value) for c in node_calls(nd))
    tabs = [nd for nd in cfg.nodes if is_tab(nd)]
    sups = [nd for nd in cfg.nodes if is_sup(nd)]
    ok = bool(tabs) and bool(sups)
    for t in tabs:
        if not (cfg.must_pass(is_sup, targets=[cfg.exit.id], from_node=t.id)[cfg.exit.id] or any(s.id in cfg.dominators()[t.id] for s in sups)):
            ok = False
    for s in sups:
        if not (cfg.must_pass(is_tab, targets=[cfg.exit.id], from_node=s.id)[cfg.exit.id] or any(t.id in cfg.dominators()[s.id] for t in tabs)):
            ok = False
    ck.ob("R1", "AsmCFG.add_edge:table+graph", ok, m.where(fn), "a path adds the graph edge without recording its constraint, or the reverse")
    # constraint stored is the parameter, key is (src, dst)
    srcp, dstp, cstp = [a.arg for a in fn.args.args[1:4]]
    ok = any(isinstance(n, ast.Assign) and norm(n.targets[0]) == "self.edges2constraint[%s, %s]" % (srcp, dstp)
             and norm(n.value) == cstp for n in walk_body(fn)) or any(
        isinstance(n, ast.Assign) and norm(n.targets[0]).replace("(", "").replace(")", "") == "self.edges2constraint[%s, %s]" % (srcp, dstp)
        and norm(n.value) == cstp for n in walk_body(fn))
    ck.ob("R1", "AsmCFG.add_edge:key-value", ok, m.where(fn), "the edge's constraint is not stored under (src, dst)")
    # bto of a present source block gets the constraint
    ok = any(isinstance(c, ast.Call) and isinstance(c.func, ast.Attribute) and c.func.attr == "add" and norm(c.func.value).endswith(".bto")
             and "AsmConstraint(%s, %s)" % (dstp, cstp) in norm(c) for c in walk_body(fn))
    ck.ob("R1", "AsmCFG.add_edge:bto", ok, m.where(fn), "the source block's bto is not completed with AsmConstraint(dst, constraint)")
    # a different constraint for an existing edge is refused
    ok = any(isinstance(n, ast.Assert) and "==" in norm(n.test) and cstp in norm(n.test) for n in walk_body(fn)) or any(
        isinstance(n, ast.Raise) for n in walk_body(fn))
    ck.ob("R1", "AsmCFG.add_edge:conflict", ok, m.where(fn), "an existing edge with another constraint kind is silently kept/overwritten")
    fn = meths.get("del_edge")
    ck.need(fn is not None, "AsmCFG.del_edge vanished")
    srcp, dstp = [a.arg for a in fn.args.args[1:3]]
    body = ast.Module(body=fn.body, type_ignores=[])
    d_tab = any(isinstance(n, ast.Delete) and any("self.edges2constraint[" in norm(t) and srcp in norm(t) and dstp in norm(t) for t in n.targets)
                for n in walk_local(body)) or any(isinstance(c, ast.Call) and dotted(c.func) == "self.edges2constraint.pop" for c in walk_local(body))
    d_sup = any(isinstance(c, ast.Call) and isinstance(c.func, ast.Attribute) and c.func.attr == "del_edge" and "super" in norm(c.func.value)
                for c in walk_local(body))
    d_bto = any(isinstance(c, ast.Call) and isinstance(c.func, ast.Attribute) and c.func.attr in ("remove", "discard") and norm(c.func.value).endswith(".bto")
                for c in walk_local(body))
    ck.ob("R1", "AsmCFG.del_edge", d_tab and d_sup and d_bto, m.where(fn),
          "del_edge must drop the constraint entry (%s), the graph edge (%s) and the bto constraint (%s)" % (d_tab, d_sup, d_bto))

    # ---------------------------------------------------------------- R2
    for name, fn in sorted(meths.items()):
        shrinks = False
        for n in walk_body(fn):
            if isinstance(n, ast.Delete) and any(isinstance(t, ast.Subscript) and dotted(t.value) == "self._loc_key_to_block" for t in n.targets):
                shrinks = True
            if isinstance(n, ast.Call) and dotted(n.func) in ("self._loc_key_to_block.pop", "self._loc_key_to_block.clear"):
                shrinks = True
        if not shrinks:
            continue
        ok = _writes(ast.Module(body=fn.body, type_ignores=[]), "_pendings")
        ck.ob("R2", "AsmCFG.%s:purge-pendings" % name, ok, m.where(fn),
              "%s removes a block from the block table but leaves the pending entries it was waiting on: when the awaited "
              "block is added later an edge from the deleted block re-appears" % name)
        rm_node = any(isinstance(c, ast.Call) and isinstance(c.func, ast.Attribute) and c.func.attr == "del_node" for c in walk_body(fn))
        ck.ob("R2", "AsmCFG.%s:graph-node" % name, rm_node, m.where(fn), "%s leaves the node (and its edges) in the graph" % name)
    fn = meths.get("add_block")
    ck.need(fn is not None, "AsmCFG.add_block vanished")
    bp = fn.args.args[1].arg
    # waiters resolved
    ok = False
    for n in walk_body(fn):
        if isinstance(n, ast.For) and norm(n.iter) == "self._pendings[%s.loc_key]" % bp:
            if any(isinstance(c, ast.Call) and dotted(c.func) == "self.add_edge" for c in walk_local(n)):
                ok = True
    ok = ok and any(isinstance(n, ast.Delete) and any(norm(t) == "self._pendings[%s.loc_key]" % bp for t in n.targets) for n in walk_body(fn))
    ck.ob("R2", "AsmCFG.add_block:resolve-waiters", ok, m.where(fn), "waiters of the new block are not turned into edges and removed from the pendings")
    # absent destination -> pending, present -> edge
    loop = [n for n in walk_body(fn) if isinstance(n, ast.For) and norm(n.iter) == "%s.bto" % bp]
    ok = False
    if loop:
        ifs = [s for s in loop[0].body if isinstance(s, ast.If)]
        if ifs and "is None" in norm(ifs[0].test):
            ok = _writes(ast.Module(body=ifs[0].body, type_ignores=[]), "_pendings") and any(
                isinstance(c, ast.Call) and dotted(c.func) == "self.add_edge" for c in walk_local(ast.Module(body=ifs[0].orelse, type_ignores=[])))
    ck.ob("R2", "AsmCFG.add_block:bto-sync", ok, m.where(fn),
          "each constraint of the new block must become a pending entry (destination absent) or an edge (destination present)")
    ok = any(isinstance(n, ast.Assign) and norm(n.targets[0]) == "self._loc_key_to_block[%s.loc_key]" % bp and norm(n.value) == bp for n in walk_body(fn))
    ck.ob("R2", "AsmCFG.add_block:register", ok, m.where(fn), "the block is not registered in the block table")

    # ---------------------------------------------------------------- R3
    fn = meths.get("rebuild_edges")
    ck.need(fn is not None, "AsmCFG.rebuild_edges vanished")
    first = fn.body[1] if isinstance(fn.body[0], ast.Expr) and isinstance(fn.body[0].value, ast.Constant) else fn.body[0]
    ok = isinstance(first, ast.Assign) and norm(first.targets[0]) == "self._pendings" and norm(first.value) in ("{}", "dict()")
    ck.ob("R3", "rebuild_edges:reset-pendings", ok, m.where(fn), "pendings are not reset before being rebuilt")
    loops = [n for n in walk_body(fn) if isinstance(n, ast.For) and norm(n.iter).endswith(".bto")]
    ok = bool(loops) and _writes(loops[0], "_pendings") and any(isinstance(c, ast.Call) and dotted(c.func) == "self.add_edge" for c in walk_local(loops[0]))
    ck.ob("R3", "rebuild_edges:from-bto", ok, m.where(fn), "edges/pendings are not derived from each block's bto")
    ok = bool(loops) and any(isinstance(n, ast.Assign) and "self.edges2constraint[" in norm(n.targets[0]) and norm(n.value).endswith(".c_t") for n in walk_local(loops[0]))
    ck.ob("R3", "rebuild_edges:update-kind", ok, m.where(fn), "the constraint kind of an existing edge is not refreshed from bto")
    # the removal loop: some loop calling del_edge whose selection excludes what the bto loop collected
    # (`if edge not in <collected>` or iterating `<all successors> - <collected>`)
    collected = set()
    if loops:
        for c in walk_local(loops[0]):
            if isinstance(c, ast.Call) and isinstance(c.func, ast.Attribute) and c.func.attr in ("append", "add") and isinstance(c.func.value, ast.Name):
                collected.add(c.func.value.id)
    ok = False
    for lp in [n for n in walk_body(fn) if isinstance(n, ast.For) and not norm(n.iter).endswith(".bto")]:
        if not any(isinstance(c, ast.Call) and dotted(c.func) == "self.del_edge" for c in walk_local(lp)):
            continue
        by_test = any(isinstance(t, ast.If) and isinstance(t.test, ast.Compare) and isinstance(t.test.ops[0], ast.NotIn) and
                      isinstance(t.test.comparators[0], ast.Name) and t.test.comparators[0].id in collected and
                      any(isinstance(c, ast.Call) and dotted(c.func) == "self.del_edge" for c in walk_local(t)) for t in walk_local(lp))
        by_diff = any(isinstance(b, ast.BinOp) and isinstance(b.op, ast.Sub) and isinstance(b.right, ast.Name) and b.right.id in collected
                      for b in walk_local(lp.iter))
        # or the loop walks a list already filtered by `... not in <collected>`
        from sa.astutil import Resolver as _Rs
        it_ = lp.iter
        if isinstance(it_, ast.Name) and _Rs(fn).unique_def(it_.id) is not None:
            it_ = _Rs(fn).unique_def(it_.id)
        by_comp = isinstance(it_, (ast.ListComp, ast.GeneratorExp, ast.SetComp)) and any(
            isinstance(c_, ast.Compare) and isinstance(c_.ops[0], ast.NotIn) and isinstance(c_.comparators[0], ast.Name) and c_.comparators[0].id in collected
            for g_ in it_.generators for c_ in g_.ifs)
        by_test = by_test or by_comp
        if by_test or by_diff:
            ok = True
    ck.ob("R3", "rebuild_edges:remove-stale", ok, m.where(fn), "edges no longer backed by a bto constraint are not removed")

    # ---------------------------------------------------------------- R4
    outside = dict((t, []) for t in TABLES)
    files = ck.repo.pyfiles("miasm") if ck.tier == "thorough" else ["miasm/core/asmblock.py", "miasm/core/parse_asm.py", "miasm/analysis/binary.py",
                                                                   "miasm/jitter/jitcore.py", "miasm/analysis/dse.py"]
    for rel in files:
        if not ck.repo.exists(rel):
            continue
        mm = ck.repo.mod(rel)
        for q, f in mm.funcs.items():
            if rel == REL and q.startswith("AsmCFG."):
                continue
            for n in walk_body(f):
                for t in TABLES:
                    if isinstance(n, (ast.Assign, ast.AugAssign, ast.Delete)):
                        for tg in assigned_targets(n):
                            b = tg
                            while isinstance(b, ast.Subscript):
                                b = b.value
                            if isinstance(b, ast.Attribute) and b.attr == t:
                                outside[t].append("%s:%s" % (rel, q))
                    if isinstance(n, ast.Call) and isinstance(n.func, ast.Attribute) and n.func.attr in MUTATORS and \
                            isinstance(n.func.value, ast.Attribute) and n.func.value.attr == t and t != "_pendings":
                        outside[t].append("%s:%s" % (rel, q))
    for t in TABLES:
        ck.ob("R4", "who-writes:%s" % t, not outside[t], REL, "%s is written outside AsmCFG: %s" % (t, sorted(set(outside[t]))[:4]))


def live_iteration_rules(ck, rid, classes):
    """Shared by C27 / C30 / C31: no method walks a live view of one of its container fields while removing from it
    (sa/liveiter: live-view and mutation summaries over the class's MRO, super() calls resolved to the next definition)."""
    from sa.liveiter import ClassModel
    n = 0
    for rel, cname in classes:
        cm = ClassModel(ck.repo, ck.repo.mod(rel), cname)
        for m, name, loop, path, key, conf in cm.loops():
            n += 1
            field = "self." + path[0] + ("[%s]" % key if len(path) == 2 else "")
            ck.ob(rid, "%s.%s:for %s in %s" % (cname, name, norm(loop.target)[:20], norm(loop.iter)[:40]), conf is None, m.where(loop),
                  "the loop walks the live container %s while `%s` removes from it (%s): a list skips the element after each removal, so "
                  "every second entry survives; iterate over a copy" % (field, conf[0] if conf else "", conf[3] if conf else ""))
    return n
