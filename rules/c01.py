"""C01 - expression simplification preserves meaning and never crashes (structural clauses).

 R1 pass-table integrity: every entry of the pass tables resolves to a function of two parameters; the Expr
    class it is registered under is the node kind assumed for its second parameter by the other rules
 R2 guarded access ("never raises"): in every pass, a class-specific attribute (.op/.args, .arg/.start/.stop,
    .cond/.src1/.src2, .ptr, int()) is read only on access paths whose node kind is established on every path
    to the read (flow-sensitive must-analysis with aliases; see sa/kinds.py)
 R4 lossless narrowing: a constant rebuilt at a smaller width S from an ExprInt X (ExprInt(int(X), S), X[:S])
    is dominated by a guard implying 0 <= X < 2^S (signed range for signed comparisons); an off-by-one guard
    is distinguished from a correct one; narrowing under '&' with zero-extended partners is exempt (computed)
 R4b two-sided out-of-range collapse: a guard `t >= HI or t < LO` may not return one constant for an ordering
    comparison (the comparison has opposite truth on the two sides)
 R5 unbounded Python exponent / shift: a Python-level ** or << whose right operand is int(ExprInt) must be
    bounded by a width (guard, modular reduction, or three-argument pow)
 R6 the pass loop stops as soon as the class of the expression changes; enabling passes clears the memo cache
"""
import ast
import re

from sa.astutil import walk_body, walk_local, dotted, norm, callee_attr, Resolver, str_elts
from sa.cfg import CFG, node_exprs
from sa.facts import guard_facts
from sa.repo import AnalysisError

SIMP = "miasm/expression/simplifications.py"
HELP = "miasm/expression/expression_helper.py"
LEVEL_TEXT = ("Registry integrity; flow-sensitive node-kind must-analysis over every pass for class-specific attribute reads; "
              "symbolic guard check for every constant-narrowing site (exact bound vs off-by-one vs none); contradiction "
              "lint for two-sided collapses; bound analysis for Python-level ** and <<; loop/caching structure of the "
              "simplifier. Decides that no AttributeError/TypeError/IndexError can come from the shape of a well-formed "
              "input, that narrowed constants are representable and that exponents are bounded; does not decide that each "
              "rewrite is a value identity.")
ASSUMPTIONS = ["CPython ast", "well-formed inputs: ExprOp arities as constructed by the lifters (n-ary associative, binary, unary)",
               "node kinds are decided by the is_*() predicates and isinstance tests recognised in sa/kinds.py"]
MODS = {"simplifications_common": "miasm/expression/simplifications_common.py", "simplifications_cond": "miasm/expression/simplifications_cond.py",
        "simplifications_explicit": "miasm/expression/simplifications_explicit.py"}


def pass_tables(ck):
    """[(table name, Expr class, module rel, function name)] from ExpressionSimplifier's class-level dicts."""
    m = ck.repo.mod(SIMP)
    cls = m.cls("ExpressionSimplifier")
    out = []
    for st in cls.body:
        if isinstance(st, ast.Assign) and isinstance(st.value, ast.Dict) and norm(st.targets[0]).startswith("PASS_"):
            tname = norm(st.targets[0])
            for k, v in zip(st.value.keys, st.value.values):
                kcls = k.attr if isinstance(k, ast.Attribute) else getattr(k, "id", "?")
                if not isinstance(v, (ast.List, ast.Tuple)):
                    raise AnalysisError("%s[%s] is not a list literal" % (tname, kcls))
                for e in v.elts:
                    d = dotted(e)
                    if d is None or "." not in d:
                        out.append((tname, kcls, None, norm(e), e))
                        continue
                    modn, fn = d.rsplit(".", 1)
                    out.append((tname, kcls, MODS.get(modn), fn, e))
    return out


def run(ck):
    ck.rule("R1", "every pass-table entry resolves to a two-parameter function registered under one Expr class", floor=26)
    ck.rule("R2", "class-specific attributes are read only where the node kind is established on every path", floor=399)
    ck.rule("R4", "a constant narrowed to S bits is proved to fit in S bits", floor=5)
    ck.rule("R4b", "an out-of-range guard joining both sides with `or` does not return a single truth value", floor=1)
    ck.rule("R5", "Python-level ** and << on integers taken from expressions are bounded", floor=2)
    ck.rule("R7", "a Python-level sum/product/shift of operand constants re-encoded with ExprInt is not used where wrapping modulo 2^size changes the value (shift/rotate counts, division, comparison)", floor=1)
    ck.rule("R6", "pass loop stops on class change; enable_passes clears the cache", floor=1)
    ck.rule("R9", "explicit flag formulas: carry / overflow of a + b, a - b and their with-carry siblings (shared with C03-R5)", floor=4)
    from rules._composites import flag_formula_rules
    flag_formula_rules(ck, "R9", "miasm/expression/simplifications_explicit.py")
    ck.rule("R10", "Expr.zeroExtend / signExtend / msb, which the rewrite rules use to build their results, build the operator they are named after (shared with C05-R4)", floor=3)
    from rules._exprhelpers import extension_helper_rules
    extension_helper_rules(ck, "R10")
    ck.rule("R8", "two constants fused into one ExprInt are concatenated at the low part's width and the result has the sum of both widths", floor=1)

    tables = pass_tables(ck)
    sm = ck.repo.mod(SIMP)
    passes = []
    for (tname, kcls, rel, fname, node) in tables:
        ok = rel is not None and ck.repo.exists(rel) and fname in ck.repo.mod(rel).funcs
        two = ok and len(ck.repo.mod(rel).funcs[fname].args.args) == 2
        ck.ob("R1", "%s[%s]:%s" % (tname, kcls, fname), ok and two, sm.where(node),
              "pass %s registered for %s does not resolve to a function (expr_simp, expr)" % (fname, kcls))
        if ok and two:
            passes.append((tname, kcls, rel, fname))
    shipped = set()
    for n in ast.walk(sm.tree):
        if isinstance(n, ast.Call) and isinstance(n.func, ast.Attribute) and n.func.attr == "enable_passes" and n.args:
            shipped.add(norm(n.args[0]).split(".")[-1])

    # ---------------------------------------------------------------- R6
    fn = sm.func("ExpressionSimplifier.apply_simp")
    ok = False
    for lp in [n for n in walk_body(fn) if isinstance(n, ast.For)]:
        for s_ in lp.body:
            if isinstance(s_, ast.If) and norm(s_.test).replace(" ", "") in ("expression.__class__isnotcls", "type(expression)isnotcls",
                                                                            "notisinstance(expression,cls)") and any(isinstance(x, ast.Break) for x in s_.body):
                ok = True
    ck.ob("R6", "apply_simp:class-change-break", ok, sm.where(fn), "the pass loop goes on after a pass changed the class of the expression: the next pass receives a node kind it was not registered for")
    ok = any(isinstance(n, ast.Assign) and norm(n.targets[0]) == "cls" and norm(n.value) in ("expression.__class__", "type(expression)") for n in walk_body(fn)) and \
        any(isinstance(n, ast.For) and norm(n.iter).startswith("self.expr_simp_cb.get(cls") for n in walk_body(fn))
    ck.ob("R6", "apply_simp:dispatch-by-class", ok, sm.where(fn), "passes must be selected by the expression's class")
    fn = sm.func("ExpressionSimplifier.enable_passes")
    first = [s_ for s_ in fn.body if not (isinstance(s_, ast.Expr) and isinstance(s_.value, ast.Constant))]
    ok = bool(first) and isinstance(first[0], ast.Expr) and isinstance(first[0].value, ast.Call) and dotted(first[0].value.func) == "self.cache.clear"
    ck.ob("R6", "enable_passes:cache-reset", ok, sm.where(fn), "results memoised under the previous pass set survive enable_passes")

    # ---------------------------------------------------------------- R5 / R4 / R4b over every pass and the helpers they share a module with
    seen_fn = set()
    n7 = 0
    for rel in sorted(set(p[2] for p in passes)):
        m = ck.repo.mod(rel)
        for q, f in sorted(m.funcs.items()):
            if "." in q or (rel, q) in seen_fn:
                continue
            seen_fn.add((rel, q))
            _r5(ck, m, q, f)
            _r4(ck, m, q, f)
            _r4b(ck, m, q, f)
            n7 += _r7(ck, m, q, f)
    # R8 over the passes' modules and the helper module they call into
    n8 = 0
    for rel in sorted(set(p[2] for p in passes) | set([HELP])):
        m = ck.repo.mod(rel)
        for q, f in sorted(m.funcs.items()):
            if "." not in q:
                n8 += _r8(ck, m, q, f)
    ck.need(n8 >= 1, "R8: no constant concatenation site found (merge_sliceto_slice moved?)")
    # positive/negative fixtures for R7 (its instance count on a correct tree may be zero)
    fx = ast.parse(_R7_FIXTURE)
    for node in ast.walk(fx):
        for ch in ast.iter_child_nodes(node):
            ch._parent = node
    got = dict((fn_.name, [st for (_n, _c, st) in _r7_sites(fn_)]) for fn_ in fx.body)
    if got != {"wraps": ["unbounded"], "bounded": ["bounded"], "modular": [], "folded": [], "reduced": []}:
        raise AnalysisError("R7 self-check on the built-in fixture failed: %r" % (got,))
    ck.ob("R7", "fixture:wrap-detected", True, "rules/c01.py:_R7_FIXTURE", "built-in positive and negative examples classified as expected")
    ck.note("R7: %d wrap-sensitive re-encoding site(s) in the passes" % n7)

    # ---------------------------------------------------------------- R2
    from sa import kinds
    # reads decided by an argument the flow analysis cannot see, one reason each
    exempt = {
        ("simp_add_multiple", "unpack expr.args[*].args"):
            "passes run bottom-up on simplified children: an n-ary '*' whose second operand is a constant has exactly two operands "
            "(constants are folded into one and sorted last), and '<<' is binary",
    }
    for (tname, kcls, rel, fname) in sorted(set(passes)):
        m = ck.repo.mod(rel)
        f = m.funcs[fname]
        label = "" if tname in shipped else " (table %s is in no shipped configuration)" % tname
        for (key, ok, where, detail) in kinds.check_function(ck.repo, m, f, kcls):
            ex = [r_ for (fn_, pre), r_ in exempt.items() if fn_ == fname and key.startswith(pre)]
            if ex and not ok:
                ck.note("R2 exempt %s:%s - %s" % (fname, key, ex[0]))
                ok = True
            ck.ob("R2", "%s:%s" % (fname, key), ok, where, detail + label)


# ------------------------------------------------------------------------------------------------ R5
_R7_FIXTURE = '''
def wraps(e_s, expr):
    op_name, args = expr.op, list(expr.args)
    if op_name in ['<<', '>>'] and args[0].is_op(op_name):
        X = args[0].args[1]
        Y = args[1]
        if X.is_int() and Y.is_int():
            args = [args[0].args[0], ExprInt(int(X) + int(Y), X.size)]
    return ExprOp(op_name, *args)
def bounded(e_s, expr):
    op_name, args = expr.op, list(expr.args)
    if op_name in ['<<', '>>'] and args[0].is_op(op_name):
        X = args[0].args[1]
        Y = args[1]
        if X.is_int() and Y.is_int() and int(X) + int(Y) < expr.size:
            args = [args[0].args[0], ExprInt(int(X) + int(Y), X.size)]
    return ExprOp(op_name, *args)
def modular(e_s, expr):
    op_name, args = expr.op, list(expr.args)
    if op_name == '+' and args[0].is_int() and args[1].is_int():
        return ExprInt(int(args[0]) + int(args[1]), expr.size)
    return expr
def folded(e_s, expr):
    if expr.op == '<<' and expr.args[0].is_int() and expr.args[1].is_int() and int(expr.args[1]) < expr.size:
        return ExprInt(int(expr.args[0]) << int(expr.args[1]), expr.size)
    return expr
def reduced(e_s, expr):
    if expr.op == '>>>' and expr.args[0].is_op('>>>'):
        return ExprOp('>>>', expr.args[0].args[0], ExprInt((int(expr.args[1]) + int(expr.args[0].args[1])) % expr.size, expr.size))
    return expr
'''
# operators whose operand may not be replaced by a value congruent modulo 2^size
_WRAP_SENSITIVE = set(["<<", ">>", "a>>", "<<<", ">>>", "udiv", "umod", "sdiv", "smod", "/", "%", "idiv", "imod",
                       "<u", "<=u", "<s", "<=s", "==", "**"])


def _r8(ck, m, q, f):
    """ExprInt(V, S) where V = int(L) | (int(H) << K) (through straight-line temporaries): K == L.size and S == L.size + H.size.
    A shift by anything else (an absolute offset of H in a larger composition, H's own width) misplaces the high part."""
    from sa.astutil import straightline_env, linear
    n = 0
    for blk in [x for x in ast.walk(f) if isinstance(getattr(x, "body", None), list)]:
        for fld in ("body", "orelse"):
            stmts = getattr(blk, fld, None)
            if not isinstance(stmts, list) or not stmts:
                continue
            for i, st in enumerate(stmts):
                for c in walk_local(st):
                    if not (isinstance(c, ast.Call) and (dotted(c.func) or "").split(".")[-1] == "ExprInt" and c.args):
                        continue
                    if getattr(c, "_r8_done", False):
                        continue
                    env = straightline_env(stmts[:i])
                    class _T(ast.NodeTransformer):
                        def visit_Name(self, nm):
                            if isinstance(nm.ctx, ast.Load) and nm.id in env:
                                return env[nm.id]
                            return nm
                    from sa.astutil import clone
                    v = _T().visit(clone(c.args[0]))
                    sz = c.args[1] if len(c.args) > 1 else next((k.value for k in c.keywords if k.arg == "size"), None)
                    if sz is None:
                        continue
                    sz = _T().visit(clone(sz))
                    terms = []

                    def flat(e):
                        if isinstance(e, ast.BinOp) and isinstance(e.op, (ast.BitOr, ast.Add)):
                            flat(e.left)
                            flat(e.right)
                        else:
                            terms.append(e)
                    flat(v)
                    lows = [t for t in terms if isinstance(t, ast.Call) and dotted(t.func) == "int" and len(t.args) == 1]
                    highs = [t for t in terms if isinstance(t, ast.BinOp) and isinstance(t.op, ast.LShift) and isinstance(t.left, ast.Call)
                             and dotted(t.left.func) == "int" and len(t.left.args) == 1]
                    if len(terms) != 2 or len(lows) != 1 or len(highs) != 1:
                        continue
                    c._r8_done = True
                    n += 1
                    L, H, K = norm(lows[0].args[0]), norm(highs[0].left.args[0]), highs[0].right
                    okk = linear(K) == (frozenset([("%s.size" % L, 1)]), 0)
                    oks = linear(sz) == (frozenset([("%s.size" % L, 1), ("%s.size" % H, 1)]), 0)
                    ck.ob("R8", "%s:ExprInt(int(%s)|int(%s)<<...)" % (q, L, H), okk and oks, m.where(c),
                          "the constants %s (low) and %s (high) are fused with shift `%s` and width `%s`: the high part must be shifted by "
                          "%s.size and the result be %s.size + %s.size wide" % (L, H, norm(K), norm(sz), L, L, H))
    return n


def _py_int_source(n):
    return any((isinstance(x, ast.Call) and callee_attr(x) == "int") or (isinstance(x, ast.Attribute) and x.attr == "arg") for x in walk_local(n))


def _r7_sites(f):
    """[(ExprInt call, context operators, 'bounded'|'unbounded')] for wide re-encodings in wrap-sensitive contexts."""
    res = Resolver(f)
    out = []
    cfg = facts = None
    for n in walk_body(f):
        if not (isinstance(n, ast.Call) and callee_attr(n) == "ExprInt" and len(n.args) == 2):
            continue
        e = res.expand_node(n.args[0])
        wide = isinstance(e, ast.BinOp) and ((isinstance(e.op, (ast.Add, ast.Mult)) and _py_int_source(e.left) and _py_int_source(e.right))
                                              or (isinstance(e.op, ast.LShift) and _py_int_source(e.right)))
        if not wide:
            continue
        # only an operand of a rebuilt expression: a constant that *is* the folded result is reduced modulo 2^size rightly
        par = getattr(n, "_parent", None)
        operand = isinstance(par, (ast.List, ast.Tuple, ast.BinOp, ast.Starred)) or (isinstance(par, ast.Call) and callee_attr(par) == "ExprOp")
        if not operand:
            continue
        if cfg is None:
            cfg = CFG(f)
            facts = guard_facts(cfg)
        for nd in cfg.node_containing(n):
            fs = facts.get(nd.id, frozenset())
            ctx = None
            for ft in fs:
                ops = None
                if ft[0] == "cmp" and ft[1].split(".")[-1] in ("op", "op_name") and ft[2] in ("==", "in"):
                    try:
                        v = ast.literal_eval(ft[3])
                    except Exception:
                        continue
                    ops = set([v]) if isinstance(v, str) else set(v)
                elif ft[0] == "true":
                    mt = re.match(r"^(expr|e)\.is_op\('([^']+)'\)$", ft[1])
                    if mt:
                        ops = set([mt.group(2)])
                if ops is not None:
                    ctx = ops if ctx is None else (ctx & ops)
            if not ctx or not ctx <= _WRAP_SENSITIVE:
                continue
            raw, exp = norm(n.args[0]), norm(e)
            bounded = False
            for ft in fs:
                if ft[0] == "cmp" and ((ft[2] in ("<", "<=") and ft[1] in (raw, exp)) or (ft[2] in (">", ">=") and ft[3] in (raw, exp))):
                    bounded = True
            out.append((n, sorted(ctx), "bounded" if bounded else "unbounded"))
    return out


def _r7(ck, m, q, f):
    k = 0
    for (n, ctx, st) in _r7_sites(f):
        k += 1
        ck.ob("R7", "%s:%s:ExprInt(%s)" % (m.rel.split("/")[-1], q, norm(n.args[0])), st == "bounded", m.where(n),
              "under operator(s) %s the constant `%s` is a Python-level result that ExprInt reduces modulo 2^size with no bound on it: "
              "a count/operand of 2^size+k is rewritten to k" % (ctx, norm(n.args[0])))
    return k


def _r5(ck, m, q, f):
    cfg = None
    for n in walk_body(f):
        if isinstance(n, ast.Call) and callee_attr(n) == "pow" and len(n.args) == 2:
            n = ast.copy_location(ast.BinOp(left=n.args[0], op=ast.Pow(), right=n.args[1]), n)
        if not (isinstance(n, ast.BinOp) and isinstance(n.op, (ast.Pow, ast.LShift))):
            continue
        r = n.right
        # exponent / count taken from an expression's integer value
        src = [c for c in walk_local(r) if isinstance(c, ast.Call) and callee_attr(c) == "int" and c.args and not norm(c.args[0]).endswith(".size")]
        names = [x.id for x in walk_local(r) if isinstance(x, ast.Name)]
        res = Resolver(f)
        for nm in names:
            for d in res.all_defs(nm):
                if isinstance(d, ast.Call) and callee_attr(d) == "int" and d.args and not norm(d.args[0]).endswith(".size"):
                    src.append(d)
                elif isinstance(d, ast.BinOp) and isinstance(d.op, ast.Mod) and ".size" in norm(d.right):
                    src = []      # reduced modulo a width
                    names = []
                    break
        if not src:
            continue
        # left operand must be a Python integer (literal or int(...)), not an Expr (overloaded operator)
        l = n.left
        py_left = isinstance(l, ast.Constant) or (isinstance(l, ast.Call) and callee_attr(l) == "int") or \
            (isinstance(l, ast.Name) and any(isinstance(d, ast.Call) and callee_attr(d) == "int" for d in res.all_defs(l.id)))
        if not py_left:
            continue
        if cfg is None:
            cfg = CFG(f)
            facts = guard_facts(cfg)
        rt = norm(r)
        bounded = False
        holders = cfg.node_containing(n) or cfg.node_containing(n.left)
        for nd in holders:
            fs = facts.get(nd.id, frozenset())
            for ft in fs:
                if ft[0] != "cmp":
                    continue
                a, op, b = ft[1], ft[2], ft[3]
                if a == rt and op in ("<", "<=") and ".size" in b:
                    bounded = True
                if b == rt and op in (">", ">=") and ".size" in a:
                    bounded = True
                for s_ in src:
                    st = norm(s_)
                    if a == st and op in ("<", "<=") and ".size" in b:
                        bounded = True
                    if b == st and op in (">", ">=") and ".size" in a:
                        bounded = True
            # a short-circuit `and` / `or` conjunct in the same test also counts (facts cover it through the CFG split)
        key = "%s:%s" % (q, norm(n)[:50])
        ck.ob("R5", key, bounded, m.where(n),
              "`%s` raises a Python integer to / shifts it by `%s`, a value taken from an expression with no bound against a width: "
              "a constant such as 2^40 makes the simplifier compute an astronomically large integer (it does not return)" % (norm(n)[:60], rt))


# ------------------------------------------------------------------------------------------------ R4
def _size_text(node, res):
    return res.expand(node).replace(" ", "")


def _r4(ck, m, q, f):
    res = Resolver(f)
    sites = []
    for n in walk_body(f):
        # K1: ExprInt(int(X) | V, S)
        if isinstance(n, ast.Call) and callee_attr(n) == "ExprInt" and len(n.args) == 2:
            v, s_ = n.args
            ve = res.expand_node(v)
            if isinstance(ve, ast.Call) and callee_attr(ve) == "int" and ve.args:
                x = norm(ve.args[0])
                x0 = ve.args[0]
                if isinstance(x0, ast.Name) and any(d is not None and isinstance(d, (ast.Call, ast.BinOp, ast.Constant)) and
                                                   not (isinstance(d, ast.Call) and callee_attr(d) in ("ExprInt",)) for d in res.defs.get(x0.id, [])):
                    continue      # a Python number computed in the function, re-masked by ExprInt: not an expression being narrowed
                stxt = _size_text(s_, res)
                raw = norm(s_).replace(" ", "")
                if stxt.endswith(".size") and stxt[:-5] != x and not stxt.startswith("expr.size"):
                    sites.append((n, x, (stxt, raw), "ExprInt"))
        # K2: X[:S]
        if isinstance(n, ast.Subscript) and isinstance(n.slice, ast.Slice) and n.slice.lower is None and n.slice.upper is not None and n.slice.step is None:
            stxt = _size_text(n.slice.upper, res)
            raw = norm(n.slice.upper).replace(" ", "")
            if ("size" in stxt or "size" in raw) and isinstance(n.value, ast.Name):
                sites.append((n, n.value.id, (stxt, raw), "slice"))
    if not sites:
        return
    cfg = CFG(f)
    facts = guard_facts(cfg)
    for (n, x, stxt, kind) in sites:
        nodes = cfg.node_containing(n)
        if not nodes:
            continue
        # is X known to be a constant at the site?  (facts: X.is_int() truthy) - or an element of a list comprehension
        comp = None
        p = getattr(n, "_parent", None)
        while p is not None and not isinstance(p, ast.stmt):
            if isinstance(p, (ast.ListComp, ast.GeneratorExp)) and any(isinstance(g.target, ast.Name) and g.target.id == x for g in p.generators):
                comp = p
            p = getattr(p, "_parent", None)
        fs = set()
        for nd in nodes:
            fs |= set(facts.get(nd.id, frozenset()))
        if comp is None and ("true", "%s.is_int()" % x) not in fs and not any(ft == ("false", "%s.is_int()" % x) for ft in ()):
            # X may be any expression: slicing a non-constant is not a constant narrowing
            is_const = any(ft[0] == "true" and ft[1] in ("%s.is_int()" % x, "isinstance(%s, ExprInt)" % x) for ft in fs) or kind == "ExprInt"
            if not is_const:
                continue
        status, why = "unguarded", ""
        for st_ in stxt:
            status, why = _narrow_status(f, res, fs, x, st_, comp, n)
            if status == "ok":
                break
        if status != "ok" and _reextension_guard(f, n, x):
            status = "ok"
        ck.ob("R4", "%s:%s:%s" % (q, kind, norm(n)[:40]), status == "ok", m.where(n),
              "`%s` rebuilds the constant `%s` on %s bits: %s" % (norm(n)[:50], x, stxt[1], why))


def _reextension_guard(f, site, x):
    """The narrowed value is kept in a local V and used only under `simp(V.signExtend|zeroExtend(X.size)) == X`."""
    p = getattr(site, "_parent", None)
    while p is not None and not isinstance(p, ast.stmt):
        p = getattr(p, "_parent", None)
    if not (isinstance(p, ast.Assign) and isinstance(p.targets[0], ast.Name)):
        return False
    v = p.targets[0].id
    for n in walk_body(f):
        if isinstance(n, ast.If) and isinstance(n.test, ast.Compare) and isinstance(n.test.ops[0], ast.Eq):
            t = norm(n.test)
            if re.search(r"\b%s\.(signExtend|zeroExtend)\(%s\.size\)" % (re.escape(v), re.escape(x)), t) and x in (norm(n.test.comparators[0]), norm(n.test.left)):
                return True
    return False


def _narrow_status(f, res, fs, x, stxt, comp, site):
    S = "1<<" + stxt
    S1 = "1<<%s-1" % stxt
    cands = set(["int(%s)" % x])
    # locals holding a view of X
    for nm, defs in res.defs.items():
        for d in defs:
            if d is not None and re.search(r"\bint\(%s\)" % re.escape(x), norm(d)) or (d is not None and ("(int(%s))" % x) in norm(d)):
                cands.add(nm)
    def clean(t):
        return t.replace(" ", "").replace("(", "").replace(")", "")
    exact = off = False
    signed_ok = False
    FL = {"<": ">", "<=": ">=", ">": "<", ">=": "<="}

    def holds(a_txt, op, b_txt):
        """a op b among the facts, in either orientation (a < b is b > a)"""
        for ft in fs:
            if ft[0] != "cmp":
                continue
            a, o, b = clean(ft[1]), ft[2], clean(ft[3])
            if a == a_txt and o == op and b == b_txt:
                return True
            if o in FL and b == a_txt and FL[o] == op and a == b_txt:
                return True
        return False
    for c in cands:
        cc = clean(c)
        if holds(cc, "<", clean(S)) or holds(cc, "<=", clean(S) + "-1"):
            exact = True
        if holds(cc, "<=", clean(S)):
            off = True
        if holds(cc, "<", clean(S1)):
            signed_ok = True
    if signed_ok:
        lower = any(ft[0] == "cmp" and ((clean(ft[3]) in [clean(c) for c in cands] and ft[2] == "<=" and clean(ft[1]).startswith("-1<<")) or
                                            (clean(ft[1]) in [clean(c) for c in cands] and ft[2] == ">=" and clean(ft[3]).startswith("-1<<"))) for ft in fs)
        if lower:
            return "ok", ""
    if exact:
        return "ok", ""
    if comp is not None:
        # element-wise narrowing of the operands of one operator: harmless only under '&' with zero-extended partners
        txt = norm(ast.Module(body=f.body, type_ignores=[]))
        ops = None
        for n in walk_body(f):
            if isinstance(n, ast.Compare) and isinstance(n.ops[0], ast.NotIn) and norm(n.left).endswith(".op"):
                ops = str_elts(n.comparators[0])
            if isinstance(n, ast.Call) and isinstance(n.func, ast.Attribute) and n.func.attr == "is_op" and n.args and isinstance(n.args[0], ast.Constant) \
                    and norm(comp.generators[0].iter).startswith(norm(n.func.value)):
                ops = [n.args[0].value]
        guard_ints = re.search(r"int\(arg\)\s*(>=|>)\s*\(?1 << size", txt) is not None or re.search(r"int\(arg\)\s*<\s*\(?1 << size", txt) is not None \
            or re.search(r"1 << size\)?\s*(<=|<|>)\s*int\(arg\)", txt) is not None
        if ops == ["&"] or guard_ints:
            return "ok", ""
        return "unguarded", ("the constant operands of %s are cut to %s bits although only '&' absorbs their high bits (zero-extended partners): "
                             "for '|' or '^' a constant with bits above the narrow width changes the value" % (ops, stxt))
    if off:
        return "off-by-one", "the guard admits int(%s) == 2^(%s), which does not fit (off by one: `>` should be `>=`)" % (x, stxt)
    return "unguarded", "no guard establishes 0 <= int(%s) < 2^(%s) on the path to the narrowing: high bits of the constant are silently dropped" % (x, stxt)


# ------------------------------------------------------------------------------------------------ R4b
def _r4b(ck, m, q, f):
    for n in walk_body(f):
        if isinstance(n, ast.If) and isinstance(n.test, ast.BoolOp) and isinstance(n.test.op, ast.Or) and len(n.test.values) == 2:
            a, b = n.test.values
            from sa.astutil import less_than as _lt
            la, lb = _lt(a, True), _lt(b, True)
            # one atom says T is above a bound (bound < T), the other that the same T is below a bound (T < bound')
            two_sided = la is not None and lb is not None and (norm(la[1]) == norm(lb[0]) or norm(la[0]) == norm(lb[1]))
            if two_sided:
                if True:
                    rets = [s_ for s_ in n.body if isinstance(s_, ast.Return)]
                    single = len(rets) == 1 and isinstance(rets[0].value, ast.Call) and callee_attr(rets[0].value) == "ExprInt"
                    # applies to passes rewriting an ordering comparison
                    ordering = any(isinstance(c, ast.Call) and isinstance(c.func, ast.Attribute) and c.func.attr == "is_op" and c.args and
                                   norm(c.args[0]).startswith("TOK_INF") for c in walk_body(f))
                    if single and ordering:
                        ck.ob("R4b", "%s:%s" % (q, norm(n.test)[:50]), False, m.where(n),
                              "`%s` covers both the side above and the side below the representable range and returns the single constant %s: an "
                              "ordering comparison is true on one side and false on the other" % (norm(n.test)[:70], norm(rets[0].value)))
    # positive instance bookkeeping: count the one-sided forms as discharged instances
    for n in walk_body(f):
        if isinstance(n, ast.If) and isinstance(n.test, ast.Compare) and len(n.test.ops) == 1 and "1 << " in norm(n.test) and \
                isinstance(n.test.ops[0], (ast.GtE, ast.Gt, ast.Lt, ast.LtE)) and len(n.body) == 1 and isinstance(n.body[0], ast.Return) and \
                isinstance(n.body[0].value, ast.Call) and callee_attr(n.body[0].value) == "ExprInt" and \
                any(isinstance(c, ast.Call) and isinstance(c.func, ast.Attribute) and c.func.attr == "is_op" and c.args and norm(c.args[0]).startswith("TOK_INF") for c in walk_body(f)):
            ck.ob("R4b", "%s:one-sided:%s" % (q, norm(n.test)[:40]), True, m.where(n), "")
