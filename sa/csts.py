"""Numeric constants shared by the Python side (jitter/csts.py) and the C side (vm_mngr.h)."""
import ast

from .astutil import const_value
from . import cast
from .repo import AnalysisError

PY = "miasm/jitter/csts.py"


def py_constants(repo):
    m = repo.mod(PY)
    env = {}
    for st in m.tree.body:
        if isinstance(st, ast.Assign) and len(st.targets) == 1 and isinstance(st.targets[0], ast.Name):
            ok, v = const_value(st.value, env)
            if ok and isinstance(v, int):
                env[st.targets[0].id] = v
    return env


def c_constants(repo, prefixes=("EXCEPT_", "PAGE_", "BREAKPOINT_")):
    tu = cast.load(repo, "miasm/jitter/vm_mngr.c")
    out = {}
    for k, v in tu.macros.items():
        if k.startswith(prefixes):
            try:
                out[k] = cast.eval_macro(v, tu.macros)
            except AnalysisError:
                pass
    return out
