"""The C side: clang's JSON AST of the jitter C files (types, resolved callees, macro-expanded
literals), a macro table from `clang -dM -E`, an expression printer and a statement-level CFG that
reuses the algorithms of sa.cfg."""
import json
import os
import re
import subprocess

from .cfg import CFG, Node
from .repo import AnalysisError

_CACHE = {}


def _py_include():
    for cand in ("/venv/bin/python", "python3"):
        try:
            out = subprocess.run([cand, "-c", "import sysconfig;print(sysconfig.get_paths()['include'])"],
                                 stdout=subprocess.PIPE, stderr=subprocess.DEVNULL, universal_newlines=True)
            p = out.stdout.strip()
            if p and os.path.exists(os.path.join(p, "Python.h")):
                return p
        except OSError:
            pass
    raise AnalysisError("cannot locate Python.h for the clang front end")


class TU(object):
    def __init__(self, repo, rel):
        self.rel = rel
        self.src = repo.text(rel)
        path = repo.abspath(rel)
        inc = _py_include()
        jdir = os.path.dirname(path)
        flags = ["-I" + inc, "-I" + jdir, "-I" + os.path.join(repo.root, "miasm/jitter")]
        try:
            r = subprocess.run(["clang", "-fsyntax-only", "-w", "-Xclang", "-ast-dump=json"] + flags + [path],
                               stdout=subprocess.PIPE, stderr=subprocess.PIPE)
        except OSError as e:
            raise AnalysisError("clang not runnable: %s" % e)
        if r.returncode != 0 and not r.stdout:
            raise AnalysisError("clang failed on %s: %s" % (rel, r.stderr.decode("utf-8", "replace")[-300:]))
        try:
            root = json.loads(r.stdout)
        except ValueError as e:
            raise AnalysisError("clang JSON for %s unreadable: %s" % (rel, e))
        # functions defined at column 0 of this file
        heads = set(re.findall(r"^[A-Za-z_][^\n;{}()]*?\b([A-Za-z_]\w*)\s*\(", self.src, re.M))
        self.funcs = {}
        self.protos = {}
        for d in root.get("inner", []):
            if d.get("kind") == "FunctionDecl":
                has_body = any(i.get("kind") == "CompoundStmt" for i in d.get("inner", []))
                macro_made = "expansionLoc" in (d.get("loc") or {}) and not (d.get("name") or "").startswith(("_Py", "Py", "_"))
                if has_body and (d.get("name") in heads or macro_made):
                    self.funcs[d["name"]] = Func(d)
                elif not has_body:
                    self.protos[d.get("name")] = d
        m = subprocess.run(["clang", "-dM", "-E", "-w"] + flags + [path], stdout=subprocess.PIPE,
                           stderr=subprocess.DEVNULL, universal_newlines=True)
        self.macros = {}
        for line in m.stdout.splitlines():
            mm = re.match(r"#define\s+(\w+)(\([^)]*\))?\s*(.*)", line)
            if mm:
                self.macros[mm.group(1)] = mm.group(3).strip()

    def func(self, name):
        f = self.funcs.get(name)
        if f is None:
            raise AnalysisError("anchor vanished: C function %s in %s" % (name, self.rel))
        return f

    def macro_int(self, name):
        v = self.macros.get(name)
        if v is None:
            raise AnalysisError("anchor vanished: macro %s in %s" % (name, self.rel))
        return eval_macro(v, self.macros)


def eval_macro(text, macros, depth=0):
    """Integer value of a simple macro body (literals, other macros, | & ~ << + - parentheses)."""
    if depth > 10:
        raise AnalysisError("macro recursion")
    t = re.sub(r"\b(0[xX][0-9a-fA-F]+|\d+)[uUlL]*\b", r"\1", text)

    def repl(mm):
        n = mm.group(0)
        if n in macros:
            return "(%s)" % eval_macro(macros[n], macros, depth + 1)
        raise AnalysisError("macro %s not numeric" % n)
    t = re.sub(r"\b[A-Za-z_]\w*\b", repl, t)
    if not re.match(r"^[\s0-9a-fA-FxX()|&~<>+\-*/%]+$", t):
        raise AnalysisError("macro body not numeric: %s" % text)
    return eval(t.replace("/", "//"), {"__builtins__": {}}, {})


def load(repo, rel):
    key = (repo.root, rel)
    if key not in _CACHE:
        _CACHE[key] = TU(repo, rel)
    return _CACHE[key]


def _load_worker(args):
    root, rel = args
    from .repo import Repo
    r = Repo(root)
    try:
        tu = TU(r, rel)
        return rel, tu, r.consulted, None
    except AnalysisError as e:
        return rel, None, {}, str(e)


def preload(repo, rels):
    """Parse several translation units in parallel processes (clang + JSON decoding dominate the cost)."""
    todo = [rel for rel in rels if (repo.root, rel) not in _CACHE]
    if len(todo) < 2:
        return
    try:
        import multiprocessing
        ctx = multiprocessing.get_context("fork")
        with ctx.Pool(min(len(todo), 8)) as pool:
            for rel, tu, consulted, err in pool.map(_load_worker, [(repo.root, rel) for rel in todo]):
                if err:
                    raise AnalysisError(err)
                _CACHE[(repo.root, rel)] = tu
                repo.consulted.update(consulted)
    except (OSError, ImportError):
        pass


class Func(object):
    def __init__(self, decl):
        self.decl = decl
        self.name = decl["name"]
        self.params = [i for i in decl.get("inner", []) if i.get("kind") == "ParmVarDecl"]
        self.body = [i for i in decl.get("inner", []) if i.get("kind") == "CompoundStmt"][0]
        self._cfg = None
        self._calls = None

    def cfg(self):
        if self._cfg is None:
            self._cfg = CCFG(self)
        return self._cfg

    def calls(self):
        if getattr(self, "_calls", None) is None:
            self._calls = [(callee(c), c) for c in walk(self.body) if c.get("kind") == "CallExpr"]
        return self._calls


def walk(node):
    stack = [node]
    while stack:
        n = stack.pop()
        if not n:
            continue
        yield n
        stack.extend(reversed(n.get("inner", [])))


def strip(n):
    """Skip casts / parentheses."""
    while n and n.get("kind") in ("ImplicitCastExpr", "ParenExpr", "CStyleCastExpr", "ConstantExpr") and n.get("inner"):
        n = n["inner"][0]
    return n


def callee(call):
    f = strip(call["inner"][0]) if call.get("inner") else None
    if f and f.get("kind") == "DeclRefExpr":
        return (f.get("referencedDecl") or {}).get("name")
    return None


def const_int(n):
    """Value of an integer constant expression of the AST (literals, | & ^ << >> + - ~, casts); None if not constant."""
    n = strip(n)
    if not n:
        return None
    k = n.get("kind")
    if k == "IntegerLiteral":
        return int(n.get("value"))
    if k == "CharacterLiteral":
        return int(n.get("value"))
    if k == "UnaryOperator":
        v = const_int(n["inner"][0])
        if v is None:
            return None
        return {"-": -v, "~": ~v, "+": v, "!": int(not v)}.get(n.get("opcode"))
    if k == "BinaryOperator":
        a, b = const_int(n["inner"][0]), const_int(n["inner"][1])
        if a is None or b is None:
            return None
        op = n.get("opcode")
        try:
            if op in ("/", "%"):
                if b == 0 or a < 0 or b < 0:
                    return None
                return a // b if op == "/" else a % b
            return {"|": a | b, "&": a & b, "^": a ^ b, "<<": a << b, ">>": a >> b, "+": a + b, "-": a - b,
                    "*": a * b}.get(op)
        except Exception:
            return None
    return None


def failure_returns(func):
    """ReturnStmt nodes that report an error to Python: literal NULL/0/-1, or a variable whose every
    assignment in the function is the result of a PyErr_* call (the RAISE macro)."""
    err_vars = {}
    for n in walk(func.body):
        if n.get("kind") == "BinaryOperator" and n.get("opcode") == "=":
            l = strip(n["inner"][0])
            r = strip(n["inner"][1])
            if l.get("kind") == "DeclRefExpr":
                nm = (l.get("referencedDecl") or {}).get("id")
                is_err = r.get("kind") == "CallExpr" and (callee(r) or "").startswith("PyErr_")
                err_vars[nm] = err_vars.get(nm, True) and is_err
    out = []
    for n in walk(func.body):
        if n.get("kind") != "ReturnStmt":
            continue
        inner = n.get("inner", [])
        if not inner:
            continue
        e = strip(inner[0])
        while e and e.get("kind") in ("ParenExpr", "CStyleCastExpr", "ImplicitCastExpr"):
            e = strip(e["inner"][0])
        if e.get("kind") == "IntegerLiteral" and e.get("value") == "0":
            out.append(n)
        elif e.get("kind") == "UnaryOperator" and e.get("opcode") == "-":
            out.append(n)
        elif e.get("kind") == "DeclRefExpr" and err_vars.get((e.get("referencedDecl") or {}).get("id")):
            out.append(n)
        elif e.get("kind") == "CallExpr" and (callee(e) or "").startswith("PyErr_"):
            out.append(n)
    return out


def call_args(call):
    return call.get("inner", [])[1:]


def text_names(node):
    out = set()
    for n in walk(node):
        if n.get("kind") == "DeclRefExpr":
            nm = (n.get("referencedDecl") or {}).get("name")
            if nm:
                out.add(nm)
        elif n.get("kind") == "MemberExpr":
            out.add(n.get("name"))
    return out


def ctext(n):
    """Compact C-like rendering of an expression / simple statement (for keys and messages)."""
    if not n:
        return ""
    k = n.get("kind")
    inner = n.get("inner", [])
    if k in ("ImplicitCastExpr", "ConstantExpr"):
        return ctext(inner[0]) if inner else ""
    if k == "ParenExpr":
        return "(%s)" % ctext(inner[0])
    if k == "CStyleCastExpr":
        return "(%s)%s" % (n.get("type", {}).get("qualType", "?"), ctext(inner[0]))
    if k == "DeclRefExpr":
        return (n.get("referencedDecl") or {}).get("name", "?")
    if k == "MemberExpr":
        return "%s%s%s" % (ctext(inner[0]), "->" if n.get("isArrow") else ".", n.get("name"))
    if k == "IntegerLiteral":
        return str(n.get("value"))
    if k == "CharacterLiteral":
        return str(n.get("value"))
    if k == "StringLiteral":
        return n.get("value", '""')
    if k == "BinaryOperator" or k == "CompoundAssignOperator":
        return "%s %s %s" % (ctext(inner[0]), n.get("opcode"), ctext(inner[1]))
    if k == "UnaryOperator":
        if n.get("isPostfix"):
            return "%s%s" % (ctext(inner[0]), n.get("opcode"))
        return "%s%s" % (n.get("opcode"), ctext(inner[0]))
    if k == "CallExpr":
        return "%s(%s)" % (ctext(inner[0]), ", ".join(ctext(a) for a in inner[1:]))
    if k == "ArraySubscriptExpr":
        return "%s[%s]" % (ctext(inner[0]), ctext(inner[1]))
    if k == "ConditionalOperator":
        return "%s ? %s : %s" % (ctext(inner[0]), ctext(inner[1]), ctext(inner[2]))
    if k == "UnaryExprOrTypeTraitExpr":
        return "sizeof(%s)" % (n.get("argType", {}).get("qualType") or (ctext(inner[0]) if inner else "?"))
    if k == "ReturnStmt":
        return "return %s" % (ctext(inner[0]) if inner else "")
    if k == "DeclStmt":
        return "; ".join(ctext(d) for d in inner)
    if k == "VarDecl":
        init = [i for i in inner if i.get("kind") not in ("FullComment",)]
        return "%s %s%s" % (n.get("type", {}).get("qualType", ""), n.get("name"), (" = " + ctext(init[0])) if init else "")
    if k in ("BreakStmt", "ContinueStmt", "NullStmt"):
        return k[:-4].lower()
    if k == "InitListExpr":
        return "{%s}" % ", ".join(ctext(i) for i in inner)
    return k or "?"


class CNode(Node):
    def __repr__(self):
        return "<%d %s %s>" % (self.id, self.kind, ctext(self.ast)[:70])


class CCFG(CFG):
    """Statement-level CFG of a C function; node.ast is the clang JSON node.
    kinds: entry exit stmt test (switch/case are lowered to tests on the case labels)."""

    def __init__(self, func):
        self.fn = func
        self.nodes = []
        self.succ = {}
        self.pred = {}
        self._dom = None
        self.entry = self._node("entry", None)
        self.exit = self._node("exit", None)
        self.raise_exit = self._node("raise", None)
        self._loops = []
        self._tries = []
        self._labels = {}
        self._gotos = []
        fr = self._cstmt(func.body, [(self.entry.id, None)])
        self._connect(fr, self.exit.id)
        for (frontier, label) in self._gotos:
            if label in self._labels:
                self._connect(frontier, self._labels[label])

    def _node(self, kind, node):
        n = CNode(len(self.nodes), kind, node)
        self.nodes.append(n)
        self.succ[n.id] = []
        self.pred[n.id] = []
        return n

    def _cnew(self, kind, node, frontier):
        n = self._node(kind, node)
        self._connect(frontier, n.id)
        return n

    def _ccond(self, e, frontier):
        s = e
        while s and s.get("kind") in ("ParenExpr", "ImplicitCastExpr") and s.get("inner"):
            s = s["inner"][0]
        if s and s.get("kind") == "BinaryOperator" and s.get("opcode") in ("&&", "||"):
            a, b = s["inner"]
            ta, fa = self._ccond(a, frontier)
            if s["opcode"] == "&&":
                tb, fb = self._ccond(b, ta)
                return tb, fa + fb
            tb, fb = self._ccond(b, fa)
            return ta + tb, fb
        if s and s.get("kind") == "UnaryOperator" and s.get("opcode") == "!":
            t, f = self._ccond(s["inner"][0], frontier)
            return f, t
        n = self._cnew("test", e, frontier)
        if s and s.get("kind") == "IntegerLiteral":
            if int(s.get("value", "0")) != 0:
                return [(n.id, True)], []
            return [], [(n.id, False)]
        return [(n.id, True)], [(n.id, False)]

    def _cstmt(self, st, frontier):
        if not st:
            return frontier
        k = st.get("kind")
        inner = st.get("inner", [])
        if k == "CompoundStmt":
            for s in inner:
                frontier = self._cstmt(s, frontier)
            return frontier
        if k == "IfStmt":
            has_init = st.get("hasInit")
            idx = 1 if has_init else 0
            cond = inner[idx]
            t, f = self._ccond(cond, frontier)
            out = self._cstmt(inner[idx + 1], t)
            if len(inner) > idx + 2:
                out = out + self._cstmt(inner[idx + 2], f)
            else:
                out = out + f
            return out
        if k == "WhileStmt":
            head = self._cnew("loop", st, frontier)
            t, f = self._ccond(inner[0], [(head.id, None)])
            ctx = {"breaks": [], "head": head.id, "tries": 0}
            self._loops.append(ctx)
            out = self._cstmt(inner[1], t)
            self._loops.pop()
            self._connect(out, head.id)
            return f + ctx["breaks"]
        if k == "DoStmt":
            head = self._cnew("loop", st, frontier)
            ctx = {"breaks": [], "head": head.id, "tries": 0}
            self._loops.append(ctx)
            out = self._cstmt(inner[0], [(head.id, None)])
            self._loops.pop()
            t, f = self._ccond(inner[1], out)
            self._connect(t, head.id)
            return f + ctx["breaks"]
        if k == "ForStmt":
            init, _condvar, cond, inc, body = (inner + [{}] * 5)[:5]
            frontier = self._cstmt(init, frontier) if init else frontier
            head = self._cnew("loop", st, frontier)
            if cond:
                t, f = self._ccond(cond, [(head.id, None)])
            else:
                t, f = [(head.id, None)], []
            # continue jumps to the increment
            incn = self._node("stmt", inc) if inc else None
            ctx = {"breaks": [], "head": incn.id if incn else head.id, "tries": 0}
            self._loops.append(ctx)
            out = self._cstmt(body, t)
            self._loops.pop()
            if incn:
                self._connect(out, incn.id)
                self._edge(incn.id, head.id, None)
            else:
                self._connect(out, head.id)
            return f + ctx["breaks"]
        if k == "SwitchStmt":
            cond = inner[0] if inner[0].get("kind") != "CompoundStmt" else None
            body = inner[-1]
            sw = self._cnew("test", cond or st, frontier)
            sw.kind = "switch"
            ctx = {"breaks": [], "head": None, "tries": 0, "switch": True}
            self._loops.append(ctx)
            fall = []
            has_default = False
            for s in body.get("inner", []):
                cur = s
                # nested case labels: CaseStmt -> CaseStmt -> stmt
                entry_labels = []
                while cur and cur.get("kind") in ("CaseStmt", "DefaultStmt"):
                    if cur.get("kind") == "DefaultStmt":
                        has_default = True
                        entry_labels.append("default")
                        cur = cur["inner"][0] if cur.get("inner") else None
                    else:
                        entry_labels.append(ctext(cur["inner"][0]))
                        cur = cur["inner"][-1] if len(cur.get("inner", [])) > 1 else None
                if entry_labels:
                    fall = fall + [(sw.id, "case " + l) for l in entry_labels]
                fall = self._cstmt(cur, fall) if cur else fall
            self._loops.pop()
            out = fall + ctx["breaks"]
            if not has_default:
                out = out + [(sw.id, "nocase")]
            return out
        if k == "ReturnStmt":
            n = self._cnew("stmt", st, frontier)
            self._edge(n.id, self.exit.id, None)
            return []
        if k == "BreakStmt":
            n = self._cnew("stmt", st, frontier)
            if self._loops:
                self._loops[-1]["breaks"].append((n.id, None))
            return []
        if k == "ContinueStmt":
            n = self._cnew("stmt", st, frontier)
            for ctx in reversed(self._loops):
                if not ctx.get("switch"):
                    self._edge(n.id, ctx["head"], None)
                    break
            return []
        if k == "GotoStmt":
            n = self._cnew("stmt", st, frontier)
            self._gotos.append(([(n.id, None)], st.get("targetLabelDeclId")))
            return []
        if k == "LabelStmt":
            n = self._cnew("stmt", {"kind": "NullStmt"}, frontier)
            self._labels[st.get("declId")] = n.id
            return self._cstmt(inner[0] if inner else None, [(n.id, None)])
        if k == "NullStmt":
            return frontier
        # expression statement / DeclStmt; calls to noreturn functions end the path
        n = self._cnew("stmt", st, frontier)
        for c in walk(st):
            if c.get("kind") == "CallExpr" and callee(c) in ("exit", "abort", "_exit"):
                self._edge(n.id, self.raise_exit.id, None)
                return []
        return [(n.id, None)]

    def _rpo(self):
        return CFG._rpo(self)

    def node_containing(self, inner):
        out = []
        for n in self.nodes:
            if n.ast is None or n.kind == "loop":
                continue
            for x in walk(n.ast):
                if x is inner:
                    out.append(n)
                    break
        return out


def node_calls_c(node):
    if node.ast is None or node.kind == "loop":
        return []
    return [c for c in walk(node.ast) if c.get("kind") == "CallExpr"]


# ---------------------------------------------------------------------------------------------------------------------
# linear forms of integer C expressions (locals with one assignment expanded): used to state overlap / bound tests semantically

def local_defs(func):
    """name -> the single expression assigned to a local of the function (declaration initialiser or one `name = expr;`), None when
    the local is assigned more than once or updated in place (it then stays an opaque symbol)."""
    defs = {}
    for n in walk(func.body):
        k = n.get("kind")
        if k == "VarDecl" and n.get("inner"):
            init = [x for x in n["inner"] if x.get("kind") not in ("FullComment",)]
            if init:
                defs.setdefault(n.get("name"), []).append(init[-1])
        if k == "BinaryOperator" and n.get("opcode") == "=":
            l = strip(n["inner"][0])
            if l.get("kind") == "DeclRefExpr":
                defs.setdefault(l.get("referencedDecl", {}).get("name"), []).append(n["inner"][1])
        if k in ("CompoundAssignOperator",) or (k == "UnaryOperator" and n.get("opcode") in ("++", "--")):
            l = strip(n["inner"][0])
            if l.get("kind") == "DeclRefExpr":
                defs.setdefault(l.get("referencedDecl", {}).get("name"), []).extend([None, None])
    return dict((k, v[0]) for k, v in defs.items() if len(v) == 1 and v[0] is not None)


def c_linear(e, defs=None, depth=0):
    """(frozenset of (term text, coefficient), constant) of an integer C expression built with + - and literals; locals with a single
    definition are expanded; everything else is an opaque term named by its source text."""
    defs = defs or {}
    terms = {}
    const = [0]

    def add(n, sign, d):
        n = strip(n)
        k = n.get("kind")
        if k == "BinaryOperator" and n.get("opcode") in ("+", "-"):
            add(n["inner"][0], sign, d)
            add(n["inner"][1], sign if n["opcode"] == "+" else -sign, d)
            return
        if k == "UnaryOperator" and n.get("opcode") == "-":
            add(n["inner"][0], -sign, d)
            return
        v = const_int(n)
        if v is not None:
            const[0] += sign * v
            return
        if k == "DeclRefExpr":
            nm = n.get("referencedDecl", {}).get("name")
            if nm in defs and d < 6:
                add(defs[nm], sign, d + 1)
                return
        t = ctext(n)
        terms[t] = terms.get(t, 0) + sign
    add(e, 1, depth)
    return frozenset((k, v) for k, v in terms.items() if v != 0), const[0]


def c_less_than(test, polarity, defs=None):
    """For an integer comparison node: (L, R) linear forms such that the comparison with the given truth value says  L < R  strictly
    (a <= b becomes a < b + 1); None when the node is not an ordering comparison."""
    e = strip(test)
    if e.get("kind") != "BinaryOperator" or e.get("opcode") not in ("<", "<=", ">", ">="):
        return None
    op = e["opcode"]
    l, r = c_linear(e["inner"][0], defs), c_linear(e["inner"][1], defs)
    if not polarity:
        op = {"<": ">=", "<=": ">", ">": "<=", ">=": "<"}[op]
    if op in (">", ">="):
        l, r = r, l
        op = "<" if op == ">" else "<="
    if op == "<=":
        r = (r[0], r[1] + 1)
    return l, r


def inline_bool_helper(tu, call):
    """For a call of a function of the same translation unit whose body is [local declarations with initialisers] + `return <expr>;`:
    (the returned expression, definitions) where the definitions map the helper's parameters to the call's arguments and its locals to
    their initialisers - to be handed to c_linear / c_less_than.  None when the callee has another shape."""
    name = callee(call)
    f = tu.funcs.get(name) if name else None
    if f is None:
        return None
    args = call_args(call)
    params = [p.get("name") for p in f.params]
    if len(params) != len(args):
        return None
    body = f.body.get("inner", []) if f.body else []
    defs = dict(zip(params, args))
    ret = None
    for st in body:
        k = st.get("kind")
        if k == "DeclStmt":
            for d in st.get("inner", []):
                if d.get("kind") == "VarDecl" and d.get("inner"):
                    defs[d.get("name")] = d["inner"][-1]
        elif k == "ReturnStmt" and st.get("inner"):
            ret = st["inner"][0]
        elif k in ("NullStmt",):
            continue
        else:
            return None
    if ret is None:
        return None
    return ret, defs
