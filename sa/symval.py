"""Symbolic evaluation of (mostly straight-line) Python function bodies into value expressions.

The rules that compare a *formula* written in /repo with a reference must not depend on how the formula is spread over
local variables, temporaries, if/else vs conditional expressions, loops that only append vs comprehensions, or on the names
chosen. `paths(stmts, env, decide)` executes a statement list symbolically:

  * assignments (names, tuple unpacking, augmented) bind names to expressions in which earlier bindings are substituted;
  * an `if` whose test `decide(test)` resolves (True/False) follows one branch - this is how a dispatch on an operator name
    is specialised; an undecided `if` forks (both outcomes are explored, the test recorded in the path condition);
  * `X = []` followed by a loop whose body only appends to X (optionally under an `if`) becomes a list comprehension;
  * other loops / try / with make the names they assign opaque;
  * `return` / `raise` end a path.

The result is a list of Path(conds, kind, value) with kind in {'return', 'raise', 'fall'}; `value` is an ast expression whose
free names are parameters, attributes and opaque symbols. Nothing of /repo is imported or run.
"""
import ast

from .astutil import clone, norm, assigned_targets

MAX_PATHS = 64


class Path(object):
    def __init__(self, conds, kind, value, env, effects=None):
        self.conds = conds      # list of (test ast, bool)
        self.kind = kind
        self.value = value
        self.env = env
        self.effects = list(effects or [])   # expression statements (calls) executed on the path, substituted

    def pool(self):
        """Every resolved expression of the path (effects, returned value, final bindings) as normalised text."""
        out = [norm(e) for e in self.effects]
        if self.value is not None:
            out.append(norm(self.value))
        out.extend(norm(v) for v in self.env.values() if isinstance(v, ast.AST))
        return out


def inline_calls(e, helpers):
    """Replace calls to simple helpers (module functions whose body is one `return <expr>`) by their body."""
    if not helpers:
        return e

    class T(ast.NodeTransformer):
        def visit_Call(self, n):
            self.generic_visit(n)
            f = helpers.get(n.func.id) if isinstance(n.func, ast.Name) else None
            if f is None or n.keywords or len(n.args) != len(f.args.args):
                return n
            body = [st for st in f.body if not (isinstance(st, ast.Expr) and isinstance(st.value, ast.Constant))]
            if len(body) != 1 or not isinstance(body[0], ast.Return) or body[0].value is None:
                return n
            return subst(body[0].value, dict((a.arg, v) for a, v in zip(f.args.args, n.args)))
    return T().visit(e)


class Opaque(ast.AST):
    """Marker for a value the evaluator does not model."""
    _fields = ("why",)


def subst(e, env):
    """Copy of expression `e` with loads of names bound in env replaced (comprehension targets shadow)."""
    def go(n, shadow):
        if isinstance(n, ast.Name):
            if isinstance(n.ctx, ast.Load) and n.id in env and n.id not in shadow:
                return clone(env[n.id])
            return clone(n)
        if isinstance(n, (ast.ListComp, ast.SetComp, ast.GeneratorExp, ast.DictComp)):
            sh = set(shadow)
            new = type(n)()
            gens = []
            for g in n.generators:
                ng = ast.comprehension(target=clone(g.target), iter=go(g.iter, sh), ifs=[], is_async=g.is_async)
                for t in ast.walk(g.target):
                    if isinstance(t, ast.Name):
                        sh.add(t.id)
                ng.ifs = [go(i, sh) for i in g.ifs]
                gens.append(ng)
            if isinstance(n, ast.DictComp):
                new.key = go(n.key, sh)
                new.value = go(n.value, sh)
            else:
                new.elt = go(n.elt, sh)
            new.generators = gens
            return new
        if isinstance(n, ast.Lambda):
            sh = set(shadow) | set(a.arg for a in n.args.args)
            return ast.Lambda(args=clone(n.args), body=go(n.body, sh))
        if isinstance(n, ast.AST):
            new = type(n)()
            for f in n._fields:
                if hasattr(n, f):
                    v = getattr(n, f)
                    if isinstance(v, list):
                        setattr(new, f, [go(x, shadow) if isinstance(x, ast.AST) else x for x in v])
                    elif isinstance(v, ast.AST):
                        setattr(new, f, go(v, shadow))
                    else:
                        setattr(new, f, v)
            return new
        return n
    return go(e, frozenset())


def specialise(e, decide):
    """Copy of `e` in which conditional expressions whose test `decide` resolves are replaced by the chosen arm."""
    if decide is None or e is None:
        return e

    class T(ast.NodeTransformer):
        def visit_IfExp(self, n):
            d = decide(n.test)
            if d is True:
                return self.visit(n.body)
            if d is False:
                return self.visit(n.orelse)
            self.generic_visit(n)
            return n
    return T().visit(clone(e))


def _opaque(name, why):
    return ast.Name(id="?%s" % name, ctx=ast.Load())


def _append_loop(st, env):
    """for T in IT: [if C:] X.append(E)   ->  (X, ListComp)   or None"""
    if not isinstance(st, ast.For) or st.orelse or len(st.body) != 1:
        return None
    b = st.body[0]
    cond = None
    if isinstance(b, ast.If) and not b.orelse and len(b.body) == 1:
        cond = b.test
        b = b.body[0]
    if isinstance(b, ast.Expr) and isinstance(b.value, ast.Call) and isinstance(b.value.func, ast.Attribute) and b.value.func.attr == "append" \
            and isinstance(b.value.func.value, ast.Name) and len(b.value.args) == 1:
        x = b.value.func.value.id
        cur = env.get(x)
        if isinstance(cur, ast.List) and not cur.elts:
            tnames = set(t.id for t in ast.walk(st.target) if isinstance(t, ast.Name))
            env2 = dict((k, v) for k, v in env.items() if k not in tnames)
            comp = ast.ListComp(elt=subst(b.value.args[0], env2),
                                generators=[ast.comprehension(target=clone(st.target), iter=subst(st.iter, env), ifs=[subst(cond, env2)] if cond is not None else [],
                                                              is_async=0)])
            return x, comp
    return None


def paths(stmts, env=None, decide=None, limit=MAX_PATHS, helpers=None):
    """Symbolically execute `stmts`; returns a list of Path. `helpers`: {name: FunctionDef} of single-return functions to inline."""
    out = []
    _subst = globals()["subst"]

    def subst(e, env_):     # substitution followed by helper inlining (shadows the module-level function inside paths)
        return inline_calls(_subst(e, dict((k_, v_) for k_, v_ in env_.items() if k_ != "__effects__")), helpers)

    def kill_assigned(node, env):
        for n in ast.walk(node):
            if isinstance(n, (ast.Assign, ast.AugAssign, ast.AnnAssign, ast.For, ast.Delete)):
                for t in assigned_targets(n):
                    for x in ast.walk(t):
                        if isinstance(x, ast.Name):
                            env[x.id] = _opaque(x.id, "assigned in a construct that is not modelled")
            if isinstance(n, ast.Call) and isinstance(n.func, ast.Attribute) and isinstance(n.func.value, ast.Name) and \
                    n.func.attr in ("append", "extend", "insert", "pop", "remove", "clear", "add", "update", "sort", "reverse"):
                env[n.func.value.id] = _opaque(n.func.value.id, "mutated in place")

    def loop_body(st, env):
        """Resolve what a loop body computes in terms of the bindings at loop entry (names the loop assigns stay symbolic); the
        resolved statements are recorded as effects of the enclosing path."""
        assigned = set()
        for n in ast.walk(st):
            if isinstance(n, (ast.Assign, ast.AugAssign, ast.For)):
                for t in assigned_targets(n):
                    for x in ast.walk(t):
                        if isinstance(x, ast.Name):
                            assigned.add(x.id)
        env_in = dict((k_, v_) for k_, v_ in env.items() if k_ not in assigned and k_ != "__effects__")
        effs = [ast.Call(func=ast.Name(id="__loop__", ctx=ast.Load()), args=[clone(getattr(st, "target", ast.Constant(value=None))),
                                                                             subst(getattr(st, "iter", getattr(st, "test", None)), env)], keywords=[])]
        for p_ in paths(st.body, env=env_in, decide=decide, limit=16, helpers=helpers):
            effs.extend(p_.effects)
            for k_, v_ in p_.env.items():
                if k_ in assigned and isinstance(v_, ast.AST):
                    effs.append(ast.Call(func=ast.Name(id="__bind__", ctx=ast.Load()), args=[ast.Name(id=k_, ctx=ast.Load()), v_], keywords=[]))
            if p_.value is not None and p_.kind == "return":
                effs.append(ast.Call(func=ast.Name(id="__return__", ctx=ast.Load()), args=[p_.value], keywords=[]))
        env["__effects__"] = env.get("__effects__", []) + effs

    def run(sts, env, conds):
        if len(out) >= limit:
            return
        for i, st in enumerate(sts):
            if isinstance(st, ast.Assign):
                v = specialise(subst(st.value, env), decide)
                for tg in st.targets:
                    if isinstance(tg, ast.Name):
                        env[tg.id] = v
                    elif isinstance(tg, (ast.Tuple, ast.List)) and isinstance(v, (ast.Tuple, ast.List)) and len(tg.elts) == len(v.elts) \
                            and all(isinstance(t, ast.Name) for t in tg.elts):
                        for t, vv in zip(tg.elts, v.elts):
                            env[t.id] = vv
                    elif isinstance(tg, (ast.Tuple, ast.List)):
                        for k, t in enumerate(tg.elts):
                            if isinstance(t, ast.Name):
                                env[t.id] = ast.Subscript(value=clone(v), slice=ast.Constant(value=k), ctx=ast.Load())
                    else:
                        # store into an attribute / item: recorded as the effect __store__(target, value), and the base object changes
                        env["__effects__"] = env.get("__effects__", []) + [
                            ast.Call(func=ast.Name(id="__store__", ctx=ast.Load()), args=[subst(tg, env), v], keywords=[])]
                        base = tg
                        while isinstance(base, (ast.Attribute, ast.Subscript)):
                            base = base.value
                        if isinstance(base, ast.Name) and base.id in env:
                            env[base.id] = _opaque(base.id, "item/attribute store")
            elif isinstance(st, ast.AugAssign) and isinstance(st.target, ast.Name):
                cur = env.get(st.target.id, ast.Name(id=st.target.id, ctx=ast.Load()))
                env[st.target.id] = ast.BinOp(left=clone(cur), op=st.op, right=subst(st.value, env))
            elif isinstance(st, ast.Return):
                out.append(Path(list(conds), "return", specialise(subst(st.value, env), decide) if st.value is not None else ast.Constant(value=None), dict(env)))
                return
            elif isinstance(st, ast.Raise):
                out.append(Path(list(conds), "raise", subst(st.exc, env) if st.exc is not None else None, dict(env)))
                return
            elif isinstance(st, ast.If):
                t = subst(st.test, env)
                d = decide(t) if decide is not None else None
                if d is None and decide is not None:
                    d = decide(st.test)
                rest = sts[i + 1:]
                if d is True:
                    run(list(st.body) + rest, env, conds)
                elif d is False:
                    run(list(st.orelse) + rest, env, conds)
                else:
                    run(list(st.body) + rest, dict(env), conds + [(t, True)])
                    run(list(st.orelse) + rest, dict(env), conds + [(t, False)])
                return
            elif isinstance(st, ast.For):
                al = _append_loop(st, env)
                seq = subst(st.iter, env)
                if al is not None:
                    env[al[0]] = al[1]
                elif isinstance(seq, (ast.Tuple, ast.List)) and len(seq.elts) <= 8 and not st.orelse and \
                        not any(isinstance(x, (ast.Break, ast.Continue, ast.Return)) for b_ in st.body for x in ast.walk(b_)):
                    # a loop over a literal sequence: unrolled
                    unrolled = []
                    for el in seq.elts:
                        unrolled.append(ast.Assign(targets=[clone(st.target)], value=el))
                        unrolled.extend(st.body)
                    run(unrolled + sts[i + 1:], env, conds)
                    return
                else:
                    loop_body(st, env)
                    kill_assigned(st, env)
            elif isinstance(st, ast.While):
                loop_body(st, env)
                kill_assigned(st, env)
            elif isinstance(st, (ast.Try, ast.With)):
                kill_assigned(st, env)
            elif isinstance(st, ast.Expr):
                c = st.value
                if isinstance(c, ast.Call):
                    env.setdefault("__effects__", [])
                    eff = subst(c, env)
                    if isinstance(c.func, ast.Attribute) and isinstance(c.func.value, ast.Name):
                        eff.func.value = ast.Name(id=c.func.value.id, ctx=ast.Load())     # the receiver of a mutator keeps its name
                    env["__effects__"] = env["__effects__"] + [eff]
                if isinstance(c, ast.Call) and isinstance(c.func, ast.Attribute) and isinstance(c.func.value, ast.Name) and c.func.value.id in env:
                    x = c.func.value.id
                    cur = env[x]
                    if c.func.attr == "append" and isinstance(cur, ast.List) and len(c.args) == 1:
                        env[x] = ast.List(elts=[clone(e) for e in cur.elts] + [subst(c.args[0], env)], ctx=ast.Load())
                    elif c.func.attr in ("append", "extend", "insert", "pop", "remove", "clear", "add", "update", "sort", "reverse"):
                        env[x] = _opaque(x, "mutated in place")
            elif isinstance(st, (ast.Pass, ast.Assert, ast.Import, ast.ImportFrom, ast.Global, ast.Nonlocal, ast.FunctionDef, ast.ClassDef, ast.Delete)):
                continue
            elif isinstance(st, (ast.Break, ast.Continue)):
                out.append(Path(list(conds), "fall", None, dict(env)))
                return
        out.append(Path(list(conds), "fall", None, dict(env)))
    run(list(stmts), dict(env or {}), [])
    for p_ in out:
        p_.effects = p_.env.pop("__effects__", [])
    return out


def op_decider(selectors, op, names=None):
    """decide() callback specialising tests on an operator name: `<sel> == c`, `<sel> != c`, `<sel> in [...]`, `<sel> not in [...]`,
    `<sel>.startswith(c)` for any selector text in `selectors` (e.g. 'expr.op', 'op_name')."""
    names = names or {}

    def one(n):
        if isinstance(n, ast.Constant) and isinstance(n.value, str):
            return n.value
        if isinstance(n, ast.Name) and n.id in names:
            return names[n.id]
        if isinstance(n, ast.Attribute) and n.attr in names:
            return names[n.attr]
        return None

    def const_strs(n):
        if one(n) is not None:
            return [one(n)]
        if isinstance(n, (ast.List, ast.Tuple, ast.Set)) and all(one(e) is not None for e in n.elts):
            return [one(e) for e in n.elts]
        return None

    def decide(t):
        if isinstance(t, ast.UnaryOp) and isinstance(t.op, ast.Not):
            d = decide(t.operand)
            return None if d is None else (not d)
        if isinstance(t, ast.BoolOp):
            ds = [decide(v) for v in t.values]
            if isinstance(t.op, ast.And):
                if any(d is False for d in ds):
                    return False
                return True if all(d is True for d in ds) else None
            if any(d is True for d in ds):
                return True
            return False if all(d is False for d in ds) else None
        if isinstance(t, ast.Compare) and len(t.ops) == 1 and norm(t.left) in selectors:
            o = t.ops[0]
            cs = const_strs(t.comparators[0])
            if cs is None:
                return None
            if isinstance(o, ast.Eq) and len(cs) == 1:
                return op == cs[0]
            if isinstance(o, ast.NotEq) and len(cs) == 1:
                return op != cs[0]
            if isinstance(o, ast.In):
                return op in cs
            if isinstance(o, ast.NotIn):
                return op not in cs
        if isinstance(t, ast.Call) and isinstance(t.func, ast.Attribute) and t.func.attr == "is_op" and (norm(t.func.value) + ".op") in selectors and len(t.args) == 1:
            cs = const_strs(t.args[0])
            if cs and len(cs) == 1:
                return op == cs[0]
        if isinstance(t, ast.Call) and isinstance(t.func, ast.Attribute) and t.func.attr == "startswith" and norm(t.func.value) in selectors and t.args:
            cs = const_strs(t.args[0])
            if cs:
                return any(op.startswith(c) for c in cs)
        return None
    return decide
