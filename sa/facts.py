"""Guard facts: which atomic conditions are known to hold at each CFG node on *every* path
(forward must-analysis, intersection at joins, facts killed when a name they mention is rebound
or mutated in place).

A fact is a tuple
    ('cmp', a, op, b)   a, b normalised source text; op in < <= > >= == != in notin is isnot
    ('true', text)      the expression `text` was tested truthy
    ('false', text)     ... falsy
paired with the frozenset of names it mentions.
"""
import ast

from .astutil import norm, walk_local, dotted, assigned_targets, MUTATORS
from .cfg import node_exprs

_OPS = {ast.Lt: "<", ast.LtE: "<=", ast.Gt: ">", ast.GtE: ">=", ast.Eq: "==", ast.NotEq: "!=",
        ast.In: "in", ast.NotIn: "notin", ast.Is: "is", ast.IsNot: "isnot"}
_NEG = {"<": ">=", "<=": ">", ">": "<=", ">=": "<", "==": "!=", "!=": "==", "in": "notin",
        "notin": "in", "is": "isnot", "isnot": "is"}
_FLIP = {"<": ">", "<=": ">=", ">": "<", ">=": "<=", "==": "==", "!=": "!="}


def atom(test, polarity):
    """Facts established when `test` evaluates with the given truth value."""
    out = []
    if isinstance(test, ast.Compare):
        # chained comparison a < b < c: when true every link holds; when false nothing atomic
        if len(test.ops) == 1:
            op = _OPS.get(type(test.ops[0]))
            if op is not None:
                a, b = norm(test.left), norm(test.comparators[0])
                if not polarity:
                    op = _NEG[op]
                out.append(("cmp", a, op, b))
        elif polarity:
            left = test.left
            for o, r in zip(test.ops, test.comparators):
                op = _OPS.get(type(o))
                if op is not None:
                    out.append(("cmp", norm(left), op, norm(r)))
                left = r
    if isinstance(test, ast.UnaryOp) and isinstance(test.op, ast.Not):
        return atom(test.operand, not polarity)
    out.append(("true" if polarity else "false", norm(test)))
    return out


def _names(test):
    return frozenset(n.id for n in ast.walk(test) if isinstance(n, ast.Name))


def killed_names(node):
    """Names rebound or mutated in place at a CFG node."""
    out = set()
    a = node.ast
    if a is None:
        return out
    if node.kind == "for":
        tgts = assigned_targets(a)
    elif node.kind == "with":
        tgts = [i.optional_vars for i in a.items if i.optional_vars is not None]
    elif node.kind == "except":
        return set([a.name]) if a.name else out
    elif node.kind in ("test", "loop"):
        tgts = []
    else:
        tgts = assigned_targets(a)
    for t in tgts:
        base = t
        while isinstance(base, (ast.Attribute, ast.Subscript)):
            base = base.value
        if isinstance(base, ast.Name):
            out.add(base.id)
        for x in ast.walk(t):
            if isinstance(x, (ast.Tuple, ast.List)):
                for e in x.elts:
                    if isinstance(e, ast.Name):
                        out.add(e.id)
    for e in node_exprs(node):
        for x in walk_local(e):
            if isinstance(x, ast.Call) and isinstance(x.func, ast.Attribute) and x.func.attr in MUTATORS:
                base = x.func.value
                while isinstance(base, (ast.Attribute, ast.Subscript)):
                    base = base.value
                if isinstance(base, ast.Name):
                    out.add(base.id)
            if isinstance(x, ast.NamedExpr) and isinstance(x.target, ast.Name):
                out.add(x.target.id)
    return out


def guard_facts(cfg):
    """node id -> frozenset of (fact, names) holding on entry to the node on every path."""
    def flow(node, st):
        k = killed_names(node)
        if not k:
            return st
        return frozenset(f for f in st if not (f[1] & k))

    def edge(node, label, st):
        if node.kind == "test" and label in (True, False):
            nm = _names(node.ast)
            add = frozenset((f, nm) for f in atom(node.ast, label))
            # facts contradicting on the same text are dropped implicitly by intersection
            return st | add
        return st

    def join(a, b):
        return a & b

    IN, _OUT = cfg.forward(frozenset(), flow, join, edge)
    out = dict((k, frozenset(f for (f, _n) in v)) for k, v in IN.items())
    # a tested boolean temporary stands for its definition (`t = A and B ; if t:` establishes A and B)
    fn = getattr(cfg, "fn", None)
    if isinstance(fn, (ast.FunctionDef, ast.AsyncFunctionDef)):
        from .astutil import Resolver
        res = Resolver(fn)
        if any(f[0] in ("true", "false") and f[1].isidentifier() for v in out.values() for f in v):
            out = dict((k, with_bool_temps(v, res)) for k, v in out.items())
    return out


def has_cmp(facts, a, op, b):
    """Does the fact set contain relation a op b (in either orientation)?"""
    if ("cmp", a, op, b) in facts:
        return True
    if op in _FLIP and ("cmp", b, _FLIP[op], a) in facts:
        return True
    return False


def truthy(facts, text):
    return ("true", text) in facts


def falsy(facts, text):
    return ("false", text) in facts


def _lin_of_text(t):
    from .astutil import linear
    return linear(ast.parse(t, mode="eval").body)


def _lin_sub(a, b):
    terms = dict(a[0])
    for (t, c) in b[0]:
        terms[t] = terms.get(t, 0) - c
    return frozenset((t, c) for t, c in terms.items() if c), a[1] - b[1]


def entails_nonneg(facts, goal):
    """Do the comparison facts entail  goal >= 0  (goal: linear form from astutil.linear) by ONE fact plus a constant?
    Integers are assumed.  Returns the fact used, or None."""
    for f in facts:
        if f[0] != "cmp" or f[2] not in ("<", "<=", ">", ">=", "=="):
            continue
        try:
            a, b = _lin_of_text(f[1]), _lin_of_text(f[3])
        except SyntaxError:
            continue
        cands = []
        if f[2] in (">=", "=="):
            cands.append(_lin_sub(a, b))
        if f[2] == ">":
            d = _lin_sub(a, b)
            cands.append((d[0], d[1] - 1))
        if f[2] in ("<=", "=="):
            cands.append(_lin_sub(b, a))
        if f[2] == "<":
            d = _lin_sub(b, a)
            cands.append((d[0], d[1] - 1))
        for L in cands:           # L >= 0 is known
            diff = _lin_sub(goal, L)
            if not diff[0] and diff[1] >= 0:
                return f
    return None


def with_bool_temps(facts, resolver):
    """The fact set augmented with what a tested boolean temporary stands for: `t = A and B ; if t:` gives A and B as well.  Only for a
    local with a single definition whose own names are bound at most once in the function (the value tested is the value defined)."""
    out = set(facts)
    todo = [f for f in facts if f[0] in ("true", "false")]
    seen = set()
    while todo:
        f = todo.pop()
        if f in seen:
            continue
        seen.add(f)
        name = f[1]
        if not name.isidentifier():
            continue
        d = resolver.unique_def(name)
        if d is None:
            continue
        stable = all(len(resolver.defs.get(n.id, [])) <= 1 or n.id in resolver.params and len(resolver.defs.get(n.id, [])) == 0
                     for n in ast.walk(d) if isinstance(n, ast.Name))
        if not stable:
            continue
        def atoms_of(e, pol):
            if isinstance(e, ast.BoolOp) and ((isinstance(e.op, ast.And) and pol) or (isinstance(e.op, ast.Or) and not pol)):
                res = []
                for v in e.values:
                    res.extend(atoms_of(v, pol))
                return res
            if isinstance(e, ast.UnaryOp) and isinstance(e.op, ast.Not):
                return atoms_of(e.operand, not pol)
            return atom(e, pol)
        for a in atoms_of(d, f[0] == "true"):
            if a not in out:
                out.add(a)
                if a[0] in ("true", "false"):
                    todo.append(a)
    return frozenset(out)
