"""Canonical form of a parsed module, applied once when a file is loaded (sa/repo.Module) so that every rule sees the same tree for
behaviour-preserving spellings of the same code:

  C1 comparison orientation   a > b -> b < a ;  a >= b -> b <= a ;  for == / != a constant (or None / True / False) goes right,
                              otherwise the operands are put in lexicographic order of their source text
  C2 negations                not (a in b) -> a not in b ; not (a is b) -> a is not b ; not (a == b) -> a != b ; not (a < b) -> b <= a ...
                              not not a -> a
  C3 branch order             `if not c: A else: B` (two arms, not an elif chain) -> `if c: B else: A`
                              `X if not c else Y` -> `Y if c else X`
  C4 trailing temporaries     `t = E` immediately followed by the only use of t in `return t` / `return f(..t..)`? no: only the exact
                              `t = E ; return t` pair becomes `return E`

  C5 parallel assignment       `a, b = x, y` -> `a = x ; b = y` when no left name is read on the right

Positions (lineno) of rewritten nodes are those of the original nodes, so reports still point into the real file.
"""
import ast
import os

_FLIP = {ast.Gt: ast.Lt, ast.GtE: ast.LtE}
_NEG = {ast.In: ast.NotIn, ast.NotIn: ast.In, ast.Is: ast.IsNot, ast.IsNot: ast.Is, ast.Eq: ast.NotEq, ast.NotEq: ast.Eq,
        ast.Lt: ast.GtE, ast.LtE: ast.Gt, ast.Gt: ast.LtE, ast.GtE: ast.Lt}


def _is_const(n):
    """literal constants and constant-like names (ALL_CAPS identifiers such as TOK_EQUAL, csts.EXCEPT_X)"""
    if isinstance(n, ast.Constant) or (isinstance(n, ast.UnaryOp) and isinstance(n.operand, ast.Constant)):
        return True
    last = n.id if isinstance(n, ast.Name) else (n.attr if isinstance(n, ast.Attribute) else None)
    return last is not None and last.upper() == last and any(c.isalpha() for c in last)


class _Canon(ast.NodeTransformer):
    def visit_Compare(self, n):
        self.generic_visit(n)
        if len(n.ops) != 1:
            return n
        op = n.ops[0]
        l, r = n.left, n.comparators[0]
        if type(op) in _FLIP:
            return ast.copy_location(ast.Compare(left=r, ops=[_FLIP[type(op)]()], comparators=[l]), n)
        if isinstance(op, (ast.Eq, ast.NotEq)):
            if _is_const(l) and not _is_const(r):
                return ast.copy_location(ast.Compare(left=r, ops=[op], comparators=[l]), n)
            if not _is_const(l) and not _is_const(r) and ast.unparse(l) > ast.unparse(r):
                return ast.copy_location(ast.Compare(left=r, ops=[op], comparators=[l]), n)
        return n

    def visit_UnaryOp(self, n):
        self.generic_visit(n)
        if isinstance(n.op, ast.Not):
            o = n.operand
            if isinstance(o, ast.UnaryOp) and isinstance(o.op, ast.Not):
                return o.operand
            if isinstance(o, ast.Compare) and len(o.ops) == 1 and type(o.ops[0]) in _NEG:
                new = ast.Compare(left=o.left, ops=[_NEG[type(o.ops[0])]()], comparators=o.comparators)
                return self.visit_Compare(ast.copy_location(new, n))
        return n

    # a two-armed test is written with the "positive" spelling: no leading not, == / in / is rather than != / not in / is not,
    # strict < rather than <= (so that `if c: A else: B` and `if not c: B else: A` are one tree whatever c is)
    _POS = {ast.NotEq: ast.Eq, ast.NotIn: ast.In, ast.IsNot: ast.Is}

    def _positive(self, t):
        """(test', swapped?)"""
        if isinstance(t, ast.UnaryOp) and isinstance(t.op, ast.Not):
            return t.operand, True
        if isinstance(t, ast.Compare) and len(t.ops) == 1:
            o = type(t.ops[0])
            if o in self._POS:
                return ast.copy_location(ast.Compare(left=t.left, ops=[self._POS[o]()], comparators=t.comparators), t), True
            if o is ast.LtE:
                # not (a <= b)  ==  b < a
                return ast.copy_location(ast.Compare(left=t.comparators[0], ops=[ast.Lt()], comparators=[t.left]), t), True
        return t, False

    def visit_If(self, n):
        self.generic_visit(n)
        if n.orelse and not (len(n.orelse) == 1 and isinstance(n.orelse[0], ast.If)) and not getattr(n, "_elif", False):
            t, sw = self._positive(n.test)
            if sw:
                return ast.copy_location(ast.If(test=t, body=n.orelse, orelse=n.body), n)
        return n

    def visit_IfExp(self, n):
        self.generic_visit(n)
        t, sw = self._positive(n.test)
        if sw:
            return ast.copy_location(ast.IfExp(test=t, body=n.orelse, orelse=n.body), n)
        return n

    def visit(self, node):
        if isinstance(node, ast.If) and len(node.orelse) == 1 and isinstance(node.orelse[0], ast.If) and \
                node.orelse[0].col_offset == node.col_offset:
            node.orelse[0]._elif = True
        return super(_Canon, self).visit(node)


def _fold_return_temps(tree):
    for node in ast.walk(tree):
        for fld in ("body", "orelse", "finalbody"):
            b = getattr(node, fld, None)
            if not (isinstance(b, list) and len(b) >= 2 and isinstance(b[0], ast.stmt)):
                continue
            i = 0
            while i + 1 < len(b):
                a, r = b[i], b[i + 1]
                if isinstance(a, ast.Assign) and len(a.targets) == 1 and isinstance(a.targets[0], ast.Name) and isinstance(r, ast.Return) \
                        and isinstance(r.value, ast.Name) and r.value.id == a.targets[0].id:
                    b[i:i + 2] = [ast.copy_location(ast.Return(value=a.value), a)]
                    continue
                i += 1


def _split_parallel_assignments(tree):
    """C5  `a, b = x, y` (plain distinct names on the left, a display of the same length on the right, no left name read on the right)
    -> `a = x ; b = y`.  Evaluation order of x, y is kept; the only difference - a is bound before y is evaluated - is invisible because y
    does not read a."""
    for node in ast.walk(tree):
        for fld in ("body", "orelse", "finalbody"):
            b = getattr(node, fld, None)
            if not (isinstance(b, list) and b and isinstance(b[0], ast.stmt)):
                continue
            out = []
            for st in b:
                if isinstance(st, ast.Assign) and len(st.targets) == 1 and isinstance(st.targets[0], (ast.Tuple, ast.List)) and \
                        isinstance(st.value, (ast.Tuple, ast.List)) and len(st.targets[0].elts) == len(st.value.elts) and \
                        all(isinstance(t, ast.Name) for t in st.targets[0].elts) and not any(isinstance(v, ast.Starred) for v in st.value.elts):
                    names = [t.id for t in st.targets[0].elts]
                    read = set(x.id for v in st.value.elts for x in ast.walk(v) if isinstance(x, ast.Name))
                    calls = any(isinstance(x, (ast.Call, ast.Yield, ast.YieldFrom, ast.Await, ast.NamedExpr)) for v in st.value.elts for x in ast.walk(v))
                    if len(set(names)) == len(names) and not (set(names) & read) and not (calls and _names_global(tree, names)):
                        for t, v in zip(st.targets[0].elts, st.value.elts):
                            out.append(ast.copy_location(ast.Assign(targets=[t], value=v), st))
                        continue
                out.append(st)
            setattr(node, fld, out)


def _names_global(tree, names):
    """a call on the right-hand side could observe a module-level / nonlocal name being bound early: only function locals are split"""
    for n in ast.walk(tree):
        if isinstance(n, (ast.Global, ast.Nonlocal)) and set(n.names) & set(names):
            return True
    return False


def _terminates(block):
    return bool(block) and isinstance(block[-1], (ast.Return, ast.Raise, ast.Continue, ast.Break))


def _is_chain(st):
    return getattr(st, "_elif", False) or (len(st.orelse) == 1 and isinstance(st.orelse[0], ast.If) and st.orelse[0].col_offset == st.col_offset)


def _guard_style(tree):
    """C6  guard style for two-armed tests one arm of which leaves the block (return / raise / continue / break):
             if c: A(leaves) else: B          ->  if c: A ; B
             if c: A else: B(leaves)          ->  if not c: B ; A
       and, when the guarded arm AND the rest of the block both leave, the guard is the smaller of the two (fewer statements), the one
       under the positive test on a tie:
             if c: A(long, leaves) ; B(short, leaves)  ->  if not c: B ; A
       elif chains are left alone."""
    canon = _Canon()

    def negate(t):
        return canon.visit_UnaryOp(ast.copy_location(ast.UnaryOp(op=ast.Not(), operand=t), t))

    def size(block):
        return sum(1 for s_ in block for x in ast.walk(s_) if isinstance(x, ast.stmt))

    def fix(block):
        # inner blocks first
        for st in block:
            for fld in ("body", "orelse", "finalbody"):
                b = getattr(st, fld, None)
                if isinstance(b, list) and b and isinstance(b[0], ast.stmt):
                    setattr(st, fld, fix(b))
            for h in getattr(st, "handlers", []) or []:
                h.body = fix(h.body)
        out = list(block)
        i = 0
        while i < len(out):
            st = out[i]
            if isinstance(st, ast.If) and _is_chain(st) and os.environ.get("VERIF_NOCHAINFLAT") != "1":
                # an elif chain whose first arm leaves the block: the rest of the chain is what follows the guard
                if not getattr(st, "_elif", False) and st.orelse and _terminates(st.body):
                    rest = st.orelse
                    st.orelse = []
                    for r_ in rest:
                        if isinstance(r_, ast.If):
                            r_._elif = False
                    out[i + 1:i + 1] = rest
                    i += 1
                    continue
            if isinstance(st, ast.If) and not _is_chain(st):
                if st.orelse:
                    tb, te = _terminates(st.body), _terminates(st.orelse)
                    if tb and te and size(st.orelse) < size(st.body):
                        st.test, st.body, st.orelse = negate(st.test), st.orelse, st.body      # the smaller arm is the guard
                    if tb:
                        rest = st.orelse
                        st.orelse = []
                        out[i + 1:i + 1] = rest
                        continue                       # look at the same statement again (now one-armed)
                    if te:
                        body = st.body
                        st.test, st.body, st.orelse = negate(st.test), st.orelse, []
                        out[i + 1:i + 1] = body
                        continue
                elif _terminates(st.body) and i + 1 < len(out) and _terminates(out[i + 1:]):
                    # both the guarded arm and the rest of the block leave: the guard is the smaller of the two, the positive test on a tie
                    rest = out[i + 1:]
                    sa_, sb_ = size(st.body), size(rest)
                    t, sw = canon._positive(st.test)
                    if sb_ < sa_ or (sb_ == sa_ and sw):
                        guarded = st.body
                        st.test, st.body = (t if sw else negate(st.test)), rest
                        out[i + 1:] = guarded
            i += 1
        return out

    for node in ast.walk(tree):
        if isinstance(node, (ast.FunctionDef, ast.AsyncFunctionDef)):
            node.body = fix(node.body)
    return tree


def canonicalise(tree):
    tree = _Canon().visit(tree)
    _fold_return_temps(tree)                 # before the guard style: the sizes of the arms it compares must not depend on temporaries
    if os.environ.get("VERIF_NOGUARD") != "1":
        _guard_style(tree)
    _split_parallel_assignments(tree)
    _fold_return_temps(tree)
    ast.fix_missing_locations(tree)
    return tree
