"""Small syntax helpers shared by the rules."""
import ast


def dotted(node):
    """'a.b.c' for Name/Attribute chains, 'f().x' style chains give None."""
    parts = []
    while isinstance(node, ast.Attribute):
        parts.append(node.attr)
        node = node.value
    if isinstance(node, ast.Name):
        parts.append(node.id)
        return ".".join(reversed(parts))
    return None


def call_name(call):
    """Dotted name of the callee of a Call, or the trailing attribute ('*.attr')."""
    f = call.func
    d = dotted(f)
    if d is not None:
        return d
    if isinstance(f, ast.Attribute):
        return "*." + f.attr
    return None


def callee_attr(call):
    """Last component of the callee name."""
    f = call.func
    if isinstance(f, ast.Attribute):
        return f.attr
    if isinstance(f, ast.Name):
        return f.id
    return None


def walk_local(node, include_self=True):
    """ast.walk that does not descend into nested function/class definitions
    (lambdas and comprehensions are descended)."""
    stack = [node]
    first = True
    while stack:
        n = stack.pop()
        if not first and isinstance(n, (ast.FunctionDef, ast.AsyncFunctionDef, ast.ClassDef)):
            continue
        if include_self or not first:
            yield n
        first = False
        stack.extend(reversed(list(ast.iter_child_nodes(n))))


def walk_body(fn):
    """All nodes of the body of a function, excluding nested defs."""
    for st in fn.body:
        for n in walk_local(st):
            yield n


def calls(node):
    return [n for n in walk_local(node) if isinstance(n, ast.Call)]


def calls_named(node, *names):
    out = []
    for c in calls(node):
        cn = call_name(c)
        ca = callee_attr(c)
        if cn in names or ca in names:
            out.append(c)
    return out


def norm(node):
    """Normalised source text of a node (whitespace/quotes/comments independent)."""
    try:
        return ast.unparse(node)
    except Exception:
        return ast.dump(node)


def const_value(node, env=None):
    """Fold a simple constant expression; returns (ok, value)."""
    env = env or {}
    try:
        return True, _fold(node, env)
    except _NoFold:
        return False, None


class _NoFold(Exception):
    pass


def _fold(n, env):
    if isinstance(n, ast.Constant):
        return n.value
    if isinstance(n, ast.Name):
        if n.id in env:
            v = env[n.id]
            if isinstance(v, ast.AST):
                return _fold(v, env)
            return v
        raise _NoFold()
    if isinstance(n, ast.UnaryOp):
        v = _fold(n.operand, env)
        if isinstance(n.op, ast.USub):
            return -v
        if isinstance(n.op, ast.Invert):
            return ~v
        if isinstance(n.op, ast.Not):
            return not v
        raise _NoFold()
    if isinstance(n, ast.BinOp):
        a = _fold(n.left, env)
        b = _fold(n.right, env)
        ops = {ast.Add: lambda: a + b, ast.Sub: lambda: a - b, ast.Mult: lambda: a * b,
               ast.LShift: lambda: a << b, ast.RShift: lambda: a >> b,
               ast.BitOr: lambda: a | b, ast.BitAnd: lambda: a & b, ast.BitXor: lambda: a ^ b,
               ast.FloorDiv: lambda: a // b, ast.Mod: lambda: a % b, ast.Pow: lambda: a ** b}
        f = ops.get(type(n.op))
        if f is None:
            raise _NoFold()
        try:
            return f()
        except Exception:
            raise _NoFold()
    if isinstance(n, (ast.Tuple, ast.List)):
        return [_fold(e, env) for e in n.elts]
    if isinstance(n, ast.Set):
        return set(_fold(e, env) for e in n.elts)
    raise _NoFold()


def str_elts(node):
    """Strings of a list/tuple/set literal (or of dict keys); None if not literal."""
    if isinstance(node, (ast.List, ast.Tuple, ast.Set)):
        out = []
        for e in node.elts:
            if isinstance(e, ast.Constant) and isinstance(e.value, str):
                out.append(e.value)
            else:
                return None
        return out
    if isinstance(node, ast.Dict):
        out = []
        for e in node.keys:
            if isinstance(e, ast.Constant) and isinstance(e.value, str):
                out.append(e.value)
            else:
                return None
        return out
    if isinstance(node, ast.Call) and callee_attr(node) in ("set", "frozenset", "list", "tuple") and node.args:
        return str_elts(node.args[0])
    return None


def assigned_targets(stmt):
    """Target expressions written by a statement (Assign/AugAssign/AnnAssign/Delete/For/With)."""
    out = []
    if isinstance(stmt, ast.Assign):
        for t in stmt.targets:
            out.extend(_flatten(t))
    elif isinstance(stmt, (ast.AugAssign, ast.AnnAssign)):
        out.extend(_flatten(stmt.target))
    elif isinstance(stmt, ast.Delete):
        for t in stmt.targets:
            out.extend(_flatten(t))
    elif isinstance(stmt, ast.For):
        out.extend(_flatten(stmt.target))
    return out


def _flatten(t):
    if isinstance(t, (ast.Tuple, ast.List)):
        out = []
        for e in t.elts:
            out.extend(_flatten(e))
        return out
    if isinstance(t, ast.Starred):
        return _flatten(t.value)
    return [t]


MUTATORS = set(["append", "extend", "insert", "pop", "remove", "clear", "add", "discard", "update",
                "setdefault", "popitem", "sort", "reverse"])


def writes_to_attr(fn, attr, base="self"):
    """Statements/expressions in fn that mutate `<base>.<attr>`: rebinding, item store, del,
    augmented assignment, or calling a mutating method on it. Returns list of (node, how)."""
    out = []
    want = "%s.%s" % (base, attr)
    for n in walk_body(fn):
        if isinstance(n, (ast.Assign, ast.AugAssign, ast.AnnAssign, ast.Delete, ast.For)):
            for t in assigned_targets(n):
                if dotted(t) == want:
                    out.append((n, "rebind" if not isinstance(n, ast.Delete) else "del"))
                elif isinstance(t, ast.Subscript) and dotted(t.value) == want:
                    out.append((n, "delitem" if isinstance(n, ast.Delete) else "setitem"))
        elif isinstance(n, ast.Call) and isinstance(n.func, ast.Attribute):
            if n.func.attr in MUTATORS and dotted(n.func.value) == want:
                out.append((n, n.func.attr))
    return out


def enclosing_stmt(node):
    n = node
    while n is not None and not isinstance(n, ast.stmt):
        n = getattr(n, "_parent", None)
    return n


def enclosing_func(node):
    n = getattr(node, "_parent", None)
    while n is not None and not isinstance(n, (ast.FunctionDef, ast.AsyncFunctionDef)):
        n = getattr(n, "_parent", None)
    return n


def contains(node, pred):
    for n in walk_local(node):
        if pred(n):
            return True
    return False


def names_in(node):
    return set(n.id for n in walk_local(node) if isinstance(n, ast.Name))


class Resolver(object):
    """Expands local names that have exactly one definition in a function into that definition
    (recursively), so that rules are insensitive to naming / inlining of temporaries."""

    def __init__(self, fn):
        self.fn = fn
        self.defs = {}
        params = set()
        a = fn.args
        for p in list(a.posonlyargs) + list(a.args) + list(a.kwonlyargs):
            params.add(p.arg)
        if a.vararg:
            params.add(a.vararg.arg)
        if a.kwarg:
            params.add(a.kwarg.arg)
        self.params = params
        for n in walk_body(fn):
            if isinstance(n, ast.Assign):
                for t in n.targets:
                    if isinstance(t, ast.Name):
                        self.defs.setdefault(t.id, []).append(n.value)
                    else:
                        for e in _flatten(t):
                            if isinstance(e, ast.Name):
                                self.defs.setdefault(e.id, []).append(None)
            elif isinstance(n, (ast.AugAssign, ast.AnnAssign)):
                if isinstance(n.target, ast.Name):
                    self.defs.setdefault(n.target.id, []).append(None)
            elif isinstance(n, (ast.For, ast.comprehension)):
                for e in _flatten(n.target):
                    if isinstance(e, ast.Name):
                        self.defs.setdefault(e.id, []).append(None)
            elif isinstance(n, ast.With):
                for i in n.items:
                    if isinstance(i.optional_vars, ast.Name):
                        self.defs.setdefault(i.optional_vars.id, []).append(None)
            elif isinstance(n, ast.NamedExpr) and isinstance(n.target, ast.Name):
                self.defs.setdefault(n.target.id, []).append(None)
        for p in params:
            if p in self.defs:
                self.defs[p].append(None)   # parameter + rebinding: not unique

    def unique_def(self, name):
        d = self.defs.get(name)
        if d and len(d) == 1 and d[0] is not None:
            return d[0]
        return None

    def expand_node(self, node, depth=6):
        """A deep copy of `node` with uniquely defined local names substituted."""
        res = self

        class T(ast.NodeTransformer):
            def visit_Name(self, n):
                if isinstance(n.ctx, ast.Load) and depth > 0:
                    d = res.unique_def(n.id)
                    if d is not None:
                        return res.expand_node(d, depth - 1)
                return n
        return T().visit(clone(node))

    def expand(self, node):
        return norm(self.expand_node(node))

    def element_def(self, name):
        """If `name` is bound only as the (single Name) target of one for statement / comprehension generator whose iterable expands
        to a list / tuple display with one distinct element expression or to a comprehension with one generator, the expression of an
        element (for a comprehension: its `elt`, which mentions the comprehension's own variables); else None."""
        d = self.defs.get(name)
        if not d or len(d) != 1 or d[0] is not None or name in self.params:
            return None
        srcs = []
        for n in ast.walk(self.fn):
            if isinstance(n, (ast.For, ast.comprehension)) and isinstance(n.target, ast.Name) and n.target.id == name:
                srcs.append(n.iter)
        if len(srcs) != 1:
            return None
        it = self.expand_node(srcs[0])
        if isinstance(it, (ast.ListComp, ast.GeneratorExp, ast.SetComp)) and len(it.generators) == 1:
            return it.elt
        if isinstance(it, (ast.List, ast.Tuple)) and it.elts and len(set(norm(e) for e in it.elts)) == 1:
            return it.elts[0]
        return None

    def expand_with_elements(self, node, depth=4):
        """expand_node, and names that stand for an element of a locally built sequence become that element's expression"""
        res = self
        out = self.expand_node(node)

        class T(ast.NodeTransformer):
            def visit_Name(self, n):
                if isinstance(n.ctx, ast.Load) and depth > 0:
                    e = res.element_def(n.id)
                    if e is not None:
                        return res.expand_with_elements(e, depth - 1)
                return n
        return T().visit(out)

    def all_defs(self, name):
        return [d for d in self.defs.get(name, []) if d is not None]


def linear(node):
    """Linear normal form of an integer expression built with + - and integer constants:
    (frozenset of (term text, coefficient), constant). Non-linear sub-terms are opaque texts."""
    terms = {}
    const = [0]

    def add(n, sign):
        if isinstance(n, ast.BinOp) and isinstance(n.op, ast.Add):
            add(n.left, sign)
            add(n.right, sign)
        elif isinstance(n, ast.BinOp) and isinstance(n.op, ast.Sub):
            add(n.left, sign)
            add(n.right, -sign)
        elif isinstance(n, ast.UnaryOp) and isinstance(n.op, ast.USub):
            add(n.operand, -sign)
        elif isinstance(n, ast.Constant) and isinstance(n.value, int) and not isinstance(n.value, bool):
            const[0] += sign * n.value
        else:
            t = norm(n)
            terms[t] = terms.get(t, 0) + sign
    add(node, 1)
    return frozenset((t, c) for t, c in terms.items() if c != 0), const[0]


def cmp_parts(test):
    """(left, op, right) nodes+op string for a single-operator Compare, else None."""
    ops = {ast.Lt: "<", ast.LtE: "<=", ast.Gt: ">", ast.GtE: ">=", ast.Eq: "==", ast.NotEq: "!=",
           ast.In: "in", ast.NotIn: "notin", ast.Is: "is", ast.IsNot: "isnot"}
    if isinstance(test, ast.Compare) and len(test.ops) == 1:
        op = ops.get(type(test.ops[0]))
        if op:
            return test.left, op, test.comparators[0]
    return None


def less_than(test, polarity=True):
    """If `test` (with the given truth value) states  A < B  or  A <= B, return (A, B, strict)
    as nodes; handles > / >= by swapping and `not`. Else None."""
    neg = {"<": ">=", "<=": ">", ">": "<=", ">=": "<"}
    while isinstance(test, ast.UnaryOp) and isinstance(test.op, ast.Not):
        test = test.operand
        polarity = not polarity
    p = cmp_parts(test)
    if p is None or p[1] not in neg:
        return None
    a, op, b = p
    if not polarity:
        op = neg[op]
    if op == "<":
        return a, b, True
    if op == "<=":
        return a, b, False
    if op == ">":
        return b, a, True
    return b, a, False


def clone(node):
    """Structural copy of an ast node that does not follow the `_parent` back links."""
    if isinstance(node, ast.AST):
        new = type(node)()
        for f in node._fields:
            if hasattr(node, f):
                setattr(new, f, clone(getattr(node, f)))
        for a in ("lineno", "col_offset", "end_lineno", "end_col_offset"):
            if hasattr(node, a):
                setattr(new, a, getattr(node, a))
        return new
    if isinstance(node, list):
        return [clone(x) for x in node]
    return node


def straightline_env(stmts, env=None):
    """name -> expression (ast) after executing the straight-line statements in order, each right-hand side having the
    earlier definitions substituted (so a name reassigned several times is followed). Non-assignments are skipped;
    compound statements end the walk."""
    env = dict(env or {})

    def subst(e):
        class T(ast.NodeTransformer):
            def visit_Name(self, n):
                if isinstance(n.ctx, ast.Load) and n.id in env:
                    return clone(env[n.id])
                return n
        return T().visit(clone(e))
    for st in stmts:
        if isinstance(st, ast.Assign) and len(st.targets) == 1:
            tg = st.targets[0]
            if isinstance(tg, ast.Name):
                env[tg.id] = subst(st.value)
            elif isinstance(tg, ast.Tuple) and isinstance(st.value, ast.Tuple) and len(tg.elts) == len(st.value.elts):
                vals = [subst(v) for v in st.value.elts]
                for t, v in zip(tg.elts, vals):
                    if isinstance(t, ast.Name):
                        env[t.id] = v
        elif isinstance(st, ast.AugAssign) and isinstance(st.target, ast.Name):
            if st.target.id in env:
                env[st.target.id] = ast.BinOp(left=clone(env[st.target.id]), op=st.op, right=subst(st.value))
            continue
        elif isinstance(st, (ast.Expr, ast.Assert, ast.Pass, ast.AugAssign, ast.Continue, ast.Break, ast.Return)):
            continue
        else:
            # a compound statement: what it may rebind is forgotten, the walk goes on
            for n in ast.walk(st):
                if isinstance(n, ast.Name) and isinstance(n.ctx, (ast.Store, ast.Del)):
                    env.pop(n.id, None)
            continue
    return env


def added_elements(call):
    """(container text, [element asts]) when `call` adds elements to a set / list held in a name or access path:
    X.add(e) / X.append(e) -> [e];  X.update(<display>) / X.extend(<display>) -> the display's elements;  None otherwise."""
    if not (isinstance(call, ast.Call) and isinstance(call.func, ast.Attribute) and len(call.args) == 1 and not call.keywords):
        return None
    a = call.args[0]
    if call.func.attr in ("add", "append"):
        return norm(call.func.value), [a]
    if call.func.attr in ("update", "extend"):
        if isinstance(a, (ast.Tuple, ast.List, ast.Set)):
            return norm(call.func.value), list(a.elts)
        if isinstance(a, ast.Call) and isinstance(a.func, ast.Name) and a.func.id in ("set", "list", "tuple", "frozenset") and len(a.args) == 1 \
                and isinstance(a.args[0], (ast.Tuple, ast.List, ast.Set)):
            return norm(call.func.value), list(a.args[0].elts)
    return None


def arm_when(ifnode, truth=True):
    """Statements executed when the test of `ifnode` has the given truth value, for either layout of a two-way decision:
    the body (truth=True) / the else arm, plus - when the other arm leaves the block (return / raise / continue / break) - the
    statements that follow the `if` in its block.  A leading `not` in the test is taken into account."""
    t = ifnode.test
    if isinstance(t, ast.UnaryOp) and isinstance(t.op, ast.Not):
        truth = not truth
    first, other = (ifnode.body, ifnode.orelse) if truth else (ifnode.orelse, ifnode.body)
    out = list(first)
    leaves = bool(other) and isinstance(other[-1], (ast.Return, ast.Raise, ast.Continue, ast.Break))
    if leaves or (not other and False):
        par = getattr(ifnode, "_parent", None)
        for fld in ("body", "orelse", "finalbody"):
            sib = getattr(par, fld, None)
            if isinstance(sib, list) and ifnode in sib:
                out += sib[sib.index(ifnode) + 1:]
    return out


def positive_test(ifnode):
    """the test of `ifnode` without a leading `not`"""
    t = ifnode.test
    return t.operand if isinstance(t, ast.UnaryOp) and isinstance(t.op, ast.Not) else t
