"""Iterator invalidation: a loop that walks a *live view* of a container field of `self` while its body mutates that very
container.  Python lists silently skip the element after each removal (every second edge survives `del_node`), dicts and sets
raise RuntimeError on a size change.

For a class (methods resolved through the MRO across modules):

  views[M]     = (field path, key text | None) when method M hands out a live view: `return self.F`, `return self.F[k]`, a
                 generator whose loop iterates such an expression or another live-view method and yields from it
                 (copies - list(), set(), sorted(), tuple(), a comprehension, .copy(), dict() - are not live)
  mutates[M]   = set of (field path, key text | None, kind) M may apply, directly (`self.F.remove(x)`, `del self.F[k]`,
                 `self.F[k].remove(x)`, `self.F[k] = v` on a new key ...) or through `self.N(...)` calls, with the callee's
                 parameter names replaced by the argument texts (one substitution per call level)

  field path: ('F',) the container itself; ('F', '[]') the container stored under a key of F (key text kept separately).

check_class() then reports every `for` whose iterable is a live view (path P, key K) and whose body, not immediately
followed by break/return, applies a mutation to the same path with the same key text (or with no key for ('F',)).
Unknown keys never produce a report.
"""
import ast

from .astutil import norm, dotted, walk_local

COPIERS = ("list", "set", "tuple", "sorted", "dict", "frozenset", "reversed_copy")
LIST_MUT = ("append", "remove", "pop", "clear", "insert", "extend", "sort", "reverse", "add", "discard", "update", "popitem")
SHRINK = ("remove", "pop", "clear", "discard", "popitem")


def _self_path(e):
    """self.F -> (('F',), None); self.F[k] -> (('F','[]'), 'k'); else None"""
    if isinstance(e, ast.Attribute) and isinstance(e.value, ast.Name) and e.value.id == "self":
        return (e.attr,), None
    if isinstance(e, ast.Subscript) and isinstance(e.value, ast.Attribute) and isinstance(e.value.value, ast.Name) \
            and e.value.value.id == "self" and not isinstance(e.slice, ast.Slice):
        return (e.value.attr, "[]"), norm(e.slice)
    return None


def _unwrap_view(e):
    """strip view helpers that stay live: viewitems(x), x.items()/keys()/values(), iter(x)"""
    while True:
        if isinstance(e, ast.Call) and dotted(e.func) in ("viewitems", "viewkeys", "viewvalues", "iteritems", "iterkeys", "itervalues", "iter", "enumerate") and e.args:
            e = e.args[0]
        elif isinstance(e, ast.Call) and isinstance(e.func, ast.Attribute) and e.func.attr in ("items", "keys", "values", "iteritems", "iterkeys", "itervalues") and not e.args:
            e = e.func.value
        else:
            return e


class ClassModel(object):
    def __init__(self, repo, mod, clsname):
        self.repo = repo
        self.mod = mod
        self.name = clsname
        self.chain = self._mro_chain(mod, clsname)          # [(Module, ClassDef)] most derived first
        self.methods = {}                                   # name -> (Module, FunctionDef) most derived definition
        self.defs = {}                                      # (class name, method) -> (Module, FunctionDef)
        self.owner = {}                                     # id(FunctionDef) -> index in chain
        for i, (m_, c_) in enumerate(self.chain):
            for st in c_.body:
                if isinstance(st, ast.FunctionDef):
                    self.defs[(c_.name, st.name)] = (m_, st)
                    self.owner[id(st)] = i
                    if st.name not in self.methods:
                        self.methods[st.name] = (m_, st)
        self.views = {}
        self.mutates = {}
        self._compute_views()
        self._compute_mutations()

    def _mro_chain(self, mod, clsname):
        out, seen = [], set()

        def rec(m, c):
            if (m.rel, c.name) in seen:
                return
            seen.add((m.rel, c.name))
            out.append((m, c))
            for b in c.bases:
                bn = b.id if isinstance(b, ast.Name) else (b.attr if isinstance(b, ast.Attribute) else None)
                if bn is None:
                    continue
                m2, c2 = self.repo.find_class(m, bn)
                if c2 is not None:
                    rec(m2, c2)
        rec(mod, mod.cls(clsname))
        return out

    def _next_def(self, fdef, name):
        """The definition of `name` that super() reaches from the class defining `fdef`."""
        i = self.owner.get(id(fdef), -1)
        for (m_, c_) in self.chain[i + 1:]:
            d = self.defs.get((c_.name, name))
            if d is not None:
                return d
        return None

    # ------------------------------------------------------------------ live views
    def _view_of_expr(self, e, params=None):
        e = _unwrap_view(e)
        p = _self_path(e)
        if p is not None:
            return p
        if isinstance(e, ast.Call) and isinstance(e.func, ast.Attribute) and isinstance(e.func.value, ast.Name) and e.func.value.id == "self" \
                and e.func.attr in self.views:
            path, key = self.views[e.func.attr]
            if key is not None:
                m, f = self.methods[e.func.attr]
                names = [a.arg for a in f.args.args[1:]]
                sub = dict(zip(names, [norm(a) for a in e.args]))
                key = sub.get(key, None if key in names else key)
            return path, key
        return None

    def _compute_views(self):
        changed = True
        rounds = 0
        while changed and rounds < 5:
            changed = False
            rounds += 1
            for name, (m, f) in self.methods.items():
                if name in self.views:
                    continue
                v = None
                is_gen = any(isinstance(n, (ast.Yield, ast.YieldFrom)) for n in walk_local(f))
                if is_gen:
                    for loop in [n for n in walk_local(f) if isinstance(n, ast.For)]:
                        src = self._view_of_expr(loop.iter)
                        if src is not None and any(isinstance(n, ast.Yield) for st in loop.body for n in walk_local(st)):
                            v = src
                    for n in walk_local(f):
                        if isinstance(n, ast.YieldFrom):
                            src = self._view_of_expr(n.value)
                            if src is not None:
                                v = src
                else:
                    rets = [n for n in walk_local(f) if isinstance(n, ast.Return) and n.value is not None]
                    if len(rets) >= 1:
                        srcs = [self._view_of_expr(r.value) for r in rets]
                        if all(s is not None for s in srcs) and len(set(srcs)) == 1:
                            v = srcs[0]
                if v is not None:
                    self.views[name] = v
                    changed = True

    # ------------------------------------------------------------------ mutations
    def _direct_mutations(self, f):
        out = set()
        for n in walk_local(f):
            if isinstance(n, ast.Call) and isinstance(n.func, ast.Attribute) and n.func.attr in LIST_MUT:
                p = _self_path(n.func.value)
                if p is not None:
                    out.add((p[0], p[1], n.func.attr))
            if isinstance(n, ast.Delete):
                for t in n.targets:
                    if isinstance(t, ast.Subscript):
                        p = _self_path(t.value)
                        if p is not None:
                            out.add((p[0], p[1], "del"))
        return out

    def _compute_mutations(self):
        self.fmut = {}                     # id(FunctionDef) -> set of effects
        alldefs = list(self.defs.values())
        for (m, f) in alldefs:
            self.fmut[id(f)] = set(self._direct_mutations(f))
        for _round in range(5):
            changed = False
            for (m, f) in alldefs:
                for c in [n for n in walk_local(f) if isinstance(n, ast.Call)]:
                    callee = self._self_callee(c, f)
                    if callee is None or callee[1] is f:
                        continue
                    for eff in self._call_effects(c, callee):
                        if eff not in self.fmut[id(f)]:
                            self.fmut[id(f)].add(eff)
                            changed = True
            if not changed:
                break
        self.mutates = dict((name, self.fmut[id(f)]) for name, (m, f) in self.methods.items())

    def _self_callee(self, c, within=None):
        """(Module, FunctionDef) a `self.x(...)` / `super(...).x(...)` call resolves to."""
        if isinstance(c.func, ast.Attribute) and isinstance(c.func.value, ast.Name) and c.func.value.id == "self" and c.func.attr in self.methods:
            return self.methods[c.func.attr]
        if isinstance(c.func, ast.Attribute) and isinstance(c.func.value, ast.Call) and dotted(c.func.value.func) == "super" and within is not None:
            return self._next_def(within, c.func.attr)
        return None

    def _call_effects(self, c, callee):
        m, f = callee
        names = [a.arg for a in f.args.args[1:]]
        args = []
        unknown = any(k.arg is None for k in c.keywords)
        for a in c.args:
            if isinstance(a, ast.Starred):
                # f(*name) with `name = (x, y)` as the single tuple definition in the enclosing function
                tup = None
                if isinstance(a.value, ast.Name):
                    # nearest preceding `name = (x, y)` in the blocks enclosing the call
                    st_ = a
                    while st_ is not None and tup is None and not isinstance(st_, ast.FunctionDef):
                        par_ = getattr(st_, "_parent", None)
                        for fld_ in ("body", "orelse", "finalbody"):
                            b_ = getattr(par_, fld_, None)
                            if isinstance(b_, list) and st_ in b_:
                                for prev_ in reversed(b_[:b_.index(st_)]):
                                    if any(isinstance(x_, ast.Name) and x_.id == a.value.id and isinstance(x_.ctx, ast.Store) for x_ in ast.walk(prev_)):
                                        if isinstance(prev_, ast.Assign) and len(prev_.targets) == 1 and isinstance(prev_.targets[0], ast.Name) \
                                                and isinstance(prev_.value, ast.Tuple):
                                            tup = prev_.value
                                        else:
                                            tup = False
                                        break
                        if tup is False:
                            tup = None
                            break
                        st_ = par_
                elif isinstance(a.value, ast.Tuple):
                    tup = a.value
                if tup is None:
                    unknown = True
                else:
                    args.extend(tup.elts)
            else:
                args.append(a)
        if unknown:
            sub = dict((n_, "?") for n_ in names)
        else:
            sub = dict(zip(names, [norm(a) for a in args]))
            for k in c.keywords:
                if k.arg:
                    sub[k.arg] = norm(k.value)
        out = set()
        for (path, key, kind) in self.fmut.get(id(f), ()):
            if key is not None:
                if key in sub:
                    key = sub[key]
                elif key in names or not key.isidentifier():
                    key = "?"
                else:
                    key = "?"        # a local of the callee: unknown here
            out.add((path, key, kind))
        return out

    # ------------------------------------------------------------------ the check
    def loops(self, only_own_module=None):
        """Yield (Module, method name, For node, view path, key, conflict or None)."""
        for (cname, name), (m, f) in sorted(self.defs.items()):
            for loop in [n for n in walk_local(f) if isinstance(n, ast.For)]:
                v = self._view_of_expr(loop.iter)
                if v is None:
                    continue
                path, key = v
                conflict = None
                for i_st, st in enumerate(loop.body):
                    conflict = conflict or self._stmt_conflict(st, path, key, f)
                yield m, name, loop, path, key, conflict

    def _stmt_conflict(self, st, path, key, within=None):
        """First mutation inside `st` hitting (path, key), unless the enclosing block leaves the loop right after it."""
        for n in walk_local(st):
            effects = set()
            if isinstance(n, ast.Call):
                callee = self._self_callee(n, within)
                if callee is not None:
                    effects |= self._call_effects(n, callee)
                if isinstance(n.func, ast.Attribute) and n.func.attr in LIST_MUT:
                    p = _self_path(n.func.value)
                    if p is not None:
                        effects.add((p[0], p[1], n.func.attr))
            if isinstance(n, ast.Delete):
                for t in n.targets:
                    if isinstance(t, ast.Subscript):
                        p = _self_path(t.value)
                        if p is not None:
                            effects.add((p[0], p[1], "del"))
            for (p2, k2, kind) in effects:
                if p2 != path or kind not in SHRINK + ("del",):
                    continue
                if len(path) == 2 and (k2 == "?" or key is None or k2 != key):
                    continue
                if self._leaves_after(n):
                    continue
                return (norm(n)[:60], p2, k2, kind)
        return None

    @staticmethod
    def _leaves_after(n):
        """Is the statement containing n directly followed, in its block, by break / return?"""
        st = n
        while st is not None and not isinstance(st, ast.stmt):
            st = getattr(st, "_parent", None)
        par = getattr(st, "_parent", None)
        for fld in ("body", "orelse", "finalbody"):
            b = getattr(par, fld, None)
            if isinstance(b, list) and st in b:
                i = b.index(st)
                if i + 1 < len(b) and isinstance(b[i + 1], (ast.Break, ast.Return)):
                    return True
        return False
