"""Running-sum offsets: loops that accumulate `.size` of the elements of a sequence to obtain bit offsets.

For a loop   for <tgt> in <iter>:   whose body contains   A += <elem>.size   (elem = the loop variable or a component of a
tuple target), with A initialised before the loop, the value of A
    before the update  = init + sum of the sizes of the elements iterated so far           (start offset of elem)
    after  the update  = start offset + size(elem)                                          (end offset of elem)
The start offset is right only when `init` accounts for the elements skipped by the iteration (0 when the loop starts at
element 0; <seq>[0].size when it iterates <seq>[1:]).  A use of A as a shift amount / yielded or stored offset of the current
element must therefore be (1) before the update and (2) in a loop whose init matches its start index.

accumulators(fn) -> list of dict(loop, acc, elem, init, start, uses=[(node, 'before'|'after')], ok, why)
"""
import ast

from .astutil import norm, walk_local, dotted


def _slice_start(it):
    """(sequence text, start index) of an iterable `S`, `S[k:]`, zip(S[k:], ...), enumerate(S)..."""
    out = []
    cands = [it]
    if isinstance(it, ast.Call) and dotted(it.func) in ("zip", "enumerate", "list", "tuple", "reversed", "izip"):
        cands = list(it.args)
    for c in cands:
        if isinstance(c, ast.Subscript) and isinstance(c.slice, ast.Slice) and c.slice.upper is None and c.slice.step is None:
            lo = c.slice.lower
            k = 0 if lo is None else (lo.value if isinstance(lo, ast.Constant) and isinstance(lo.value, int) else None)
            out.append((norm(c.value), k))
        else:
            out.append((norm(c), 0))
    return out


def _targets(t):
    if isinstance(t, ast.Name):
        return [t.id]
    if isinstance(t, (ast.Tuple, ast.List)):
        out = []
        for e in t.elts:
            out.extend(_targets(e))
        return out
    return []


def accumulators(fn):
    res = []
    for loop in [n for n in ast.walk(fn) if isinstance(n, ast.For)]:
        tnames = _targets(loop.target)
        if not tnames:
            continue
        for i, st in enumerate(loop.body):
            acc = elem = None
            if isinstance(st, ast.AugAssign) and isinstance(st.op, ast.Add) and isinstance(st.target, ast.Name) \
                    and isinstance(st.value, ast.Attribute) and st.value.attr == "size" and isinstance(st.value.value, ast.Name) \
                    and st.value.value.id in tnames:
                acc, elem = st.target.id, st.value.value.id
            elif isinstance(st, ast.Assign) and len(st.targets) == 1 and isinstance(st.targets[0], ast.Name) and isinstance(st.value, ast.BinOp) \
                    and isinstance(st.value.op, ast.Add):
                a, b = st.value.left, st.value.right
                for x, y in ((a, b), (b, a)):
                    if isinstance(x, ast.Name) and x.id == st.targets[0].id and isinstance(y, ast.Attribute) and y.attr == "size" \
                            and isinstance(y.value, ast.Name) and y.value.id in tnames:
                        acc, elem = x.id, y.value.id
            if acc is None:
                continue
            # initialisation: last assignment to acc before the loop in the enclosing body
            init = None
            par = getattr(loop, "_parent", None)
            body = None
            for fld in ("body", "orelse", "finalbody"):
                b = getattr(par, fld, None)
                if isinstance(b, list) and loop in b:
                    body = b
            if body is not None:
                for prev in body[:body.index(loop)]:
                    if isinstance(prev, ast.Assign) and any(isinstance(t, ast.Name) and t.id == acc for t in prev.targets):
                        init = prev.value
            seqs = _slice_start(loop.iter)
            start = None
            seq = None
            pos = tnames.index(elem)
            if len(seqs) == 1:
                seq, start = seqs[0]
            elif pos < len(seqs):
                seq, start = seqs[pos]
            uses = []
            for j, other in enumerate(loop.body):
                if other is st:
                    continue
                for x in walk_local(other):
                    if isinstance(x, ast.Name) and x.id == acc and isinstance(x.ctx, ast.Load):
                        uses.append((x, "before" if j < i else "after"))
            why = []
            if init is None:
                why.append("no initialisation of `%s` before the loop" % acc)
            elif start == 0:
                if not (isinstance(init, ast.Constant) and init.value == 0):
                    why.append("`%s` starts at `%s` although the loop starts at the first element" % (acc, norm(init)))
            elif start is not None and start >= 1:
                want = ["%s[0].size" % seq] if start == 1 else []
                if norm(init) not in want:
                    why.append("the loop skips the first %d element(s) of `%s` but `%s` starts at `%s`: the sizes of the skipped "
                               "elements are missing from every offset" % (start, seq, acc, norm(init)))
            elif start is None:
                why.append("iteration start of `%s` not understood" % norm(loop.iter))
            shift_after = []
            for x, when in uses:
                p = getattr(x, "_parent", None)
                as_offset = (isinstance(p, ast.BinOp) and isinstance(p.op, ast.LShift) and p.right is x) or isinstance(p, (ast.Tuple, ast.Yield)) \
                    or (isinstance(p, ast.Call) and x in p.args)
                if as_offset and when == "after":
                    shift_after.append(x)
            if shift_after:
                why.append("`%s` is used as the offset of the current element after `%s += %s.size`: that is the element's end offset"
                           % (acc, acc, elem))
            res.append({"loop": loop, "acc": acc, "elem": elem, "init": init, "start": start, "seq": seq, "uses": uses,
                        "ok": not why, "why": "; ".join(why), "stmt": st})
    return res
